(* Reference interpreter of yarel (Spec): booting the interpreter (core classes, core.yl, built-in
   globals) and the entry points  run_program / run_repl / show_outcome.  DEFINITIONS ONLY. *)
From Coq Require Import List NArith ZArith PArith Bool String.
From Coq Require Import Strings.Byte.
From YV Require Import Ast Show SpecValues SpecHeap SpecOps SpecNatives SpecPrep SpecMachine SpecCore.
Import ListNotations.
Local Close Scope Z_scope.
Local Open Scope list_scope.

(* ---------- outcome ---------- *)
Inductive result :=
| ROk (text : bytes)                       (* Display of the script's return value (always nil) *)
| RErr (kind : string) (msgs : list bytes)
| RFuel.

Record outcome := mkOutcome {
  out : list bytes;                        (* one entry per print() call, in order *)
  res : result }.

(* ---------- boot ---------- *)
Definition natives (l : list native_id) : list (name * value) :=
  map (fun n => (native_name n, VNative n xH)) l.

Definition merge_methods (base extra : list (name * value)) : list (name * value) :=
  fold_left (fun t kv => alist_set (fst kv) (snd kv) t) extra base.

Definition string_methods : list native_id :=
  [ NStrIter; NStrLen; NStrIsAlpha; NStrIsDigit; NStrIsHexdigit; NStrCountChars; NStrCharByteIndex;
    NStrFind; NStrReplace; NStrSplit; NStrStartsWith; NStrEndsWith; NStrToNum; NStrToBytes;
    NStrToCodePoints ].

(* phase 1: Object, Type, StringClass, String and the value-type classes *)
Definition boot_phase1 : store :=
  let s := empty_store in
  let objm := natives [NObjDerives] in
  let a_obj := 1%positive in
  let a_type := 2%positive in
  let '(s, _) := alloc s (OClass (B "Object") a_type None objm) in
  let '(s, _) := alloc s (OClass (B "Type") a_type (Some a_obj) objm) in
  let '(s, a_smeta) := alloc s (OClass (B "StringClass") a_type (Some a_obj)
                                  (natives [NStrFrom; NStrFromAscii; NStrFromUtf8; NStrFromCodePoints])) in
  let '(s, a_str) := alloc s (OClass (B "String") a_smeta (Some a_obj)
                                (merge_methods objm (natives string_methods))) in
  let vt (s : store) (nm : string) := alloc s (OClass (B nm) a_type (Some a_obj) objm) in
  let '(s, a_nil) := vt s "Nil" in
  let '(s, a_bool) := vt s "Boolean" in
  let '(s, a_num) := vt s "Num" in
  let '(s, a_func) := vt s "Func" in
  let '(s, a_builtin) := vt s "BuiltIn" in
  let '(s, a_method) := vt s "Method" in
  let '(s, a_bmethod) := vt s "BuiltInMethod" in
  let d := a_obj in
  set_cc s (mkCC a_obj a_type a_smeta a_str a_nil a_bool a_num a_func a_builtin a_method a_bmethod
                 d d d d d d d d d d d  d d d d d d d d d  d d d).

Definition fresh_state (s : store) (main : addr) (fib : addr) (srcs : modmap) : state :=
  mkState (CVal VNil) [] s 0%N main O fib [(B "main", main)] srcs.

(* start a script in module [m] on a new main fiber *)
Definition start_script (st : state) (m : addr) (p : program) : sres :=
  let s := set_out (st_store st) [] in
  let '(s1, cl) := alloc s (OClosure (script_fn (prep_program p)) [] m) in
  let '(s2, fib) := alloc s1 (OFiber (mkFiber FStarted None [] 0%N m O)) in
  let st1 := mkState (CVal VNil) [] s2 0%N m O fib (st_modules st) (st_srcs st) in
  enter_closure st1 cl (VClosure cl) [].

Definition main_module (st : state) : addr :=
  match registry_find (B "main") (st_modules st) with Some m => m | None => xH end.

Definition global_class (s : store) (m : addr) (x : string) : addr :=
  match alist_find (B x) (module_globals s m) with Some (VClass a) => a | _ => xH end.

(* phase 2: run core.yl in "main"; phase 3: the native object classes and the built-in globals *)
Definition boot_store : store * addr :=
  let s0 := boot_phase1 in
  let '(s1, main) := alloc s0 (OModule (B "main") false []) in
  let st0 := fresh_state s1 main xH [] in
  let s2 :=
    match start_script st0 main core_program with
    | SNext st1 =>
      match run_blocks 50 st1 with
      | RDone st2 _ => st_store st2
      | _ => s1
      end
    | _ => s1
    end in
  let cc := s_cc s2 in
  let g := global_class s2 main in
  let a_obj := cc_object cc in
  let a_type := cc_type cc in
  let objm := class_methods s2 a_obj in
  let a_iter := g "Iter" in
  let iterm := class_methods s2 a_iter in
  let mk (s : store) (nm : string) (meta sup : addr) (supm : list (name * value)) (own : list native_id) :=
    alloc s (OClass (B nm) meta (Some sup) (merge_methods supm (natives own))) in
  let s := s2 in
  let '(s, a_tuple) := mk s "Tuple" a_type a_obj objm [NTupLen; NTupIter] in
  let '(s, a_tuple_iter) := mk s "TupleIter" a_type a_iter iterm [NTupIterNext] in
  let '(s, a_vec) := mk s "Vec" a_type a_obj objm [NVecPush; NVecPop; NVecLen; NVecIter] in
  let '(s, a_vec_iter) := mk s "VecIter" a_type a_iter iterm [NVecIterNext] in
  let '(s, a_range) := mk s "Range" a_type a_obj objm [NRangeIter] in
  let '(s, a_range_iter) := mk s "RangeIter" a_type a_iter iterm [NRangeIterNext] in
  let '(s, a_map) := mk s "HashMap" a_type a_obj objm
                        [NMapHasKey; NMapGet; NMapInsert; NMapRemove; NMapClear; NMapLen; NMapKeys;
                         NMapValues; NMapItems] in
  let '(s, a_module) := mk s "Module" a_type a_obj objm [] in
  let '(s, a_string_iter) := mk s "StringIter" a_type a_iter iterm [NStrIterNext] in
  let '(s, a_fiber_meta) := mk s "FiberClass" a_type a_obj objm [NFiberYield; NFiberNew] in
  let '(s, a_fiber) := mk s "Fiber" a_fiber_meta a_obj objm [NFiberCall; NFiberHasFinished] in
  let cc' :=
    mkCC a_obj a_type (cc_string_meta cc) (cc_string cc) (cc_nil cc) (cc_bool cc) (cc_num cc)
         (cc_func cc) (cc_builtin cc) (cc_method cc) (cc_builtin_method cc)
         a_tuple a_tuple_iter a_vec a_vec_iter a_range a_range_iter a_map a_module a_string_iter
         a_fiber_meta a_fiber
         (g "Error") (g "StopIter") (g "RuntimeError") (g "AttributeError") (g "IndexError")
         (g "ImportError") (g "NameError") (g "TypeError") (g "ValueError")
         a_iter (g "MapIter") (g "FilterIter") in
  let s := set_cc s cc' in
  (set_out (install_builtins s main) [], main).

Definition boot_state (srcs : modmap) : state :=
  let '(s, main) := boot_store in fresh_state s main xH srcs.

(* ---------- outcomes ---------- *)
Definition outcome_of (r : rres) : outcome * option state :=
  match r with
  | RDone st v =>
    let s := st_store st in
    (mkOutcome (rev (s_out s)) (match show_value s v with Some t => ROk t | None => RFuel end), Some st)
  | RFail st k msgs =>
    (mkOutcome (rev (s_out (st_store st))) (RErr (string_of_list_byte k) msgs), Some st)
  | RMore st => (mkOutcome (rev (s_out (st_store st))) RFuel, Some st)
  | RStuck => (mkOutcome [] RFuel, None)
  end.

Definition run_from (fuel : nat) (st : state) (p : program) : rres :=
  match start_script st (main_module st) p with
  | SNext st1 => run_blocks fuel st1
  | SOk st1 v => RDone st1 v
  | SErr st1 k m => RFail st1 k m
  | SFuelOut => RStuck
  end.

(* fuel = number of blocks of 1000 machine steps *)
Definition run_program (fuel : nat) (mm : modmap) (p : program) : outcome :=
  fst (outcome_of (run_from fuel (boot_state mm) p)).

(* ---------- REPL ---------- *)
Inductive snippet :=
| Snip (p : program)
| SnipCompileError (msgs : list bytes)
| Reset.

(* after a failed run nothing of the failed fiber chain survives *)
Fixpoint discard_chain (fuel : nat) (s : store) (f : addr) : store :=
  match fuel with
  | O => s
  | S n =>
    match get_fiber s f with
    | Some fb =>
      let s1 := put_obj s f (OFiber (mkFiber FDone None [] 0%N (fb_mod fb) O)) in
      match fb_caller fb with Some c => discard_chain n s1 c | None => s1 end
    | None => s
    end
  end.

Definition settle (st : state) : state :=
  let s := discard_chain 1000 (st_store st) (st_fiber st) in
  mkState (CVal VNil) [] s 0%N (main_module st) O (st_fiber st) (st_modules st) (st_srcs st).

Fixpoint run_snippets (fuel : nat) (st : state) (l : list snippet) : list outcome :=
  match l with
  | [] => []
  | Snip p :: r =>
    let '(o, st') := outcome_of (run_from fuel st p) in
    o :: run_snippets fuel (match st' with Some x => settle x | None => st end) r
  | SnipCompileError msgs :: r =>
    mkOutcome [] (RErr "CompileError" msgs) :: run_snippets fuel st r
  | Reset :: r =>
    mkOutcome [] (ROk (B "nil")) :: run_snippets fuel (boot_state (st_srcs st)) r
  end.

Definition run_repl_with (fuel : nat) (mm : modmap) (l : list snippet) : list outcome :=
  run_snippets fuel (boot_state mm) l.
Definition run_repl (fuel : nat) (l : list snippet) : list outcome := run_repl_with fuel [] l.

(* ---------- printable rendering ---------- *)
Local Open Scope string_scope.
Definition show_result (r : result) : string :=
  match r with
  | ROk t => "ok:" ++ hex_of_bytes t
  | RErr k msgs => "err:" ++ k ++ ":" ++ show_list hex_of_bytes msgs
  | RFuel => "fuel"
  end.

Definition show_outcome (o : outcome) : string :=
  "out=" ++ show_list hex_of_bytes (out o) ++ ";res=" ++ show_result (res o).

Definition show_outcomes (l : list outcome) : string := show_list show_outcome l.
