#!/usr/bin/env python3
"""Validation of the reference interpreter (Spec*.v) on the repository's test corpus.

For every script under /repo/yarel/tests/scripts: the source text is parsed by the Coq parser model
(ParseRun.parse_source), run by SpecRun.run_program under vm_compute, and the printed lines + error
messages are compared with the expected output in the script's header (`// ` lines; the last one is
the exit code; `[MEMADDR]` stands for an address, which the Spec prints as `ADDR`).

usage: SpecScripts.py [--jobs N] [--fuel BLOCKS] [--only SUBSTR] [--verbose]
Writes generated case files to /tmp/spec_scripts/ and prints a summary + every disagreement.
"""
import os, re, subprocess, sys, json
from concurrent.futures import ThreadPoolExecutor

ROOT = "/repo/yarel/tests/scripts"
COQ = "/verif/coq"
OUT = "/tmp/spec_scripts"

def hexs(b): return b.hex()

def header(src):
    lines = []
    for l in src.split("\n"):
        if l.startswith("// "):
            lines.append(l[3:])
        else:
            break
    code = lines.pop() if lines else None
    return lines, code

def rust_lines(t):
    parts = t.split("\n")
    if parts and parts[-1] == "":
        parts.pop()
    return [p[:-1] if p.endswith("\r") else p for p in parts]

IMPORT_RE = re.compile(r'import\s+"([^"]*)"')

def module_closure(src, seen):
    for m in IMPORT_RE.findall(src):
        if m in seen or m == "main":
            continue
        p = os.path.join(ROOT, m + ".yl")
        if os.path.isfile(p):
            seen[m] = open(p, "rb").read()
            module_closure(seen[m].decode("utf-8", "replace"), seen)
    return seen

def all_scripts():
    res = []
    for d, _, fs in os.walk(ROOT):
        for f in fs:
            if f.endswith(".yl"):
                res.append(os.path.join(d, f))
    return sorted(res)

def gen_file(idx, paths, fuel):
    fn = os.path.join(OUT, f"Cases{idx}.v")
    with open(fn, "w") as o:
        o.write("From Coq Require Import List String.\nFrom YV Require Import SpecScripts.\nImport ListNotations.\nOpen Scope string_scope.\n")
        for p in paths:
            src = open(p, "rb").read()
            mods = module_closure(src.decode("utf-8", "replace"), {})
            ml = "; ".join(f'("{k}", "{hexs(v)}")' for k, v in mods.items())
            o.write(f'Eval vm_compute in (run_case {fuel} [{ml}] "{hexs(src)}").\n')
    return fn

def run_file(fn):
    r = subprocess.run(["coqc", "-Q", "theories", "YV", fn], cwd=COQ, capture_output=True, text=True, timeout=3000)
    if r.returncode != 0:
        sys.stderr.write(r.stderr[-2000:])
    return re.findall(r'= "([^"]*)"', r.stdout)

def unhex_list(s):
    s = s.strip()
    assert s.startswith("[") and s.endswith("]"), s
    body = s[1:-1]
    if body == "":
        return []
    return [bytes.fromhex(x).decode("utf-8", "replace") for x in body.split(",")]

def decode(result):
    """-> (kind, lines) ; kind in ok/err:<Kind>/fuel/compile/parsefuel"""
    if result.startswith("compile:"):
        return "compile", [bytes.fromhex(result[8:]).decode("utf-8", "replace")]
    if result == "parsefuel":
        return "parsefuel", []
    m = re.match(r"out=(\[[^\]]*\]);res=(.*)$", result)
    outs = unhex_list(m.group(1))
    lines = []
    for t in outs:
        lines.extend(rust_lines(t))
    res = m.group(2)
    if res.startswith("ok:"):
        return "ok", lines
    if res == "fuel":
        return "fuel", lines
    m2 = re.match(r"err:([A-Za-z]+):(\[.*\])$", res)
    return "err:" + m2.group(1), lines + unhex_list(m2.group(2))

def main():
    jobs, fuel, only, verbose = 14, 3000, None, False
    a = sys.argv[1:]
    while a:
        x = a.pop(0)
        if x == "--jobs": jobs = int(a.pop(0))
        elif x == "--fuel": fuel = int(a.pop(0))
        elif x == "--only": only = a.pop(0)
        elif x == "--verbose": verbose = True
    os.makedirs(OUT, exist_ok=True)
    scripts = [p for p in all_scripts() if only is None or only in p]
    chunks = [scripts[i::jobs] for i in range(jobs)]
    chunks = [c for c in chunks if c]
    files = [gen_file(i, c, fuel) for i, c in enumerate(chunks)]
    with ThreadPoolExecutor(max_workers=jobs) as ex:
        results = list(ex.map(run_file, files))
    agree, disagree = 0, []
    stats = {}
    for c, rs in zip(chunks, results):
        if len(rs) != len(c):
            print("!! result count mismatch", len(rs), len(c), c[:1])
        for p, r in zip(c, rs):
            src = open(p, "rb").read().decode("utf-8", "replace")
            exp, code = header(src)
            kind, act = decode(r)
            expm = [e.replace("[MEMADDR]", "ADDR") for e in exp]
            rel = os.path.relpath(p, ROOT)
            # tests/test.rs match_line: a line matches when one text is a prefix of the other;
            # the exit code in the header is not checked by the repository's harness either
            def line_ok(e, x):
                return e == x or x.startswith(e) or e.startswith(x)
            if kind == "compile":
                ok = len(expm) >= 1 and line_ok(expm[0], act[0])
                cat = "compile"
            else:
                ok = len(expm) == len(act) and all(line_ok(e, x) for e, x in zip(expm, act)) \
                     and kind not in ("fuel", "parsefuel")
                cat = "run"
            stats[cat] = stats.get(cat, 0) + 1
            if ok:
                agree += 1
            else:
                disagree.append((rel, code, kind, exp, act))
    print(f"scripts: {len(scripts)}  agree: {agree}  disagree: {len(disagree)}  ({stats})")
    for rel, code, kind, exp, act in disagree:
        print(f"--- {rel}: expected exit {code}, spec {kind}")
        if verbose or True:
            for e in exp: print("   E|", e)
            for x in act: print("   S|", x)

if __name__ == "__main__":
    main()
