(* Reference interpreter of yarel (Spec): driver for running yarel SOURCE TEXT (parsed by the
   parser model, ParseRun.parse_source) through the Spec.  Used by SpecScripts.py, which feeds it all
   scripts under /repo/yarel/tests/scripts and compares with the expected output in their headers.
   DEFINITIONS ONLY. *)
From Coq Require Import List NArith String.
From Coq Require Import Strings.Byte.
From YV Require Import Ast Show Parser ParseRun.
From YV Require Import SpecValues SpecHeap SpecMachine SpecRun SpecCore.
Import ListNotations.
Local Open Scope string_scope.

(* compiler.rs error_at *)
Definition compile_error_text (path : bytes) (l : N) (a : err_at) (m : string) : bytes :=
  (B "[module """ ++ path ++ B """, line " ++ B (show_N l) ++ B "] Error" ++
   match a with
   | AtEnd => B " at end"
   | AtNothing => []
   | AtToken lex => B " at '" ++ lex ++ B "'"
   end ++ B ": " ++ B m)%list.

Definition module_of_source (path src : bytes) : module_src :=
  match parse_source src with
  | POk p => MAst p
  | PErr l a m => MCompileError [compile_error_text path l a m]
  | POutOfFuel => MMissing
  end.

Definition modmap_of_hex (mods : list (string * string)) : modmap :=
  map (fun pm => let path := B (fst pm) in (path, module_of_source path (bytes_of_hex (snd pm)))) mods.

(* result: show_outcome text, or "compile:<hex of first message>" *)
Definition run_case (fuel : nat) (mods : list (string * string)) (hex : string) : string :=
  match parse_source (bytes_of_hex hex) with
  | POk p => show_outcome (run_program fuel (modmap_of_hex mods) p)
  | PErr l a m => "compile:" ++ hex_of_bytes (compile_error_text (B "main") l a m)
  | POutOfFuel => "parsefuel"
  end.

Definition run_text (fuel : nat) (src : string) : string :=
  run_case fuel [] (hex_of_bytes (list_byte_of_string src)).

(* REPL: each snippet given as hex source text; "RESET" resets *)
Definition snippet_of_hex (hex : string) : snippet :=
  if String.eqb hex "RESET" then Reset else
  match parse_source (bytes_of_hex hex) with
  | POk p => Snip p
  | PErr l a m => SnipCompileError [compile_error_text (B "main") l a m]
  | POutOfFuel => SnipCompileError [B "parse fuel"]
  end.

Definition run_repl_case (fuel : nat) (mods : list (string * string)) (snips : list string) : string :=
  show_outcomes (run_repl_with fuel (modmap_of_hex mods) (map snippet_of_hex snips)).

(* core.yl: the hand-written AST of SpecCore.v is what the parser produces from the file text *)
Definition core_ast_matches (hex : string) : bool :=
  match parse_source (bytes_of_hex hex) with
  | POk p => String.eqb (show_program p) (show_program core_program)
  | _ => false
  end.

(* ---------- readable results for SpecTests.v ---------- *)
(* printed texts (one string per print call), then each error message prefixed "! ",
   then "ok" / "err:<Kind>" / "fuel" *)
Definition outcome_lines (o : outcome) : list string :=
  let tail := match res o with
              | ROk _ => ["ok"]
              | RErr k msgs =>
                (map (fun m => String.append "! " (string_of_list_byte m)) msgs ++ [String.append "err:" k])%list
              | RFuel => ["fuel"]
              end in
  (map string_of_list_byte (out o) ++ tail)%list.

Definition text_modmap (mods : list (string * string)) : modmap :=
  map (fun pm => let path := B (fst pm) in
                 (path, module_of_source path (list_byte_of_string (snd pm)))) mods.

Definition run_lines_mods (fuel : nat) (mods : list (string * string)) (src : string) : list string :=
  match parse_source (list_byte_of_string src) with
  | POk p => outcome_lines (run_program fuel (text_modmap mods) p)
  | PErr l a m => ["compile: " ++ string_of_list_byte (compile_error_text (B "main") l a m)]
  | POutOfFuel => ["parsefuel"]
  end.

Definition run_lines (fuel : nat) (src : string) : list string := run_lines_mods fuel [] src.

Definition snippet_of_text (src : string) : snippet :=
  if String.eqb src "RESET" then Reset else
  match parse_source (list_byte_of_string src) with
  | POk p => Snip p
  | PErr l a m => SnipCompileError [compile_error_text (B "main") l a m]
  | POutOfFuel => SnipCompileError [B "parse fuel"]
  end.

Definition run_repl_lines (fuel : nat) (mods : list (string * string)) (snips : list string)
  : list (list string) :=
  map outcome_lines (run_repl_with fuel (text_modmap mods) (map snippet_of_text snips)).

Definition core_ast_matches_text (src : string) : bool :=
  core_ast_matches (hex_of_bytes (list_byte_of_string src)).
