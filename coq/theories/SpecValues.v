(* Reference interpreter of yarel (Spec): value domain, heap objects, continuation frames.
   DEFINITIONS ONLY.  See SPEC_REPORT.md for the architecture. *)
From Coq Require Import List NArith ZArith PArith Bool String.
From Coq Require Import Strings.Byte.
From Coq Require Import Floats.SpecFloat.
From YV Require Import Ast Show.
Import ListNotations.

Definition addr := positive.
Definition bytes := list byte.

(* text literals: Coq strings are converted to UTF-8 byte lists *)
Definition B (s : string) : bytes := list_byte_of_string s.

Fixpoint bytes_eqb (a b : bytes) : bool :=
  match a, b with
  | [], [] => true
  | x :: a', y :: b' => Byte.eqb x y && bytes_eqb a' b'
  | _, _ => false
  end.

(* ---------- natives ---------- *)
Inductive native_id :=
| NClock | NType | NPrint
| NObjDerives
| NStrFrom | NStrFromAscii | NStrFromUtf8 | NStrFromCodePoints
| NStrIter | NStrLen | NStrIsAlpha | NStrIsDigit | NStrIsHexdigit | NStrCountChars
| NStrCharByteIndex | NStrFind | NStrReplace | NStrSplit | NStrStartsWith | NStrEndsWith
| NStrToNum | NStrToBytes | NStrToCodePoints
| NStrIterNext
| NTupLen | NTupIter | NTupIterNext
| NVecPush | NVecPop | NVecLen | NVecIter | NVecIterNext
| NRangeIter | NRangeIterNext
| NMapHasKey | NMapGet | NMapInsert | NMapRemove | NMapClear | NMapLen | NMapKeys | NMapValues | NMapItems
| NFiberNew | NFiberYield | NFiberCall | NFiberHasFinished.

Definition native_name (n : native_id) : bytes :=
  B (match n with
  | NClock => "clock" | NType => "type" | NPrint => "print"
  | NObjDerives => "derives"
  | NStrFrom => "from" | NStrFromAscii => "from_ascii" | NStrFromUtf8 => "from_utf8"
  | NStrFromCodePoints => "from_code_points"
  | NStrIter => "iter" | NStrLen => "len" | NStrIsAlpha => "is_alpha" | NStrIsDigit => "is_digit"
  | NStrIsHexdigit => "is_hexdigit" | NStrCountChars => "count_chars"
  | NStrCharByteIndex => "char_byte_index" | NStrFind => "find" | NStrReplace => "replace"
  | NStrSplit => "split" | NStrStartsWith => "starts_with" | NStrEndsWith => "ends_with"
  | NStrToNum => "to_num" | NStrToBytes => "to_bytes" | NStrToCodePoints => "to_code_points"
  | NStrIterNext => "next"
  | NTupLen => "len" | NTupIter => "iter" | NTupIterNext => "next"
  | NVecPush => "push" | NVecPop => "pop" | NVecLen => "len" | NVecIter => "iter" | NVecIterNext => "next"
  | NRangeIter => "iter" | NRangeIterNext => "next"
  | NMapHasKey => "has_key" | NMapGet => "get" | NMapInsert => "insert" | NMapRemove => "remove"
  | NMapClear => "clear" | NMapLen => "len" | NMapKeys => "keys" | NMapValues => "values"
  | NMapItems => "items"
  | NFiberNew => "new" | NFiberYield => "yield" | NFiberCall => "call"
  | NFiberHasFinished => "has_finished"
  end)%string.

Definition native_tag (n : native_id) : N :=
  match n with
  | NClock => 0 | NType => 1 | NPrint => 2 | NObjDerives => 3
  | NStrFrom => 4 | NStrFromAscii => 5 | NStrFromUtf8 => 6 | NStrFromCodePoints => 7
  | NStrIter => 8 | NStrLen => 9 | NStrIsAlpha => 10 | NStrIsDigit => 11 | NStrIsHexdigit => 12
  | NStrCountChars => 13 | NStrCharByteIndex => 14 | NStrFind => 15 | NStrReplace => 16
  | NStrSplit => 17 | NStrStartsWith => 18 | NStrEndsWith => 19 | NStrToNum => 20
  | NStrToBytes => 21 | NStrToCodePoints => 22 | NStrIterNext => 23
  | NTupLen => 24 | NTupIter => 25 | NTupIterNext => 26
  | NVecPush => 27 | NVecPop => 28 | NVecLen => 29 | NVecIter => 30 | NVecIterNext => 31
  | NRangeIter => 32 | NRangeIterNext => 33
  | NMapHasKey => 34 | NMapGet => 35 | NMapInsert => 36 | NMapRemove => 37 | NMapClear => 38
  | NMapLen => 39 | NMapKeys => 40 | NMapValues => 41 | NMapItems => 42
  | NFiberNew => 43 | NFiberYield => 44 | NFiberCall => 45 | NFiberHasFinished => 46
  end%N.

Definition native_eqb (a b : native_id) : bool := N.eqb (native_tag a) (native_tag b).

(* ---------- values ---------- *)
(* Strings by content.  Tuples by structure; [id] is the identity of the tuple object, used ONLY for the
   identity shortcut of == and for the display lock (cycle printing).  Ranges are immutable objects
   with identity [a] (range cache) carrying their bounds.  Everything else is a heap reference. *)
Inductive value :=
| VNil
| VBool (b : bool)
| VNum (x : spec_float)
| VStr (s : bytes)
| VTuple (id : addr) (es : list value)
| VRange (a : addr) (b e : Z)
| VVec (a : addr)
| VMap (a : addr)
| VClass (a : addr)
| VInst (a : addr)
| VClosure (a : addr)
| VNative (n : native_id) (owner : addr)   (* owner: the module whose built-in global it is; xH for methods *)
| VBound (a : addr)          (* closure bound to a receiver *)
| VBoundNat (a : addr)       (* native bound to a receiver *)
| VModule (a : addr)
| VFiber (a : addr)
| VStrIter (a : addr)
| VTupIter (a : addr)
| VVecIter (a : addr)
| VRangeIter (a : addr).

(* lexical environment: innermost binding first; variables are cells in the store *)
Definition env := list (name * addr).

Inductive fkind := FKFunction | FKMethod | FKStatic | FKInit | FKScript.

Inductive fbody :=
| FBStmts (b : list stmt)
| FBExpr (e : expr) (l : lineno)        (* |x| e ; l = line of the statement that created the lambda *)
| FBDefaultInit.                        (* #[constructor(new)] *)

Record fn_info := mkFn {
  fn_name : name;
  fn_kind : fkind;
  fn_params : list name;
  fn_body : fbody }.

(* name of slot 0 of a function of this kind (compiler.rs Compiler::new) *)
Definition slot0_name (k : fkind) : name :=
  match k with
  | FKFunction => []
  | FKStatic => B "Self"
  | FKMethod | FKInit | FKScript => B "self"
  end.

(* ---------- continuation frames ---------- *)
Inductive pending :=
| PNormal | PThrow (v : value) | PBreak | PContinue | PReturn (v : value).

Inductive args_kont :=
| AKCall (f : value)
| AKInvoke (recv : value) (m : name)
| AKSuper (recv : value) (m : name)
| AKTuple | AKVec | AKMap.

Inductive frame :=
(* expressions *)
| KUnary (op : unop)
| KBinL (op : binop) (b : expr) (en : env)
| KBinR (op : binop) (va : value)
| KAnd (b : expr) (en : env)
| KOr (b : expr) (en : env)
| KRangeL (b : expr) (en : env)
| KRangeR (va : value)
| KAssign (x : name) (en : env)
| KCompound (x : name) (op : binop) (old : value) (en : env)
| KCallFn (args : list expr) (en : env)
| KArgs (k : args_kont) (done : list value) (todo : list expr) (en : env)
| KGet (m : name)
| KSetObj (m : name) (e : expr) (en : env)
| KSetVal (o : value) (m : name)
| KSetCompObj (m : name) (op : binop) (e : expr) (en : env)
| KSetCompVal (o : value) (m : name) (op : binop) (old : value)
| KInvokeObj (m : name) (args : list expr) (en : env)
| KIndexObj (i : expr) (en : env)
| KIndexIdx (o : value)
| KSetIndexObj (i e : expr) (en : env)
| KSetIndexIdx (o : value) (e : expr) (en : env)
| KSetIndexVal (o i : value)
| KInterp (acc : bytes) (rest : list interp_part) (en : env)
(* statements *)
| KSeq (rest : list stmt) (en : env) (glob : bool)
| KVarDecl (x : name) (rest : list stmt) (en : env) (glob : bool)
| KIf (t : list stmt) (e : option stmt) (en : env)
| KWhileCond (c : expr) (b : list stmt) (en : env) (l : lineno)
| KWhileBody (c : expr) (b : list stmt) (en : env) (l : lineno)
| KForIt (x : name) (b : list stmt) (en : env) (l : lineno)
| KForIter (x : name) (b : list stmt) (en : env) (l : lineno)
| KForNext (cx : addr) (it : value) (b : list stmt) (en : env) (l : lineno)
| KForBody (cx : addr) (it : value) (b : list stmt) (en : env) (l : lineno)
| KReturn
| KThrow
| KTry (c : option (name * list stmt)) (f : option (list stmt)) (en : env)
| KCatch (f : list stmt) (en : env)
| KFinally (p : pending) (l : lineno)
| KCall (cl : addr) (ret_self : option addr) (saved_line : lineno) (saved_mod : addr)
| KImportDone (m : addr).

Inductive control :=
| CExpr (e : expr) (en : env)
| CStmts (ss : list stmt) (en : env) (glob : bool)
| CVal (v : value)
| CThrow (v : value)
| CBreak
| CContinue
| CReturn (v : value).

(* ---------- fibers ---------- *)
Inductive fstatus := FNew (cl : addr) | FStarted | FDone.

Record fiber := mkFiber {
  fb_status : fstatus;
  fb_caller : option addr;      (* Some c: called by c and not yet yielded/finished *)
  fb_kont : list frame;         (* saved continuation while not running *)
  fb_line : lineno;
  fb_mod : addr;
  fb_depth : nat }.

(* ---------- heap objects ---------- *)
Inductive obj :=
| OVec (es : list value)
| OMap (kvs : list (value * value))                    (* insertion order; keys pairwise not == *)
| OInst (cls : addr) (fields : list (name * value))
| OClass (nm : name) (meta : addr) (super : option addr) (methods : list (name * value))
| OClosure (f : fn_info) (en : env) (m : addr)
| OBound (recv : value) (cl : addr)
| OBoundNat (recv : value) (n : native_id)
| OModule (path : bytes) (imported : bool) (globals : list (name * value))
| OStrIter (s : bytes) (pos : nat)
| OTupIter (es : list value) (cur : nat)
| OVecIter (vec : addr) (cur : nat)
| ORangeIter (cur stop step : Z)
| OFiber (f : fiber).

(* ---------- error kinds ---------- *)
Inductive ekind :=
| EAttributeError | EImportError | EIndexError | ENameError | ERuntimeError | ETypeError | EValueError.

Definition ekind_name (k : ekind) : bytes :=
  B (match k with
     | EAttributeError => "AttributeError" | EImportError => "ImportError"
     | EIndexError => "IndexError" | ENameError => "NameError" | ERuntimeError => "RuntimeError"
     | ETypeError => "TypeError" | EValueError => "ValueError" end)%string.

(* association lists keyed by names *)
Fixpoint alist_find {A} (x : name) (l : list (name * A)) : option A :=
  match l with
  | [] => None
  | (y, v) :: r => if bytes_eqb x y then Some v else alist_find x r
  end.

(* insert or overwrite in place (keeps position of an existing key; new keys go to the FRONT) *)
Fixpoint alist_replace {A} (x : name) (v : A) (l : list (name * A)) : option (list (name * A)) :=
  match l with
  | [] => None
  | (y, w) :: r =>
    if bytes_eqb x y then Some ((y, v) :: r)
    else match alist_replace x v r with Some r' => Some ((y, w) :: r') | None => None end
  end.

Definition alist_set {A} (x : name) (v : A) (l : list (name * A)) : list (name * A) :=
  match alist_replace x v l with Some l' => l' | None => (x, v) :: l end.

Definition truthy (v : value) : bool :=
  match v with VNil => false | VBool b => b | _ => true end.
