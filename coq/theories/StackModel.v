(* StackModel.v - Mechanism model (M) of yarel/src/stack.rs `Stack<T, N>`: a boxed array `[T; N]` and a raw
   pointer `top` into it.  Every operation of the Rust code has ONE body with a
   `cfg!(any(debug_assertions, feature = "safe_stack"))` guard in front of the raw pointer code; the model
   therefore takes the guard as a boolean [chk] (true = checked build, false = raw build).
   Definitions only (proofs: ConfigProofs.v).

   Representation: [cells] = contents of the box (length CAP), [top] = offset of the `top` pointer from the
   base of the box, as a Z: in the raw build the pointer can be moved anywhere, the model keeps the
   arithmetic unbounded and answers [RUB] (undefined behaviour) as soon as the real code would
   read/write outside [0,CAP), form a pointer outside the allocation (beyond one-past-the-end), or compute
   a negative length.  After [RPanic]/[RUB] a run stops. *)
From Coq Require Import List ZArith Bool String Lia.
Import ListNotations.
Open Scope Z_scope.

Section StackModel.
  Variable T : Type.
  Variable dflt : T.          (* Default::default() *)
  Variable CAP : nat.         (* const N: usize *)

  Record stack : Type := mkStack { cells : list T; top : Z }.

  (* Default::default(): Box::new([Default::default(); N]); clear() *)
  Definition new_stack : stack := mkStack (repeat dflt CAP) 0.

  Inductive res : Type :=
  | RVal (v : T)              (* &T / Some(v) *)
  | RNone                     (* pop: None (checked build, empty stack) *)
  | RUnit
  | RLen (n : nat)
  | RPanic (msg : string)
  | RUB.                      (* the real code has undefined behaviour here *)

  Definition in_box (i : Z) : bool := (0 <=? i) && (i <? Z.of_nat CAP).

  Fixpoint upd (i : nat) (v : T) (l : list T) : list T :=
    match l, i with
    | [], _ => []
    | _ :: r, O => v :: r
    | x :: r, S j => x :: upd j v r
    end.

  (* len(): top.offset_from(base) as usize; the guards use it only when chk = true *)
  Definition len_u (s : stack) : nat := Z.to_nat (top s).
  Definition len_op (s : stack) : res * stack :=
    if top s <? 0 then (RUB, s) else (RLen (Z.to_nat (top s)), s).

  (* peek(depth): guard; &*top.offset(-(depth) - 1) *)
  Definition peek (chk : bool) (depth : nat) (s : stack) : res * stack :=
    if chk && (len_u s <=? depth)%nat then (RPanic "Stack index out of range.", s)
    else let i := top s - Z.of_nat depth - 1 in
         if in_box i then (RVal (nth (Z.to_nat i) (cells s) dflt), s) else (RUB, s).

  (* peek_mut(depth) followed by the store every caller does (`*stack.peek_mut(d) = v`, Vm::poke) *)
  Definition poke (chk : bool) (depth : nat) (v : T) (s : stack) : res * stack :=
    if chk && (len_u s <=? depth)%nat then (RPanic "Stack index out of range.", s)
    else let i := top s - Z.of_nat depth - 1 in
         if in_box i then (RUnit, mkStack (upd (Z.to_nat i) v (cells s)) (top s)) else (RUB, s).

  (* push(data): guard; *top = data; top = top.offset(1) *)
  Definition push (chk : bool) (v : T) (s : stack) : res * stack :=
    if chk && (len_u s =? CAP)%nat then (RPanic "Stack overflow.", s)
    else if in_box (top s) then (RUnit, mkStack (upd (Z.to_nat (top s)) v (cells s)) (top s + 1))
         else (RUB, s).

  (* pop(): guard -> None; top = top.offset(-1); Some( *top ) *)
  Definition pop (chk : bool) (s : stack) : res * stack :=
    if chk && (len_u s =? 0)%nat then (RNone, s)
    else let t := top s - 1 in
         if in_box t then (RVal (nth (Z.to_nat t) (cells s) dflt), mkStack (cells s) t) else (RUB, s).

  (* truncate(size): size clamped to len() by the guard; top = base.offset(size) *)
  Definition truncate (chk : bool) (size : nat) (s : stack) : res * stack :=
    let size' := if chk && (len_u s <? size)%nat then len_u s else size in
    if (size' <=? CAP)%nat then (RUnit, mkStack (cells s) (Z.of_nat size')) else (RUB, s).

  (* clear(): top = base *)
  Definition clear (s : stack) : res * stack := (RUnit, mkStack (cells s) 0).

  Inductive op : Type :=
  | OPeek (depth : nat) | OPoke (depth : nat) (v : T) | OPush (v : T) | OPop
  | OTruncate (size : nat) | OLen | OClear.

  Definition step (chk : bool) (o : op) (s : stack) : res * stack :=
    match o with
    | OPeek d => peek chk d s
    | OPoke d v => poke chk d v s
    | OPush v => push chk v s
    | OPop => pop chk s
    | OTruncate n => truncate chk n s
    | OLen => len_op s
    | OClear => clear s
    end.

  Definition stops (r : res) : bool :=
    match r with RPanic _ | RUB => true | _ => false end.

  (* results in order; the run ends at the first panic / UB *)
  Fixpoint run (chk : bool) (ops : list op) (s : stack) : list res * stack :=
    match ops with
    | [] => ([], s)
    | o :: rest =>
        let '(r, s') := step chk o s in
        if stops r then ([r], s')
        else let '(rs, s'') := run chk rest s' in (r :: rs, s'')
    end.

  (* the caller's side of the contract: what the checked build answers with a panic, with None, or by
     clamping.  Exactly these calls are "misuse". *)
  Definition misuse (o : op) (s : stack) : bool :=
    match o with
    | OPeek d | OPoke d _ => (len_u s <=? d)%nat       (* peek depth >= len *)
    | OPush _ => (len_u s =? CAP)%nat                   (* push at N *)
    | OPop => (len_u s =? 0)%nat                        (* pop on empty *)
    | OTruncate n => (len_u s <? n)%nat                 (* truncate above len *)
    | OLen | OClear => false
    end.

  (* no call of the sequence is a misuse, judged along the CHECKED run *)
  Fixpoint no_misuse (ops : list op) (s : stack) : bool :=
    match ops with
    | [] => true
    | o :: rest => negb (misuse o s) && no_misuse rest (snd (step true o s))
    end.

  Definition has_ub (rs : list res) : bool :=
    existsb (fun r => match r with RUB => true | _ => false end) rs.

  Definition wf (s : stack) : Prop := List.length (cells s) = CAP /\ 0 <= top s <= Z.of_nat CAP.
End StackModel.

Arguments RVal {T} v.
Arguments RNone {T}.
Arguments RUnit {T}.
Arguments RLen {T} n.
Arguments RPanic {T} msg.
Arguments RUB {T}.
Arguments OPeek {T} depth.
Arguments OPoke {T} depth v.
Arguments OPush {T} v.
Arguments OPop {T}.
Arguments OTruncate {T} size.
Arguments OLen {T}.
Arguments OClear {T}.
