(* Mechanism model (M) of yarel's string / vec / tuple indexing and the String natives.
   Definitions only (proofs: StrProofs.v).  Transcribed from
     vm.rs      string_get_item, slice_get_item
     object.rs  ObjString::validate_char_boundary, ObjStringIter::next
     core.rs    check_num_args, string_* natives, string_iter_next
   Byte cursors, loop bounds, order of checks and message texts follow the Rust code.
   Where the Rust code slices a str or indexes a Vec the model uses a CHECKED operation and returns
   [RustPanic] if the Rust operation would panic. *)
From Coq Require Import String.
From Coq Require Import List NArith ZArith Bool Arith.
From Coq Require Import Strings.Byte.
From YV Require Import Show Utf8 Index.
Import ListNotations.
Local Open Scope string_scope.
Local Open Scope nat_scope.

(* ---------- values ---------- *)
(* element of a Vec argument; [shown] = its Display rendering (used in messages) *)
Inductive elem : Type :=
| ENum (n : num) (shown : string)
| EOther (shown : string).

Inductive argv : Type :=
| ANum (n : num)
| AStr (s : list byte)
| ARange (rbegin rend : Z)          (* ObjRange: both ends already isize *)
| AVec (l : list elem)
| AOther.                            (* anything else *)

Record arg : Type := mkArg { av : argv; shown : string }.

(* results of the natives *)
Inductive rvalue : Type :=
| RNone
| RBool (b : bool)
| RNum (z : Z)                       (* Value::Number(x as f64), x a usize / u8 / u32 *)
| RStr (s : list byte)
| RVecNum (l : list Z)
| RVecStr (l : list (list byte))
| RStopIter.

Definition res := result rvalue err.

Definition idx_of_arg (a : arg) : idx :=
  match av a with ANum n => idx_of_num n | _ => INotNumber end.

(* ---------- Rust primitives ---------- *)
(* &s[b..e] on a str: panics unless b <= e <= len and both are char boundaries *)
Definition str_slice (s : list byte) (b e : nat) : option (list byte) :=
  if (b <=? e) && (e <=? length s) && is_char_boundary s b && is_char_boundary s e
  then Some (firstn (e - b) (skipn b s)) else None.

(* &v[b..e] on a slice: panics unless b <= e <= len *)
Definition vec_slice {A} (v : list A) (b e : nat) : option (list A) :=
  if (b <=? e) && (e <=? length v) then Some (firstn (e - b) (skipn b v)) else None.

Definition slice_panic : err := RustPanic "slice index out of range or not on a char boundary".
Definition index_panic : err := RustPanic "index out of bounds".

(* str::starts_with / ends_with on bytes *)
Fixpoint is_prefix (p s : list byte) : bool :=
  match p, s with
  | [], _ => true
  | x :: p', y :: s' => Byte.eqb x y && is_prefix p' s'
  | _ :: _, [] => false
  end.

Definition is_suffix (p s : list byte) : bool := is_prefix (rev p) (rev s).

(* str::replace(old, new), old non-empty: leftmost, non-overlapping.  [skip] = bytes of the current
   match still to be dropped. *)
Fixpoint replace_go (old new s : list byte) (skip : nat) : list byte :=
  match s with
  | [] => []
  | b :: r =>
    match skip with
    | S k => replace_go old new r k
    | O =>
      if is_prefix old s then (new ++ replace_go old new r (length old - 1))%list
      else b :: replace_go old new r 0
    end
  end.
Definition replace_bytes (old new s : list byte) : list byte := replace_go old new s 0.

(* str::split(delim), delim non-empty.  [cur] = piece being accumulated. *)
Fixpoint split_go (delim s : list byte) (skip : nat) (cur : list byte) : list (list byte) :=
  match s with
  | [] => [cur]
  | b :: r =>
    match skip with
    | S k => split_go delim r k cur
    | O =>
      if is_prefix delim s then cur :: split_go delim r (length delim - 1) []
      else split_go delim r 0 (cur ++ [b])%list
    end
  end.
Definition split_bytes (delim s : list byte) : list (list byte) := split_go delim s 0 [].

(* str::chars().count(): std counts the bytes that are not continuation bytes *)
Definition count_chars_bytes (s : list byte) : nat := length (filter (fun b => negb (is_cont b)) s).

(* char::is_ascii_alphabetic / is_ascii_digit / is_ascii_hexdigit on a code point *)
Definition cp_is_alpha (c : N) : bool :=
  ((65 <=? c) && (c <=? 90) || (97 <=? c) && (c <=? 122))%N.
Definition cp_is_digit (c : N) : bool := ((48 <=? c) && (c <=? 57))%N.
Definition cp_is_hexdigit (c : N) : bool :=
  (cp_is_digit c || (65 <=? c) && (c <=? 70) || (97 <=? c) && (c <=? 102))%N.

(* ---------- core.rs check_num_args ---------- *)
Definition check_num_args (num_args expected : nat) : result unit err :=
  if Nat.eqb num_args expected then Ok tt
  else Error (TypeError ("Expected " ++ show_nat expected ++ " parameter"
                         ++ (if Nat.eqb expected 1 then "" else "s")
                         ++ " but found " ++ show_nat num_args ++ ".")).

(* ---------- object.rs ObjString::validate_char_boundary ---------- *)
Definition validate_char_boundary (s : list byte) (pos : nat) (desc : string) : result unit err :=
  if is_char_boundary s pos then Ok tt
  else Error (IndexError ("Provided " ++ desc ++ " is not on a character boundary.")).

(* ---------- vm.rs string_get_item ---------- *)
(* while end <= string.len() && !is_char_boundary(end) { end += 1 } ; fuel >= length s suffices *)
Fixpoint scan_end (s : list byte) (fuel : nat) (e : nat) : nat :=
  match fuel with
  | O => e
  | S f => if (e <=? length s) && negb (is_char_boundary s e) then scan_end s f (S e) else e
  end.

Definition string_get_item (s : list byte) (a : arg) : res :=
  let string_len := Z.of_nat (length s) in
  let be : result (nat * nat) err :=
    match av a with
    | ANum n =>
      bind (bounded_index "String" (shown a) (idx_of_num n) string_len) (fun b =>
      bind (validate_char_boundary s b "string index") (fun _ =>
      Ok (b, scan_end s (length s) (b + 1))))
    | ARange rb re =>
      bind (bounded_range "String" rb re string_len) (fun be =>
      bind (validate_char_boundary s (fst be) "string slice start") (fun _ =>
      bind (validate_char_boundary s (snd be) "string slice end") (fun _ =>
      Ok be)))
    | _ => Error (TypeError "Expected an integer or range.")
    end in
  bind be (fun be =>
  match str_slice s (fst be) (snd be) with
  | Some t => Ok (RStr t)
  | None => Error slice_panic
  end).

(* ---------- vm.rs slice_get_item (Vec and Tuple) ---------- *)
Inductive index_result (A : Type) : Type :=
| Scalar (a : A)
| Slice (l : list A).
Arguments Scalar {A} a.
Arguments Slice {A} l.

Definition slice_get_item {A} (elements : list A) (kind : string) (a : arg)
  : result (index_result A) err :=
  let elems_len := Z.of_nat (length elements) in
  match av a with
  | ANum n =>
    bind (bounded_index kind (shown a) (idx_of_num n) elems_len) (fun i =>
    match nth_error elements i with
    | Some v => Ok (Scalar v)
    | None => Error index_panic
    end)
  | ARange rb re =>
    bind (bounded_range kind rb re elems_len) (fun be =>
    match vec_slice elements (fst be) (snd be) with
    | Some l => Ok (Slice l)
    | None => Error slice_panic
    end)
  | _ => Error (TypeError "Expected an integer or range.")
  end.

(* ---------- object.rs ObjStringIter::next ---------- *)
(* while pos < len && !is_char_boundary(pos) { pos += 1 } *)
Fixpoint scan_pos (s : list byte) (fuel : nat) (p : nat) : nat :=
  match fuel with
  | O => p
  | S f => if (p <? length s) && negb (is_char_boundary s p) then scan_pos s f (S p) else p
  end.

(* returns (result, new pos) *)
Definition iter_next (s : list byte) (pos : nat) : option (nat * nat) * nat :=
  if Nat.eqb pos (length s) then (None, pos)
  else
    let p := scan_pos s (length s) (pos + 1) in
    (Some (pos, p), p).

(* ---------- core.rs string_iter_next ---------- *)
Definition string_iter_next (s : list byte) (pos : nat) (args : list arg) : res * nat :=
  match check_num_args (length args) 0 with
  | Error e => (Error e, pos)
  | Ok _ =>
    match iter_next s pos with
    | (Some (b, e), p) =>
      (match str_slice s b e with Some t => Ok (RStr t) | None => Error slice_panic end, p)
    | (None, p) => (Ok RStopIter, p)
    end
  end.

(* the first n results of calling next() repeatedly, starting at [pos] *)
Fixpoint iter_collect (s : list byte) (pos : nat) (n : nat) : list res :=
  match n with
  | O => []
  | S k => let '(r, p) := string_iter_next s pos [] in r :: iter_collect s p k
  end.

(* ---------- core.rs natives on a String receiver [s] ---------- *)
(* [args] in call order: for find(sub, start)  args = [sub; start], so peek(0) is the last one *)

Definition string_len (s : list byte) (args : list arg) : res :=
  bind (check_num_args (length args) 0) (fun _ => Ok (RNum (Z.of_nat (length s)))).

Definition string_classify (p : N -> bool) (s : list byte) (args : list arg) : res :=
  bind (check_num_args (length args) 0) (fun _ =>
  Ok (RBool ((0 <? length s) && forallb p (code_points s)))).

Definition string_is_alpha := string_classify cp_is_alpha.
Definition string_is_digit := string_classify cp_is_digit.
Definition string_is_hexdigit := string_classify cp_is_hexdigit.

Definition string_count_chars (s : list byte) (args : list arg) : res :=
  bind (check_num_args (length args) 0) (fun _ => Ok (RNum (Z.of_nat (count_chars_bytes s)))).

(* for i in 0..len+1 { if boundary(i) { if char_count == char_index { return i } char_count += 1 } } *)
Fixpoint cbi_loop (s : list byte) (is : list nat) (char_count char_index : nat) : option nat :=
  match is with
  | [] => None
  | i :: r =>
    if is_char_boundary s i then
      if Nat.eqb char_count char_index then Some i
      else cbi_loop s r (S char_count) char_index
    else cbi_loop s r char_count char_index
  end.

Definition string_char_byte_index (s : list byte) (args : list arg) : res :=
  bind (check_num_args (length args) 1) (fun _ =>
  match args with
  | [a] =>
    bind (bounded_index "String" (shown a) (idx_of_arg a) (Z.of_nat (count_chars_bytes s)))
      (fun char_index =>
    match cbi_loop s (seq 0 (length s + 1)) 0 char_index with
    | Some i => Ok (RNum (Z.of_nat i))
    | None => Error (IndexError "Provided character index out of range.")
    end)
  | _ => Error index_panic  (* unreachable: length checked *)
  end).

Definition expect_string (a : arg) : result (list byte) err :=
  match av a with
  | AStr t => Ok t
  | _ => Error (TypeError ("Expected a string but found '" ++ shown a ++ "'."))
  end.

(* for i in start..len { if !b(i) || !b(i+n) { continue } slice = &s[i..i+n]; if i >= start && slice == sub { return i } } *)
Fixpoint find_loop (s sub : list byte) (start : nat) (is : list nat) : res :=
  match is with
  | [] => Ok RNone
  | i :: r =>
    if negb (is_char_boundary s i) || negb (is_char_boundary s (i + length sub))
    then find_loop s sub start r
    else
      match str_slice s i (i + length sub) with
      | None => Error slice_panic
      | Some slice =>
        if (start <=? i) && bytes_eqb slice sub then Ok (RNum (Z.of_nat i))
        else find_loop s sub start r
      end
  end.

Definition string_find (s : list byte) (args : list arg) : res :=
  bind (check_num_args (length args) 2) (fun _ =>
  match args with
  | [asub; astart] =>
    bind (expect_string asub) (fun sub =>
    match sub with
    | [] => Error (ValueError "Cannot find empty string.")
    | _ :: _ =>
      let string_len := Z.of_nat (length s) in
      bind (validate_integer (shown astart) (idx_of_arg astart)) (fun i =>
      let start := if (i <? 0)%Z then isize_add i string_len else i in
      if ((start <? 0) || (start >=? string_len))%Z
      then Error (IndexError "String index out of bounds.")
      else
        let start := Z.to_nat start in
        bind (validate_char_boundary s start "string index") (fun _ =>
        find_loop s sub start (seq start (length s - start))))
    end)
  | _ => Error index_panic
  end).

Definition string_replace (s : list byte) (args : list arg) : res :=
  bind (check_num_args (length args) 2) (fun _ =>
  match args with
  | [aold; anew] =>
    bind (expect_string aold) (fun old =>
    match old with
    | [] => Error (ValueError "Cannot replace empty string.")
    | _ :: _ =>
      bind (expect_string anew) (fun new =>
      Ok (RStr (replace_bytes old new s)))
    end)
  | _ => Error index_panic
  end).

Definition string_split (s : list byte) (args : list arg) : res :=
  bind (check_num_args (length args) 1) (fun _ =>
  match args with
  | [adelim] =>
    bind (expect_string adelim) (fun delim =>
    match delim with
    | [] => Error (ValueError "Cannot split using an empty string.")
    | _ :: _ => Ok (RVecStr (split_bytes delim s))
    end)
  | _ => Error index_panic
  end).

Definition string_starts_with (s : list byte) (args : list arg) : res :=
  bind (check_num_args (length args) 1) (fun _ =>
  match args with
  | [a] => bind (expect_string a) (fun p => Ok (RBool (is_prefix p s)))
  | _ => Error index_panic
  end).

Definition string_ends_with (s : list byte) (args : list arg) : res :=
  bind (check_num_args (length args) 1) (fun _ =>
  match args with
  | [a] => bind (expect_string a) (fun p => Ok (RBool (is_suffix p s)))
  | _ => Error index_panic
  end).

Definition string_to_bytes (s : list byte) (args : list arg) : res :=
  bind (check_num_args (length args) 0) (fun _ =>
  Ok (RVecNum (map (fun b => Z.of_N (bN b)) s))).

Definition string_to_code_points (s : list byte) (args : list arg) : res :=
  bind (check_num_args (length args) 0) (fun _ =>
  Ok (RVecNum (map Z.of_N (code_points s)))).

(* ---------- static constructors String.from_ascii / from_utf8 / from_code_points ---------- *)
Definition expect_vec (a : arg) : result (list elem) err :=
  match av a with
  | AVec l => Ok l
  | _ => Error (TypeError ("Expected a Vec instance but found '" ++ shown a ++ "'."))
  end.

Definition not_a_number (sh : string) : err :=
  TypeError ("Expected a number but found '" ++ sh ++ "'.").
Definition not_a_byte (sh : string) : err :=
  ValueError ("Expected a positive integer less than 256 but found '" ++ sh ++ "'.").

(* !(num < 0.0 || num > hi || num.trunc() != num)  gives the integer value *)
Definition int_in_range (n : num) (hi : Z) : option N :=
  match n with
  | NumInt z => if ((0 <=? z) && (z <=? hi))%Z then Some (Z.to_N z) else None
  | _ => None
  end.

Fixpoint from_ascii_loop (els : list elem) (bytes : list byte) : result (list byte) err :=
  match els with
  | [] => Ok bytes
  | EOther sh :: _ => Error (not_a_number sh)
  | ENum n sh :: r =>
    match int_in_range n 255 with
    | None => Error (not_a_byte sh)
    | Some z =>
      if (127 <? z)%N
      then from_ascii_loop r (bytes ++ [Nb 195; Nb (N.land z 191)])%list
      else from_ascii_loop r (bytes ++ [Nb z])%list
    end
  end.

Definition string_from_ascii (args : list arg) : res :=
  bind (check_num_args (length args) 1) (fun _ =>
  match args with
  | [a] =>
    bind (expect_vec a) (fun els =>
    bind (from_ascii_loop els []) (fun bytes =>
    if valid_utf8 bytes then Ok (RStr bytes)
    else Error (ValueError "Unable to create a string from byte sequence.")))
  | _ => Error index_panic
  end).

Fixpoint collect_bytes (els : list elem) : result (list byte) err :=
  match els with
  | [] => Ok []
  | EOther sh :: _ => Error (not_a_number sh)
  | ENum n sh :: r =>
    match int_in_range n 255 with
    | None => Error (not_a_byte sh)
    | Some z => bind (collect_bytes r) (fun t => Ok (Nb z :: t))
    end
  end.

Definition string_from_utf8 (args : list arg) : res :=
  bind (check_num_args (length args) 1) (fun _ =>
  match args with
  | [a] =>
    bind (expect_vec a) (fun els =>
    bind (collect_bytes els) (fun bytes =>
    match valid_up_to bytes with
    | None => Ok (RStr bytes)
    | Some index =>
      match nth_error bytes index with
      | Some byte =>
        Error (ValueError ("Invalid Unicode encountered at byte " ++ show_N (bN byte)
                           ++ " with index " ++ show_nat index ++ "."))
      | None => Error index_panic
      end
    end))
  | _ => Error index_panic
  end).

Fixpoint collect_code_points (els : list elem) : result (list byte) err :=
  match els with
  | [] => Ok []
  | EOther sh :: _ => Error (not_a_number sh)
  | ENum n sh :: r =>
    match int_in_range n 4294967295 with
    | None =>
      Error (ValueError ("Expected a positive integer less than 4294967295 but found '" ++ sh ++ "'."))
    | Some c =>
      match encode_cp c with
      | None =>
        Error (ValueError ("Expected a valid Unicode code point but found '" ++ show_N c ++ "'."))
      | Some bs => bind (collect_code_points r) (fun t => Ok (bs ++ t)%list)
      end
    end
  end.

Definition string_from_code_points (args : list arg) : res :=
  bind (check_num_args (length args) 1) (fun _ =>
  match args with
  | [a] =>
    bind (expect_vec a) (fun els =>
    bind (collect_code_points els) (fun bytes => Ok (RStr bytes)))
  | _ => Error index_panic
  end).

(* ---------- helpers to feed results back as arguments (round trips, examples) ---------- *)
Definition num_arg (z : Z) : arg := mkArg (ANum (NumInt z)) (show_Z z).
Definition str_arg (s : list byte) : arg := mkArg (AStr s) (string_of_bytes s).
Definition range_arg (b e : Z) : arg := mkArg (ARange b e) ("Range(" ++ show_Z b ++ ", " ++ show_Z e ++ ")").
Definition vec_arg (l : list Z) : arg :=
  mkArg (AVec (map (fun z => ENum (NumInt z) (show_Z z)) l)) (show_list show_Z l).

(* ---------- printable-ASCII rendering for the correspondence check ---------- *)
(* messages may embed a Display rendering with non-ASCII bytes, hence hex *)
Definition show_err (e : err) : string :=
  match e with
  | TypeError m => "TypeError:" ++ hex_of_bytes (bytes_of_string m)
  | ValueError m => "ValueError:" ++ hex_of_bytes (bytes_of_string m)
  | IndexError m => "IndexError:" ++ hex_of_bytes (bytes_of_string m)
  | RustPanic m => "PANIC:" ++ hex_of_bytes (bytes_of_string m)
  end.

Definition show_res (r : res) : string :=
  match r with
  | Ok RNone => "nil"
  | Ok (RBool b) => "B" ++ show_bool b
  | Ok (RNum z) => "N" ++ show_Z z
  | Ok (RStr t) => "S" ++ hex_of_bytes t
  | Ok (RVecNum l) => "VN" ++ show_list show_Z l
  | Ok (RVecStr l) => "VS" ++ show_list hex_of_bytes l
  | Ok RStopIter => "stop"
  | Error e => show_err e
  end.

Definition show_index_result {A} (f : A -> string) (r : result (index_result A) err) : string :=
  match r with
  | Ok (Scalar x) => "E" ++ f x
  | Ok (Slice l) => "L" ++ show_list f l
  | Error e => show_err e
  end.
