(* C13 - tools to state that the (ErrorKind, message literal) pairs regenerated from the Rust sources
   (YVGen.StrMsgs) are the errors raised by the Mechanism model.  Definitions only. *)
From Coq Require Import String List Bool Ascii.
From YV Require Import Index.
Import ListNotations.
Local Open Scope string_scope.

(* Rust format!: successive "{}" placeholders replaced by the arguments *)
Fixpoint fill (f : string) (args : list string) : string :=
  match f with
  | String "{" (String "}" r) =>
    match args with
    | a :: t => a ++ fill r t
    | [] => "{}" ++ fill r []
    end
  | String c r => String c (fill r args)
  | EmptyString => EmptyString
  end.

Definition mk_err (kind msg : string) : err :=
  if String.eqb kind "TypeError" then TypeError msg
  else if String.eqb kind "ValueError" then ValueError msg
  else if String.eqb kind "IndexError" then IndexError msg
  else RustPanic ("unknown ErrorKind " ++ kind).

Definition err_eqb (a b : err) : bool :=
  match a, b with
  | TypeError x, TypeError y => String.eqb x y
  | ValueError x, ValueError y => String.eqb x y
  | IndexError x, IndexError y => String.eqb x y
  | _, _ => false
  end.

(* [e] is raised by one of the sites of the table, its placeholders filled with [args] *)
Definition from_site (tbl : list (string * string)) (args : list string) (e : err) : bool :=
  existsb (fun km => err_eqb e (mk_err (fst km) (fill (snd km) args))) tbl.

Definition raises {A} (r : result A err) (tbl : list (string * string)) (args : list string) : bool :=
  match r with Error e => from_site tbl args e | Ok _ => false end.

(* ... where one placeholder is filled with some string literal [d] of the calling function *)
Definition raises_with {A} (r : result A err) (tbl : list (string * string)) (lits : list string) : bool :=
  existsb (fun d => raises r tbl [d]) lits.

Definition same_names (a b : list string) : bool :=
  Nat.eqb (List.length a) (List.length b) && forallb (fun x => existsb (String.eqb x) b) a
  && forallb (fun x => existsb (String.eqb x) a) b.
