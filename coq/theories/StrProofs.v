(* Proofs relating the Mechanism model (StrFns.v) to the Spec (StrSpec.v). *)
From Coq Require Import String.
From Coq Require Import List NArith ZArith Bool Arith Lia.
From Coq Require Import Strings.Byte.
From YV Require Import Show Utf8 Index StrFns StrSpec Utf8Proofs IndexProofs.
Import ListNotations.
Local Open Scope list_scope.
Local Open Scope nat_scope.

Arguments N.add : simpl never.
Arguments N.sub : simpl never.
Arguments N.mul : simpl never.
Arguments N.ltb : simpl never.
Arguments N.leb : simpl never.
Arguments Z.add : simpl never.
Arguments Z.sub : simpl never.
Arguments Z.mul : simpl never.
Arguments Z.of_nat : simpl never.

(* Rust guarantee: a String / Vec never holds more than isize::MAX bytes / elements *)
Definition len_ok {A} (l : list A) : Prop := (Z.of_nat (length l) <= isize_max)%Z.

Lemma len_ok_bound : forall {A} (l : list A), len_ok l -> (0 <= Z.of_nat (length l) <= isize_max)%Z.
Proof. intros A l H. unfold len_ok in H. lia. Qed.

Definition lift_str (r : result (list byte) err) : res :=
  match r with Ok t => Ok (RStr t) | Error e => Error e end.

Definition is_panic {A} (r : result A err) : bool :=
  match r with Error (RustPanic _) => true | _ => false end.

(* ------------------------------------------------------------------ *)
(* generic facts                                                        *)
(* ------------------------------------------------------------------ *)
Lemma chars_shaped : forall s, Forall shaped (chars s).
Proof. intros s. eapply Forall_impl; [|apply chars_is_char]. apply is_char_shaped. Qed.

Lemma shaped_nonempty : forall c, shaped c -> 1 <= length c.
Proof. intros c [l [t [-> _]]]. cbn. lia. Qed.

(* index shift across any prefix *)
Lemma boundary_shift' : forall p s i, head_ok s = true ->
  is_char_boundary (p ++ s) (length p + i) = is_char_boundary s i.
Proof.
  intros p s i Hs. destruct p as [|x p]; [reflexivity|].
  apply boundary_shift; [discriminate|exact Hs].
Qed.

Lemma is_boundary_spec_eq : forall s i, valid_utf8 s = true ->
  is_boundary_spec s i = is_char_boundary s i.
Proof.
  intros s i H. unfold is_boundary_spec.
  destruct (is_char_boundary s i) eqn:E.
  - apply existsb_exists. exists i. split; [apply boundary_iff; assumption|apply Nat.eqb_refl].
  - destruct (existsb (Nat.eqb i) (boundaries s)) eqn:E2; [|reflexivity].
    apply existsb_exists in E2. destruct E2 as [x [Hin Hx]]. apply Nat.eqb_eq in Hx. subst x.
    apply boundary_iff in Hin; [congruence|exact H].
Qed.

(* a valid string decomposed around its k-th character *)
Lemma valid_decompose : forall s i, valid_utf8 s = true -> is_char_boundary s i = true ->
  i < length s ->
  exists c rest, is_char c /\ skipn i s = c ++ rest /\ valid_utf8 rest = true
                 /\ chars (skipn i s) = c :: chars rest.
Proof.
  intros s i H Hb Hlt. destruct (boundary_split s i H Hb) as [_ [_ [Hv _]]].
  pose proof (chars_concat _ Hv) as Hc. pose proof (chars_is_char (skipn i s)) as F.
  destruct (chars (skipn i s)) as [|c cs] eqn:E.
  - cbn in Hc. assert (length (skipn i s) = 0) by (rewrite <- Hc; reflexivity).
    rewrite skipn_length in *. lia.
  - inversion F as [|? ? Fc Fcs]; subst. exists c, (concat cs).
    apply chars_of_concat in Fcs. destruct Fcs as [V C].
    repeat split; try assumption; [symmetry; exact Hc|rewrite C; reflexivity].
Qed.

(* positions strictly inside the character that starts at boundary i are not boundaries;
   the position right after it is one *)
Lemma boundary_in_char : forall s i c rest j, i <= length s ->
  skipn i s = c ++ rest -> shaped c -> 0 < j < length c ->
  is_char_boundary s (i + j) = false.
Proof.
  intros s i c rest j Hi Hs Hc Hj.
  rewrite <- (firstn_skipn i s) at 1. rewrite Hs.
  assert (Hl : length (firstn i s) = i) by (rewrite firstn_length; lia).
  rewrite <- Hl at 2. rewrite boundary_shift' by (apply shaped_head_ok; exact Hc).
  apply boundary_inside; assumption.
Qed.

Lemma boundary_after_char : forall s i c rest, i <= length s ->
  skipn i s = c ++ rest -> head_ok rest = true ->
  is_char_boundary s (i + length c) = true.
Proof.
  intros s i c rest Hi Hs Hr.
  rewrite <- (firstn_skipn i s) at 1. rewrite Hs.
  assert (Hl : length (firstn i s) = i) by (rewrite firstn_length; lia).
  rewrite app_assoc. replace (i + length c) with (length (firstn i s ++ c) + 0)
    by (rewrite app_length; lia).
  rewrite boundary_shift' by exact Hr. reflexivity.
Qed.

Lemma skipn_app_length : forall (s : list byte) i c rest, skipn i s = c ++ rest -> i <= length s ->
  i + length c <= length s /\ firstn (length c) (skipn i s) = c.
Proof.
  intros s i c rest Hs Hi. split.
  - assert (length (skipn i s) = length c + length rest) by (rewrite Hs; apply app_length).
    rewrite skipn_length in *. lia.
  - rewrite Hs. rewrite firstn_app, Nat.sub_diag, firstn_all. cbn. apply app_nil_r.
Qed.

(* ------------------------------------------------------------------ *)
(* the two scanning loops                                               *)
(* ------------------------------------------------------------------ *)
Lemma scan_end_stop : forall s f e e',
  e <= e' -> e' - e <= f ->
  (forall j, e <= j < e' -> j <= length s /\ is_char_boundary s j = false) ->
  ((e' <=? length s) && negb (is_char_boundary s e')) = false ->
  scan_end s f e = e'.
Proof.
  induction f as [|f IH]; intros e e' Hle Hf Hrun Hstop.
  - assert (e = e') by lia. subst. reflexivity.
  - cbn [scan_end]. destruct (Nat.eq_dec e e') as [->|Hne].
    + rewrite Hstop. reflexivity.
    + destruct (Hrun e ltac:(lia)) as [H1 H2]. rewrite H2.
      replace (e <=? length s) with true by (symmetry; apply Nat.leb_le; exact H1).
      cbn [andb negb]. apply IH; try lia; [|exact Hstop].
      intros j Hj. apply Hrun. lia.
Qed.

Lemma scan_pos_stop : forall s f e e',
  e <= e' -> e' - e <= f ->
  (forall j, e <= j < e' -> j < length s /\ is_char_boundary s j = false) ->
  ((e' <? length s) && negb (is_char_boundary s e')) = false ->
  scan_pos s f e = e'.
Proof.
  induction f as [|f IH]; intros e e' Hle Hf Hrun Hstop.
  - assert (e = e') by lia. subst. reflexivity.
  - cbn [scan_pos]. destruct (Nat.eq_dec e e') as [->|Hne].
    + rewrite Hstop. reflexivity.
    + destruct (Hrun e ltac:(lia)) as [H1 H2]. rewrite H2.
      replace (e <? length s) with true by (symmetry; apply Nat.ltb_lt; exact H1).
      cbn [andb negb]. apply IH; try lia; [|exact Hstop].
      intros j Hj. apply Hrun. lia.
Qed.

(* both loops, started right after boundary i, stop right after the character at i *)
Lemma scan_char : forall s i c rest, i < length s ->
  skipn i s = c ++ rest -> shaped c -> head_ok rest = true ->
  scan_end s (length s) (i + 1) = i + length c /\
  scan_pos s (length s) (i + 1) = i + length c /\
  str_slice s i (i + length c) = Some c.
Proof.
  intros s i c rest Hi Hs Hc Hr.
  pose proof (shaped_nonempty c Hc) as Hlc.
  destruct (skipn_app_length s i c rest Hs ltac:(lia)) as [Hle Hfst].
  pose proof (boundary_after_char s i c rest ltac:(lia) Hs Hr) as Hafter.
  assert (Hrun : forall j, i + 1 <= j < i + length c -> is_char_boundary s j = false).
  { intros j Hj. replace j with (i + (j - i)) by lia.
    eapply boundary_in_char; try eassumption; lia. }
  split; [|split].
  - apply scan_end_stop; try lia.
    + intros j Hj. split; [lia|apply Hrun; exact Hj].
    + rewrite Hafter. apply andb_false_r.
  - apply scan_pos_stop; try lia.
    + intros j Hj. split; [lia|apply Hrun; exact Hj].
    + rewrite Hafter. apply andb_false_r.
  - unfold str_slice. rewrite Hafter.
    assert (Hbi : is_char_boundary s i = true).
    { destruct i as [|i']; [reflexivity|].
      unfold is_char_boundary.
      assert (Hn : nth_error s (S i') = nth_error (skipn (S i') s) 0).
      { rewrite <- (firstn_skipn (S i') s) at 1. rewrite nth_error_app2; rewrite firstn_length; [|lia].
        f_equal. lia. }
      rewrite Hn, Hs. destruct Hc as [l [t [-> [Hl _]]]]. cbn. rewrite Hl. reflexivity. }
    rewrite Hbi.
    replace (i <=? i + length c) with true by (symmetry; apply Nat.leb_le; lia).
    replace (i + length c <=? length s) with true by (symmetry; apply Nat.leb_le; lia).
    cbn [andb]. replace (i + length c - i) with (length c) by lia. rewrite Hfst. reflexivity.
Qed.

(* ------------------------------------------------------------------ *)
(* char_at                                                              *)
(* ------------------------------------------------------------------ *)
Lemma char_at_in_offsets : forall cs off c, char_at cs off = Some c ->
  exists pre post, cs = pre ++ c :: post /\ off = length (concat pre).
Proof.
  induction cs as [|c0 cs IH]; intros off c H; [discriminate|].
  cbn [char_at] in H. destruct (Nat.eqb_spec off 0) as [->|Hne].
  - inversion H; subst. exists [], cs. split; reflexivity.
  - destruct (off <? length c0) eqn:E; [discriminate|]. apply Nat.ltb_ge in E.
    apply IH in H. destruct H as [pre [post [Hcs Hoff]]].
    exists (c0 :: pre), post. split; [rewrite Hcs; reflexivity|].
    cbn [concat]. rewrite app_length. lia.
Qed.

Lemma char_at_prefix : forall pre c post, Forall shaped pre ->
  char_at (pre ++ c :: post) (length (concat pre)) = Some c.
Proof.
  induction pre as [|c0 pre IH]; intros c post F.
  - reflexivity.
  - inversion F as [|? ? Hc0 F']; subst. pose proof (shaped_nonempty c0 Hc0) as Hl.
    cbn [app concat char_at]. rewrite app_length.
    destruct (Nat.eqb_spec (length c0 + length (concat pre)) 0) as [E|_]; [lia|].
    replace (length c0 + length (concat pre) <? length c0) with false
      by (symmetry; apply Nat.ltb_ge; lia).
    replace (length c0 + length (concat pre) - length c0) with (length (concat pre)) by lia.
    apply IH; exact F'.
Qed.

(* for a valid string: char_at (chars s) off is the first character of skipn off s exactly when off
   is a boundary below the length *)
Lemma char_at_boundary : forall s off, valid_utf8 s = true -> off < length s ->
  match char_at (chars s) off with
  | Some c => is_char_boundary s off = true /\ exists rest, skipn off s = c ++ rest /\
              is_char c /\ valid_utf8 rest = true
  | None => is_char_boundary s off = false
  end.
Proof.
  intros s off H Hlt.
  destruct (char_at (chars s) off) as [c|] eqn:E.
  - apply char_at_in_offsets in E. destruct E as [pre [post [Hcs Hoff]]].
    pose proof (chars_concat s H) as Hc. pose proof (chars_is_char s) as F.
    rewrite Hcs in Hc, F. apply Forall_app in F. destruct F as [F1 F2].
    apply Forall_cons_iff in F2. destruct F2 as [Fc Fpost].
    rewrite concat_app in Hc. cbn [concat] in Hc.
    assert (Hb : is_char_boundary s off = true).
    { apply boundary_iff_offset; [exact H|]. exists (length pre). split.
      - rewrite Hcs, app_length. lia.
      - rewrite Hcs, firstn_app, Nat.sub_diag, firstn_all. cbn. rewrite app_nil_r. exact Hoff. }
    split; [exact Hb|]. exists (concat post). split; [|split; [exact Fc|apply chars_of_concat; exact Fpost]].
    rewrite <- Hc, Hoff. rewrite skipn_app, Nat.sub_diag, skipn_all. reflexivity.
  - destruct (is_char_boundary s off) eqn:Hb; [|reflexivity]. exfalso.
    apply boundary_iff_offset in Hb; [|exact H]. destruct Hb as [k [Hk Hoff]].
    pose proof (chars_concat s H) as Hc.
    assert (Hk' : k < length (chars s)).
    { destruct (Nat.eq_dec k (length (chars s))) as [->|]; [|lia].
      rewrite firstn_all, Hc in Hoff. lia. }
    pose proof (firstn_skipn k (chars s)) as Hfs.
    destruct (skipn k (chars s)) as [|c post] eqn:Esk.
    { assert (length (skipn k (chars s)) = 0) by (rewrite Esk; reflexivity).
      rewrite skipn_length in *. lia. }
    rewrite <- Hfs, Hoff in E. rewrite char_at_prefix in E; [discriminate|].
    pose proof (chars_shaped s) as Fs. rewrite <- Hfs in Fs. apply Forall_app in Fs. apply Fs.
Qed.

(* ------------------------------------------------------------------ *)
(* Theorem 5: s[i] and s[b..e]                                          *)
(* ------------------------------------------------------------------ *)
Theorem get_item_index_spec : forall s n sh, valid_utf8 s = true -> len_ok s ->
  string_get_item s (mkArg (ANum n) sh) = lift_str (spec_string_index s sh (idx_of_num n)).
Proof.
  intros s n sh H Hlen. unfold string_get_item. cbn [av shown].
  rewrite bounded_index_exact by (apply len_ok_bound; exact Hlen) || apply idx_of_num_wf.
  unfold spec_string_index.
  destruct (idx_of_num n) as [| |z]; try reflexivity.
  destruct (spec_index z (Z.of_nat (length s))) as [off|] eqn:Ei; [|reflexivity].
  cbn [bind]. apply spec_index_iff in Ei. destruct Ei as [Hr Hoff].
  assert (Hlt : off < length s).
  { subst off. pose proof (Z.mod_pos_bound z (Z.of_nat (length s)) ltac:(lia)). lia. }
  pose proof (char_at_boundary s off H Hlt) as Hca. unfold validate_char_boundary.
  destruct (char_at (chars s) off) as [c|].
  - destruct Hca as [Hb [rest [Hs [Fc Vr]]]]. rewrite Hb. cbn [bind fst snd].
    destruct (scan_char s off c rest Hlt Hs (is_char_shaped c Fc) (valid_head_ok rest Vr))
      as [He [_ Hsl]].
    rewrite He, Hsl. reflexivity.
  - rewrite Hca. reflexivity.
Qed.
Print Assumptions get_item_index_spec.

Lemma sub_bytes_valid : forall s b e, valid_utf8 s = true ->
  is_char_boundary s b = true -> is_char_boundary s e = true -> b <= e ->
  valid_utf8 (sub_bytes s b e) = true.
Proof.
  intros s b e H Hb He Hle. unfold sub_bytes.
  destruct (boundary_split s b H Hb) as [Hbl [_ [Hv _]]].
  assert (He' : is_char_boundary (skipn b s) (e - b) = true).
  { rewrite <- He. rewrite <- (firstn_skipn b s) at 2.
    replace e with (length (firstn b s) + (e - b)) at 2 by (rewrite firstn_length; lia).
    symmetry. apply boundary_shift'. apply valid_head_ok; exact Hv. }
  apply (boundary_split _ _ Hv He').
Qed.

Theorem get_item_range_spec : forall s rb re sh, valid_utf8 s = true -> len_ok s ->
  in_isize rb = true -> in_isize re = true ->
  string_get_item s (mkArg (ARange rb re) sh) = lift_str (spec_string_range s rb re).
Proof.
  intros s rb re sh H Hlen Hrb Hre. unfold string_get_item. cbn [av shown].
  pose proof (len_ok_bound s Hlen) as Hb.
  destruct (bounded_range "String" rb re (Z.of_nat (length s))) as [[b e]|er] eqn:E.
  - pose proof (bounded_range_bounds _ _ _ _ _ _ Hb Hrb Hre E) as [Hle [Hel Hbl]].
    rewrite bounded_range_exact in E by assumption. cbv zeta in E. unfold spec_string_range.
    destruct (negb _) in E |- *; [discriminate|].
    destruct (negb _) in E |- *; [discriminate|].
    inversion E as [[E1 E2]]. rewrite E1, E2. cbn [bind fst snd].
    rewrite !is_boundary_spec_eq by exact H. unfold validate_char_boundary.
    destruct (is_char_boundary s b) eqn:Bb; cbn [negb bind]; [|reflexivity].
    destruct (is_char_boundary s e) eqn:Be; cbn [negb bind]; [|reflexivity].
    unfold str_slice. cbn [fst snd]. rewrite Bb, Be.
    replace (b <=? e) with true by (symmetry; apply Nat.leb_le; lia).
    replace (e <=? length s) with true by (symmetry; apply Nat.leb_le; lia).
    reflexivity.
  - rewrite bounded_range_exact in E by assumption. cbv zeta in E. unfold spec_string_range.
    cbn [bind].
    destruct (negb _) in E |- *; [inversion E; reflexivity|].
    destruct (negb _) in E |- *; [inversion E; reflexivity|discriminate].
Qed.
Print Assumptions get_item_range_spec.

(* well-formed argument: the ends of an ObjRange are isize values *)
Definition arg_wf (a : arg) : bool :=
  match av a with ARange b e => in_isize b && in_isize e | _ => true end.

Lemma spec_string_index_ok : forall s sh i c, spec_string_index s sh i = Ok c ->
  In c (chars s).
Proof.
  intros s sh i c H. unfold spec_string_index in H.
  destruct i as [| |z]; try discriminate.
  destruct (spec_index z (Z.of_nat (length s))) as [off|]; [|discriminate].
  destruct (char_at (chars s) off) as [c'|] eqn:E; [|discriminate].
  inversion H; subst. apply char_at_in_offsets in E. destruct E as [pre [post [Hcs _]]].
  rewrite Hcs. apply in_or_app. right. left. reflexivity.
Qed.

Lemma spec_string_range_ok : forall s rb re t, valid_utf8 s = true ->
  spec_string_range s rb re = Ok t -> valid_utf8 t = true.
Proof.
  intros s rb re t H Hs. unfold spec_string_range in Hs. cbv zeta in Hs.
  destruct (negb _) eqn:E1 in Hs; [discriminate|].
  destruct (negb _) eqn:E2 in Hs; [discriminate|].
  rewrite !is_boundary_spec_eq in Hs by exact H.
  destruct (is_char_boundary s _) eqn:B1 in Hs; cbn [negb] in Hs; [|discriminate].
  destruct (is_char_boundary s _) eqn:B2 in Hs; cbn [negb] in Hs; [|discriminate].
  inversion Hs; subst. apply sub_bytes_valid; try assumption. lia.
Qed.

Lemma string_get_item_cases : forall s a, valid_utf8 s = true -> len_ok s -> arg_wf a = true ->
  string_get_item s a =
  match av a with
  | ANum n => lift_str (spec_string_index s (shown a) (idx_of_num n))
  | ARange rb re => lift_str (spec_string_range s rb re)
  | _ => Error (TypeError "Expected an integer or range.")
  end.
Proof.
  intros s [v sh] H Hl Hwf. unfold arg_wf in Hwf. cbn [av shown] in *.
  destruct v; try reflexivity.
  - apply get_item_index_spec; assumption.
  - apply andb_true_iff in Hwf. destruct Hwf. apply get_item_range_spec; assumption.
Qed.

(* Theorem 5: whatever the index (number or range; huge, negative, fractional, NaN, infinite, or not a
   number at all), on a valid string M returns the Spec's answer, and an Ok answer is valid UTF-8 *)
Theorem slice_valid_utf8 : forall s a t, valid_utf8 s = true -> len_ok s -> arg_wf a = true ->
  string_get_item s a = Ok (RStr t) ->
  valid_utf8 t = true /\
  match av a with
  | ANum n => spec_string_index s (shown a) (idx_of_num n) = Ok t
  | ARange rb re => spec_string_range s rb re = Ok t
  | _ => False
  end.
Proof.
  intros s a t H Hl Hwf Hg. rewrite string_get_item_cases in Hg by assumption.
  destruct (av a) as [n|?|rb re|?|]; try discriminate.
  - destruct (spec_string_index s (shown a) (idx_of_num n)) as [c|e] eqn:E; [|discriminate].
    inversion Hg; subst. split; [|reflexivity].
    apply spec_string_index_ok in E. pose proof (chars_is_char s) as F.
    rewrite Forall_forall in F. apply is_char_valid. apply F. exact E.
  - destruct (spec_string_range s rb re) as [c|e] eqn:E; [|discriminate].
    inversion Hg; subst. split; [|reflexivity]. eapply spec_string_range_ok; eassumption.
Qed.
Print Assumptions slice_valid_utf8.

Theorem get_item_is_char : forall s n sh t, valid_utf8 s = true -> len_ok s ->
  string_get_item s (mkArg (ANum n) sh) = Ok (RStr t) -> In t (chars s).
Proof.
  intros s n sh t H Hl Hg. rewrite get_item_index_spec in Hg by assumption.
  destruct (spec_string_index s sh (idx_of_num n)) as [c|e] eqn:E; [|discriminate].
  inversion Hg; subst. eapply spec_string_index_ok; exact E.
Qed.
Print Assumptions get_item_is_char.

Lemma spec_string_index_no_panic : forall s sh i, is_panic (spec_string_index s sh i) = false.
Proof.
  intros s sh i. unfold spec_string_index. destruct i as [| |z]; try reflexivity.
  destruct (spec_index _ _); [|reflexivity]. destruct (char_at _ _); reflexivity.
Qed.

Lemma spec_string_range_no_panic : forall s rb re, is_panic (spec_string_range s rb re) = false.
Proof.
  intros s rb re. unfold spec_string_range. cbv zeta.
  repeat (match goal with |- context [if ?c then _ else _] => destruct c end; try reflexivity).
Qed.

Lemma is_panic_lift : forall r, is_panic (lift_str r) = is_panic r.
Proof. intros [t|e]; reflexivity. Qed.

Theorem get_item_no_panic : forall s a, valid_utf8 s = true -> len_ok s -> arg_wf a = true ->
  is_panic (string_get_item s a) = false.
Proof.
  intros s a H Hl Hwf. rewrite string_get_item_cases by assumption.
  destruct (av a); try reflexivity; rewrite is_panic_lift.
  - apply spec_string_index_no_panic.
  - apply spec_string_range_no_panic.
Qed.

Definition mixed : list byte := map Nb [97;195;169;226;130;172;240;159;152;128;98]%N.  (* "a é € 😀 b" *)

Example get_item_ex :
  valid_utf8 mixed = true
  /\ string_get_item mixed (num_arg 1) = Ok (RStr (map Nb [195;169]%N))
  /\ string_get_item mixed (num_arg (-5)) = Ok (RStr (map Nb [240;159;152;128]%N))
  /\ string_get_item mixed (num_arg 2)
     = Error (IndexError "Provided string index is not on a character boundary.")
  /\ string_get_item mixed (num_arg 11) = Error (IndexError "String index out of bounds.")
  /\ string_get_item mixed (mkArg (ANum (NumInf true)) "-inf") = Error (IndexError "String index out of bounds.")
  /\ string_get_item mixed (mkArg (ANum NumNonIntegral) "NaN")
     = Error (ValueError "Expected an integer value but found 'NaN'.")
  /\ string_get_item mixed (mkArg AOther "nil") = Error (TypeError "Expected an integer or range.")
  /\ string_get_item mixed (range_arg 1 6) = Ok (RStr (map Nb [195;169;226;130;172]%N))
  /\ string_get_item mixed (range_arg (-5) (-1)) = Ok (RStr (map Nb [240;159;152;128]%N))
  /\ string_get_item mixed (range_arg 6 1) = Ok (RStr [])
  /\ string_get_item mixed (range_arg 1 5)
     = Error (IndexError "Provided string slice end is not on a character boundary.")
  /\ string_get_item mixed (range_arg 11 11) = Error (IndexError "String slice start out of range.").
Proof. vm_compute. repeat split. Qed.

(* ------------------------------------------------------------------ *)
(* Vec / Tuple indexing and slicing                                     *)
(* ------------------------------------------------------------------ *)
Definition lift_scalar {A} (r : result A err) : result (index_result A) err :=
  match r with Ok x => Ok (Scalar x) | Error e => Error e end.
Definition lift_slice {A} (r : result (list A) err) : result (index_result A) err :=
  match r with Ok x => Ok (Slice x) | Error e => Error e end.

Theorem slice_get_item_spec : forall {A} (v : list A) kind a, len_ok v -> arg_wf a = true ->
  slice_get_item v kind a =
  match av a with
  | ANum n => lift_scalar (spec_seq_index v kind (shown a) (idx_of_num n))
  | ARange rb re => lift_slice (spec_seq_range v kind rb re)
  | _ => Error (TypeError "Expected an integer or range.")
  end.
Proof.
  intros A v kind [x sh] Hl Hwf. unfold arg_wf in Hwf. cbn [av shown] in *.
  pose proof (len_ok_bound v Hl) as Hb.
  unfold slice_get_item. cbn [av shown]. destruct x as [n|?|rb re|?|]; try reflexivity.
  - rewrite bounded_index_exact by (exact Hb || apply idx_of_num_wf).
    unfold spec_seq_index. destruct (idx_of_num n) as [| |z]; try reflexivity.
    destruct (spec_index z (Z.of_nat (length v))) as [k|] eqn:E; [|reflexivity].
    cbn [bind]. apply spec_index_iff in E. destruct E as [Hr Hk].
    assert (Hlt : k < length v).
    { subst k. pose proof (Z.mod_pos_bound z (Z.of_nat (length v)) ltac:(lia)). lia. }
    destruct (nth_error v k) eqn:En; [reflexivity|]. apply nth_error_None in En. lia.
  - apply andb_true_iff in Hwf. destruct Hwf as [Hrb Hre].
    destruct (bounded_range kind rb re (Z.of_nat (length v))) as [[b e]|er] eqn:E.
    + pose proof (bounded_range_bounds _ _ _ _ _ _ Hb Hrb Hre E) as [Hle [Hel Hbl]].
      rewrite bounded_range_exact in E by assumption. cbv zeta in E. unfold spec_seq_range.
      destruct (negb _) in E |- *; [discriminate|].
      destruct (negb _) in E |- *; [discriminate|].
      inversion E as [[E1 E2]]. rewrite E1, E2. cbn [bind fst snd lift_slice].
      unfold vec_slice.
      replace (b <=? e) with true by (symmetry; apply Nat.leb_le; lia).
      replace (e <=? length v) with true by (symmetry; apply Nat.leb_le; lia).
      reflexivity.
    + rewrite bounded_range_exact in E by assumption. cbv zeta in E. unfold spec_seq_range.
      cbn [bind].
      destruct (negb _) in E |- *; [inversion E; reflexivity|].
      destruct (negb _) in E |- *; [inversion E; reflexivity|discriminate].
Qed.
Print Assumptions slice_get_item_spec.

Theorem slice_get_item_no_panic : forall {A} (v : list A) kind a, len_ok v -> arg_wf a = true ->
  is_panic (slice_get_item v kind a) = false.
Proof.
  intros A v kind a Hl Hwf. rewrite slice_get_item_spec by assumption.
  destruct (av a) as [n|?|rb re|?|]; try reflexivity.
  - unfold spec_seq_index. destruct (idx_of_num n); try reflexivity.
    destruct (spec_index _ _); [|reflexivity]. destruct (nth_error _ _); reflexivity.
  - unfold spec_seq_range. cbv zeta.
    repeat (match goal with |- context [if ?c then _ else _] => destruct c end; try reflexivity).
Qed.

Example slice_get_item_ex :
  slice_get_item [10;20;30;40]%Z "Vec" (num_arg (-1)) = Ok (Scalar 40%Z)
  /\ slice_get_item [10;20;30;40]%Z "Vec" (num_arg 4) = Error (IndexError "Vec index out of bounds.")
  /\ slice_get_item [10;20;30;40]%Z "Tuple" (range_arg 1 (-1)) = Ok (Slice [20;30]%Z)
  /\ slice_get_item [10;20;30;40]%Z "Tuple" (range_arg 3 1) = Ok (Slice [])
  /\ slice_get_item [10;20;30;40]%Z "Tuple" (range_arg 4 4)
     = Error (IndexError "Tuple slice start out of range.")
  /\ slice_get_item [10;20;30;40]%Z "Vec" (range_arg 0 5) = Error (IndexError "Vec slice end out of range.")
  /\ slice_get_item [10;20;30;40]%Z "Vec" (mkArg (ANum NumNonIntegral) "1.5")
     = Error (ValueError "Expected an integer value but found '1.5'.").
Proof. vm_compute. repeat split. Qed.

(* ------------------------------------------------------------------ *)
(* Theorem 6: iteration                                                 *)
(* ------------------------------------------------------------------ *)
Lemma iter_next_char : forall s pos c rest, pos < length s ->
  skipn pos s = c ++ rest -> shaped c -> head_ok rest = true ->
  string_iter_next s pos [] = (Ok (RStr c), pos + length c).
Proof.
  intros s pos c rest Hlt Hs Hc Hr. unfold string_iter_next, iter_next. cbn [length check_num_args Nat.eqb].
  replace (pos =? length s) with false by (symmetry; apply Nat.eqb_neq; lia).
  destruct (scan_char s pos c rest Hlt Hs Hc Hr) as [_ [Hp Hsl]].
  rewrite Hp, Hsl. reflexivity.
Qed.

Lemma iter_next_end : forall s, string_iter_next s (length s) [] = (Ok RStopIter, length s).
Proof.
  intros s. unfold string_iter_next, iter_next. cbn [length check_num_args Nat.eqb].
  rewrite Nat.eqb_refl. reflexivity.
Qed.

Lemma iter_collect_end : forall s n, iter_collect s (length s) n = repeat (Ok RStopIter) n.
Proof.
  intros s n. induction n as [|n IH]; [reflexivity|].
  cbn [iter_collect repeat]. rewrite iter_next_end. rewrite IH. reflexivity.
Qed.

Lemma firstn_repeat : forall {A} (x : A) k n, k <= n -> firstn k (repeat x n) = repeat x k.
Proof.
  intros A x k. induction k as [|k IH]; intros n H; [reflexivity|].
  destruct n as [|n]; [lia|]. cbn. f_equal. apply IH. lia.
Qed.

Lemma iter_collect_from : forall post pre s n,
  Forall is_char post -> s = pre ++ concat post ->
  iter_collect s (length pre) n
  = firstn n (map (fun c => Ok (RStr c)) post ++ repeat (Ok RStopIter) n).
Proof.
  induction post as [|c post IH]; intros pre s n F Hs.
  - cbn [concat map app] in *. rewrite app_nil_r in Hs. subst s.
    rewrite iter_collect_end. rewrite firstn_all2 by (rewrite repeat_length; lia). reflexivity.
  - destruct n as [|n]; [reflexivity|].
    apply Forall_cons_iff in F. destruct F as [Fc Fp].
    cbn [concat] in Hs. cbn [iter_collect map app firstn].
    pose proof (is_char_shaped c Fc) as Sc. pose proof (shaped_nonempty c Sc) as Lc.
    assert (Hsk : skipn (length pre) s = c ++ concat post).
    { rewrite Hs. rewrite skipn_app, Nat.sub_diag, skipn_all. reflexivity. }
    assert (Hho : head_ok (concat post) = true).
    { apply concat_head_ok. eapply Forall_impl; [|exact Fp]. apply is_char_shaped. }
    rewrite (iter_next_char s (length pre) c (concat post)); try assumption.
    2:{ rewrite Hs, !app_length. lia. }
    f_equal. replace (length pre + length c) with (length (pre ++ c)) by apply app_length.
    rewrite (IH (pre ++ c) s n Fp) by (rewrite Hs, app_assoc; reflexivity).
    (* firstn n (xs ++ repeat x n) = firstn n (xs ++ repeat x (S n)) *)
    rewrite !firstn_app. f_equal.
    rewrite !firstn_repeat by lia. reflexivity.
Qed.

(* calling next() n times on a fresh iterator (pos = 0) over a valid string yields the characters of
   the string in order, each as its own string, and then StopIter for ever *)
Theorem iter_visits_chars : forall s n, valid_utf8 s = true ->
  iter_collect s 0 n
  = firstn n (map (fun c => Ok (RStr c)) (spec_iter s) ++ repeat (Ok RStopIter) n).
Proof.
  intros s n H. unfold spec_iter.
  apply (iter_collect_from (chars s) [] s n); [apply chars_is_char|].
  cbn [app]. symmetry. apply chars_concat. exact H.
Qed.
Print Assumptions iter_visits_chars.

Lemma In_firstn : forall {A} (x : A) n l, In x (firstn n l) -> In x l.
Proof.
  intros A x n. induction n as [|n IH]; intros l H; [destruct H|].
  destruct l as [|y l]; [destruct H|]. cbn in H. destruct H as [H|H]; [left; exact H|right; apply IH; exact H].
Qed.

Corollary iter_no_panic : forall s n, valid_utf8 s = true ->
  forallb (fun r => negb (is_panic r)) (iter_collect s 0 n) = true.
Proof.
  intros s n H. rewrite iter_visits_chars by exact H. apply forallb_forall.
  intros r Hin. apply In_firstn in Hin. apply in_app_or in Hin. destruct Hin as [Hin|Hin].
  - apply in_map_iff in Hin. destruct Hin as [c [<- _]]. reflexivity.
  - apply repeat_spec in Hin. subst r. reflexivity.
Qed.

Example iter_ex :
  iter_collect mixed 0 7
  = [Ok (RStr (map Nb [97]%N)); Ok (RStr (map Nb [195;169]%N)); Ok (RStr (map Nb [226;130;172]%N));
     Ok (RStr (map Nb [240;159;152;128]%N)); Ok (RStr (map Nb [98]%N)); Ok RStopIter; Ok RStopIter].
Proof. vm_compute. reflexivity. Qed.

(* ------------------------------------------------------------------ *)
(* Theorem 7a: count_chars                                              *)
(* ------------------------------------------------------------------ *)
Lemma count_chars_shaped : forall cs, Forall shaped cs ->
  count_chars_bytes (concat cs) = length cs.
Proof.
  unfold count_chars_bytes. induction cs as [|c cs IH]; intros F; [reflexivity|].
  apply Forall_cons_iff in F. destruct F as [[l [t [-> [Hl Ht]]]] F].
  cbn [concat app filter length]. rewrite Hl. cbn [negb length]. f_equal.
  rewrite filter_app, app_length, (IH F).
  replace (filter (fun b => negb (is_cont b)) t) with (@nil byte); [reflexivity|].
  symmetry. clear -Ht. induction t as [|b t IHt]; [reflexivity|].
  cbn in Ht. apply andb_true_iff in Ht. destruct Ht as [Hb Ht].
  cbn [filter]. rewrite Hb. cbn [negb]. apply IHt. exact Ht.
Qed.

Lemma count_chars_bytes_spec : forall s, valid_utf8 s = true ->
  count_chars_bytes s = spec_count_chars s.
Proof.
  intros s H. unfold spec_count_chars. rewrite <- (chars_concat s H) at 1.
  apply count_chars_shaped. apply chars_shaped.
Qed.

Theorem count_chars_spec : forall s args, valid_utf8 s = true ->
  string_count_chars s args =
  match args with
  | [] => Ok (RNum (Z.of_nat (spec_count_chars s)))
  | _ => Error (TypeError ("Expected 0 parameters but found " ++ show_nat (length args) ++ "."))
  end.
Proof.
  intros s args H. unfold string_count_chars. destruct args as [|a args].
  - cbn [length check_num_args Nat.eqb bind]. rewrite count_chars_bytes_spec by exact H. reflexivity.
  - reflexivity.
Qed.
Print Assumptions count_chars_spec.

(* ------------------------------------------------------------------ *)
(* Theorem 7b: char_byte_index                                          *)
(* ------------------------------------------------------------------ *)
Lemma cbi_loop_filter : forall s is cnt k, cnt <= k ->
  cbi_loop s is cnt k = nth_error (filter (is_char_boundary s) is) (k - cnt).
Proof.
  induction is as [|i is IH]; intros cnt k Hle.
  - cbn. destruct (k - cnt); reflexivity.
  - cbn [cbi_loop filter]. destruct (is_char_boundary s i).
    + destruct (Nat.eqb_spec cnt k) as [->|Hne].
      * rewrite Nat.sub_diag. reflexivity.
      * rewrite IH by lia. replace (k - cnt) with (S (k - S cnt)) by lia. reflexivity.
    + apply IH. exact Hle.
Qed.

Lemma seq_add_map : forall n a k, seq (k + a) n = map (Nat.add k) (seq a n).
Proof.
  induction n as [|n IH]; intros a k; [reflexivity|].
  cbn [seq map]. f_equal. rewrite <- IH. f_equal. lia.
Qed.

Lemma filter_boundaries : forall cs, Forall shaped cs ->
  filter (is_char_boundary (concat cs)) (seq 0 (length (concat cs) + 1)) = offsets_from 0 cs.
Proof.
  induction cs as [|c cs IH]; intros F; [reflexivity|].
  apply Forall_cons_iff in F. destruct F as [Hc F].
  pose proof (shaped_nonempty c Hc) as Lc.
  cbn [concat offsets_from]. rewrite app_length.
  replace (length c + length (concat cs) + 1) with (length c + (length (concat cs) + 1)) by lia.
  rewrite seq_app, filter_app. cbn [Nat.add].
  (* first part: only offset 0 *)
  assert (H1 : filter (is_char_boundary (c ++ concat cs)) (seq 0 (length c)) = [0]).
  { destruct (length c) as [|lc] eqn:El; [lia|]. cbn [seq filter is_char_boundary]. f_equal.
    rewrite <- seq_shift.
    assert (G : forall l, (forall j, In j l -> 0 < j < length c) ->
                filter (is_char_boundary (c ++ concat cs)) l = []).
    { induction l as [|j l IHl]; intros Hall; [reflexivity|]. cbn [filter].
      rewrite boundary_inside by (exact Hc || apply Hall; left; reflexivity).
      apply IHl. intros j' Hj'. apply Hall. right. exact Hj'. }
    apply G. intros j Hj. apply in_map_iff in Hj. destruct Hj as [x [<- Hx]].
    apply in_seq in Hx. lia. }
  rewrite H1. cbn [app]. f_equal.
  (* second part: shift *)
  rewrite offsets_from_shift, <- (IH F).
  replace (seq (length c) (length (concat cs) + 1))
    with (map (Nat.add (length c)) (seq 0 (length (concat cs) + 1))).
  2:{ rewrite <- seq_add_map. f_equal. lia. }
  generalize (seq 0 (length (concat cs) + 1)) as l.
  induction l as [|j l IHl]; [reflexivity|].
  cbn [map filter].
  rewrite boundary_shift by (destruct Hc as [? [? [-> _]]]; discriminate || (apply concat_head_ok; exact F)).
  destruct (is_char_boundary (concat cs) j); cbn [map]; rewrite IHl; reflexivity.
Qed.

Lemma nth_offsets : forall cs k, k <= length cs ->
  nth_error (offsets_from 0 cs) k = Some (length (concat (firstn k cs))).
Proof.
  induction cs as [|c cs IH]; intros k Hk.
  - cbn in Hk. assert (k = 0) by lia. subst. reflexivity.
  - destruct k as [|k]; [reflexivity|].
    cbn [offsets_from nth_error firstn concat]. rewrite offsets_from_shift.
    rewrite nth_error_map, IH by (cbn in Hk; lia). cbn [option_map Nat.add]. rewrite app_length.
    reflexivity.
Qed.

Lemma length_le_concat : forall cs, Forall shaped cs -> length cs <= length (concat cs).
Proof.
  induction cs as [|c cs IH]; intros F; [cbn; lia|].
  apply Forall_cons_iff in F. destruct F as [Hc F]. cbn [concat length]. rewrite app_length.
  pose proof (shaped_nonempty c Hc). specialize (IH F). lia.
Qed.

Theorem char_byte_index_spec : forall s a, valid_utf8 s = true -> len_ok s ->
  string_char_byte_index s [a] =
  match spec_char_byte_index s (shown a) (idx_of_arg a) with
  | Ok i => Ok (RNum (Z.of_nat i))
  | Error e => Error e
  end.
Proof.
  intros s a H Hl. unfold string_char_byte_index. cbn [length check_num_args Nat.eqb bind].
  rewrite count_chars_bytes_spec by exact H. unfold spec_count_chars.
  assert (Hcl : (0 <= Z.of_nat (length (chars s)) <= isize_max)%Z).
  { unfold len_ok in Hl. rewrite <- (chars_concat s H) in Hl.
    pose proof (length_le_concat (chars s) (chars_shaped s)). lia. }
  rewrite bounded_index_exact.
  2: exact Hcl.
  2:{ unfold idx_of_arg. destruct (av a); try reflexivity. apply idx_of_num_wf. }
  unfold spec_char_byte_index.
  destruct (idx_of_arg a) as [| |z]; try reflexivity.
  destruct (spec_index z (Z.of_nat (length (chars s)))) as [k|] eqn:E; [|reflexivity].
  cbn [bind]. apply spec_index_iff in E. destruct E as [Hr Hk].
  assert (Hlt : k < length (chars s)).
  { subst k. pose proof (Z.mod_pos_bound z (Z.of_nat (length (chars s))) ltac:(lia)). lia. }
  rewrite cbi_loop_filter by lia. rewrite Nat.sub_0_r.
  rewrite <- (chars_concat s H) at 1 2. rewrite filter_boundaries by apply chars_shaped.
  rewrite nth_offsets by lia. reflexivity.
Qed.
Print Assumptions char_byte_index_spec.

(* the final `Err(IndexError, "Provided character index out of range.")` of the Rust function is dead code *)
Corollary char_byte_index_dead_branch : forall s a, valid_utf8 s = true -> len_ok s ->
  string_char_byte_index s [a] <> Error (IndexError "Provided character index out of range.").
Proof.
  intros s a H Hl. rewrite char_byte_index_spec by assumption.
  unfold spec_char_byte_index. destruct (idx_of_arg a); cbn; try discriminate.
  destruct (spec_index _ _); discriminate.
Qed.

Example count_cbi_ex :
  string_len mixed [] = Ok (RNum 11)
  /\ string_count_chars mixed [] = Ok (RNum 5)
  /\ map (fun k => string_char_byte_index mixed [num_arg k]) [0; 1; 2; 3; 4; -1; -5]%Z
     = map (fun z => Ok (RNum z)) [0; 1; 3; 6; 10; 10; 0]%Z
  /\ string_char_byte_index mixed [num_arg 5] = Error (IndexError "String index out of bounds.")
  /\ string_char_byte_index [] [num_arg 0] = Error (IndexError "String index out of bounds.")
  /\ string_char_byte_index mixed [mkArg AOther "nil"]
     = Error (TypeError "Expected an integer value but found 'nil'.")
  /\ string_char_byte_index mixed [] = Error (TypeError "Expected 1 parameter but found 0.").
Proof. vm_compute. repeat split. Qed.

(* ------------------------------------------------------------------ *)
(* Theorem 7c: find                                                     *)
(* ------------------------------------------------------------------ *)
Lemma is_prefix_eqb : forall p s, is_prefix p s = bytes_eqb (firstn (length p) s) p.
Proof.
  induction p as [|x p IH]; intros s; [reflexivity|].
  destruct s as [|y s]; [reflexivity|]. cbn [is_prefix length firstn bytes_eqb].
  rewrite IH. f_equal.
  destruct (Byte.eqb x y) eqn:E1; destruct (Byte.eqb y x) eqn:E2; try reflexivity.
  - apply Byte.byte_dec_bl in E1. subst. rewrite (Byte.byte_dec_lb eq_refl) in E2. discriminate.
  - apply Byte.byte_dec_bl in E2. subst. rewrite (Byte.byte_dec_lb eq_refl) in E1. discriminate.
Qed.

Lemma is_prefix_iff : forall p s, is_prefix p s = true <-> exists r, s = p ++ r.
Proof.
  intros p s. rewrite is_prefix_eqb, bytes_eqb_eq. split.
  - intros H. exists (skipn (length p) s). rewrite <- H at 1. symmetry. apply firstn_skipn.
  - intros [r ->]. rewrite firstn_app, Nat.sub_diag, firstn_all. cbn. apply app_nil_r.
Qed.

Lemma occurs_at_iff : forall s sub i, occurs_at s sub i = true <->
  firstn (length sub) (skipn i s) = sub.
Proof. intros s sub i. unfold occurs_at. apply bytes_eqb_eq. Qed.

(* an occurrence of a non-empty valid string inside a valid string starts and ends on boundaries *)
Lemma occurs_boundaries : forall s sub i, valid_utf8 s = true -> valid_utf8 sub = true ->
  sub <> [] -> occurs_at s sub i = true ->
  i + length sub <= length s /\ is_char_boundary s i = true
  /\ is_char_boundary s (i + length sub) = true.
Proof.
  intros s sub i H Hsub Hne Hocc. apply occurs_at_iff in Hocc.
  assert (Hlen : i + length sub <= length s).
  { assert (L : length (firstn (length sub) (skipn i s)) = length sub) by (rewrite Hocc; reflexivity).
    rewrite firstn_length, skipn_length in L. destruct sub; [congruence|]. cbn [length] in *. lia. }
  assert (Hsk : skipn i s = sub ++ skipn (length sub) (skipn i s)).
  { rewrite <- Hocc at 1. symmetry. apply firstn_skipn. }
  assert (Hbi : is_char_boundary s i = true).
  { destruct i as [|i']; [reflexivity|]. unfold is_char_boundary.
    assert (Hn : nth_error s (S i') = nth_error (skipn (S i') s) 0).
    { rewrite <- (firstn_skipn (S i') s) at 1. rewrite nth_error_app2; rewrite firstn_length; [|lia].
      f_equal. lia. }
    rewrite Hn, Hsk. pose proof (valid_head_ok sub Hsub) as Hh.
    destruct sub as [|b sub']; [congruence|]. cbn in Hh |- *. exact Hh. }
  split; [exact Hlen|]. split; [exact Hbi|].
  destruct (boundary_split s i H Hbi) as [_ [_ [Hv _]]].
  rewrite Hsk in Hv. apply valid_app_inv in Hv; [|exact Hsub].
  eapply boundary_after_char; [lia|exact Hsk|apply valid_head_ok; exact Hv].
Qed.

Lemma find_loop_spec : forall s sub start is, valid_utf8 s = true -> valid_utf8 sub = true ->
  sub <> [] -> (forall i, In i is -> start <= i) ->
  find_loop s sub start is =
  match List.find (occurs_at s sub) is with
  | Some i => Ok (RNum (Z.of_nat i))
  | None => Ok RNone
  end.
Proof.
  intros s sub start is H Hsub Hne. induction is as [|i is IH]; intros Hall; [reflexivity|].
  cbn [find_loop List.find].
  assert (IH' := IH (fun j Hj => Hall j (or_intror Hj))). clear IH.
  destruct (occurs_at s sub i) eqn:Eo.
  - destruct (occurs_boundaries s sub i H Hsub Hne Eo) as [Hlen [B1 B2]].
    rewrite B1, B2. cbn [negb orb]. unfold str_slice. rewrite B1, B2.
    replace (i <=? i + length sub) with true by (symmetry; apply Nat.leb_le; lia).
    replace (i + length sub <=? length s) with true by (symmetry; apply Nat.leb_le; lia).
    cbn [andb]. replace (i + length sub - i) with (length sub) by lia.
    unfold occurs_at in Eo. rewrite Eo.
    replace (start <=? i) with true by (symmetry; apply Nat.leb_le; apply Hall; left; reflexivity).
    reflexivity.
  - destruct (is_char_boundary s i) eqn:B1; cbn [negb orb]; [|exact IH'].
    destruct (is_char_boundary s (i + length sub)) eqn:B2; cbn [negb]; [|exact IH'].
    unfold str_slice. rewrite B1, B2.
    assert (Hlen : i + length sub <= length s).
    { destruct (le_lt_dec (i + length sub) (length s)) as [L|L]; [exact L|].
      rewrite boundary_beyond in B2 by exact L. discriminate. }
    replace (i <=? i + length sub) with true by (symmetry; apply Nat.leb_le; lia).
    replace (i + length sub <=? length s) with true by (symmetry; apply Nat.leb_le; lia).
    cbn [andb]. replace (i + length sub - i) with (length sub) by lia.
    unfold occurs_at in Eo. rewrite Eo. rewrite andb_false_r. exact IH'.
Qed.

Definition lift_find (r : result (option nat) err) : res :=
  match r with
  | Ok (Some i) => Ok (RNum (Z.of_nat i))
  | Ok None => Ok RNone
  | Error e => Error e
  end.

Theorem find_least_match : forall s sub asub astart,
  valid_utf8 s = true -> len_ok s -> valid_utf8 sub = true -> av asub = AStr sub ->
  string_find s [asub; astart] = lift_find (spec_find s sub (shown astart) (idx_of_arg astart)).
Proof.
  intros s sub asub astart H Hl Hsub Hav.
  unfold string_find. cbn [length check_num_args Nat.eqb bind]. unfold expect_string. rewrite Hav.
  cbn [bind]. unfold spec_find. destruct sub as [|b0 sub']; [reflexivity|].
  set (sub := b0 :: sub') in *.
  assert (Hwf : idx_wf (idx_of_arg astart) = true).
  { unfold idx_of_arg. destruct (av astart); try reflexivity. apply idx_of_num_wf. }
  destruct (idx_of_arg astart) as [| |z]; try reflexivity.
  (* the start computation is that of try_as_bounded_index with kind "String" *)
  pose proof (bounded_index_exact "String" "" (IInt z) (Z.of_nat (length s))
                (len_ok_bound s Hl) Hwf) as BE.
  unfold bounded_index in BE. cbn [validate_integer] in BE. cbv zeta in BE.
  cbn [validate_integer bind]. cbv zeta.
  destruct (orb _ _) in BE |- *.
  - destruct (spec_index z (Z.of_nat (length s))); [discriminate|reflexivity].
  - destruct (spec_index z (Z.of_nat (length s))) as [start|]; [|discriminate].
    inversion BE as [BE']. rewrite BE'. clear BE BE'.
    rewrite is_boundary_spec_eq by exact H. unfold validate_char_boundary.
    destruct (is_char_boundary s start); [|reflexivity]. cbn [bind lift_find].
    rewrite find_loop_spec; try assumption; try discriminate.
    + unfold spec_find_from. destruct (List.find _ _); reflexivity.
    + intros i Hi. apply in_seq in Hi. lia.
Qed.
Print Assumptions find_least_match.

(* what [spec_find_from] means: the least offset >= start at which sub occurs *)
Lemma find_seq_least : forall (p : nat -> bool) n a,
  match List.find p (seq a n) with
  | Some i => a <= i < a + n /\ p i = true /\ forall j, a <= j < i -> p j = false
  | None => forall j, a <= j < a + n -> p j = false
  end.
Proof.
  intros p. induction n as [|n IH]; intros a.
  - cbn. intros j Hj. lia.
  - cbn [seq List.find]. destruct (p a) eqn:Ea.
    + split; [lia|]. split; [exact Ea|]. intros j Hj. lia.
    + specialize (IH (S a)). destruct (List.find p (seq (S a) n)) as [i|].
      * destruct IH as [Hr [Hp Hmin]]. split; [lia|]. split; [exact Hp|].
        intros j Hj. destruct (Nat.eq_dec j a) as [->|Hne]; [exact Ea|apply Hmin; lia].
      * intros j Hj. destruct (Nat.eq_dec j a) as [->|Hne]; [exact Ea|apply IH; lia].
Qed.

Corollary spec_find_from_least : forall s sub start,
  match spec_find_from s sub start with
  | Some i => start <= i < length s /\ occurs_at s sub i = true
              /\ forall j, start <= j < i -> occurs_at s sub j = false
  | None => forall j, start <= j < length s -> occurs_at s sub j = false
  end.
Proof.
  intros s sub start. unfold spec_find_from.
  pose proof (find_seq_least (occurs_at s sub) (length s - start) start) as L.
  destruct (List.find _ _) as [i|].
  - destruct L as [Hr [Hp Hm]]. split; [lia|]. split; assumption.
  - intros j Hj. apply L. lia.
Qed.

Corollary find_no_panic : forall s args, valid_utf8 s = true -> len_ok s ->
  (forall a t, In a args -> av a = AStr t -> valid_utf8 t = true) ->
  is_panic (string_find s args) = false.
Proof.
  intros s args H Hl Hargs.
  destruct args as [|a1 [|a2 [|a3 args]]]; try reflexivity.
  destruct (av a1) as [?|sub|? ?|?|] eqn:E1;
    try (unfold string_find; cbn [length check_num_args Nat.eqb bind]; unfold expect_string;
         rewrite E1; reflexivity).
  rewrite (find_least_match s sub a1 a2 H Hl (Hargs a1 sub (or_introl eq_refl) E1) E1).
  unfold spec_find. destruct sub; [reflexivity|].
  destruct (idx_of_arg a2); try reflexivity.
  destruct (spec_index _ _); [|reflexivity].
  destruct (is_boundary_spec _ _); [|reflexivity].
  destruct (spec_find_from _ _ _); reflexivity.
Qed.

Example find_ex :
  string_find mixed [str_arg (map Nb [226;130;172]%N); num_arg 0] = Ok (RNum 3)
  /\ string_find mixed [str_arg (map Nb [98]%N); num_arg (-1)] = Ok (RNum 10)
  /\ string_find mixed [str_arg (map Nb [97]%N); num_arg 1] = Ok RNone
  /\ string_find mixed [str_arg (map Nb [97]%N); num_arg 2]
     = Error (IndexError "Provided string index is not on a character boundary.")
  /\ string_find mixed [str_arg (map Nb [97]%N); num_arg 11] = Error (IndexError "String index out of bounds.")
  /\ string_find mixed [str_arg []; num_arg 0] = Error (ValueError "Cannot find empty string.")
  /\ string_find mixed [num_arg 1; mkArg AOther "nil"] = Error (TypeError "Expected a string but found '1'.")
  /\ string_find mixed [str_arg (map Nb [97]%N); mkArg AOther "nil"]
     = Error (TypeError "Expected an integer value but found 'nil'.")
  /\ string_find mixed [str_arg (map Nb [97]%N)] = Error (TypeError "Expected 2 parameters but found 1.")
  /\ string_find [] [str_arg (map Nb [97]%N); num_arg 0] = Error (IndexError "String index out of bounds.").
Proof. vm_compute. repeat split. Qed.

(* ------------------------------------------------------------------ *)
(* Theorem 7d: bytes and code points round trips                        *)
(* ------------------------------------------------------------------ *)
Definition int_elems (l : list Z) : list elem := map (fun z => ENum (NumInt z) (show_Z z)) l.

(* the integers held by a Vec argument, if all its elements are integral numbers *)
Fixpoint elems_ints (l : list elem) : option (list Z) :=
  match l with
  | [] => Some []
  | ENum (NumInt z) _ :: r => option_map (cons z) (elems_ints r)
  | _ => None
  end.

Definition bytes_as_ints (s : list byte) : list Z := map (fun b => Z.of_N (bN b)) s.

Lemma collect_bytes_ints : forall s, collect_bytes (int_elems (bytes_as_ints s)) = Ok s.
Proof.
  induction s as [|b s IH]; [reflexivity|].
  change (collect_bytes (ENum (NumInt (Z.of_N (bN b))) (show_Z (Z.of_N (bN b)))
                         :: int_elems (bytes_as_ints s)) = Ok (b :: s)).
  cbn [collect_bytes int_in_range].
  pose proof (bN_lt b) as Hb.
  replace ((0 <=? Z.of_N (bN b)) && (Z.of_N (bN b) <=? 255))%Z with true
    by (symmetry; apply andb_true_iff; split; apply Z.leb_le; lia).
  rewrite IH. cbn [bind]. rewrite N2Z.id, Nb_bN. reflexivity.
Qed.

Theorem to_from_bytes_roundtrip : forall s, valid_utf8 s = true ->
  string_to_bytes s [] = Ok (RVecNum (bytes_as_ints s))
  /\ string_from_utf8 [vec_arg (bytes_as_ints s)] = Ok (RStr s).
Proof.
  intros s H. split; [reflexivity|].
  unfold string_from_utf8, vec_arg. cbn [length check_num_args Nat.eqb bind expect_vec av].
  fold (int_elems (bytes_as_ints s)). rewrite collect_bytes_ints. cbn [bind].
  apply valid_up_to_none in H. rewrite H. reflexivity.
Qed.
Print Assumptions to_from_bytes_roundtrip.

Lemma collect_bytes_ok : forall l t, collect_bytes l = Ok t -> elems_ints l = Some (bytes_as_ints t).
Proof.
  induction l as [|e l IH]; intros t H.
  - inversion H; subst. reflexivity.
  - cbn [collect_bytes] in H. destruct e as [n sh|sh]; [|discriminate].
    destruct (int_in_range n 255) as [z|] eqn:En; [|discriminate].
    destruct (collect_bytes l) as [t'|] eqn:El; [|discriminate].
    cbn [bind] in H. inversion H; subst; clear H.
    unfold int_in_range in En. destruct n as [z'| |]; try discriminate.
    destruct ((0 <=? z') && (z' <=? 255))%Z eqn:Er; [|discriminate].
    inversion En; subst; clear En. apply andb_true_iff in Er. destruct Er as [E1 E2].
    apply Z.leb_le in E1, E2.
    cbn [elems_ints]. rewrite (IH t' eq_refl). cbn [option_map bytes_as_ints map].
    rewrite bN_Nb by lia. rewrite Z2N.id by lia. reflexivity.
Qed.

(* from_utf8 succeeds exactly on valid UTF-8, returns those bytes unchanged, and to_bytes gives them back *)
Theorem from_utf8_ok : forall a t, string_from_utf8 [a] = Ok (RStr t) ->
  valid_utf8 t = true /\
  exists l, av a = AVec l /\ elems_ints l = Some (bytes_as_ints t)
            /\ string_to_bytes t [] = Ok (RVecNum (bytes_as_ints t)).
Proof.
  intros a t H. unfold string_from_utf8 in H. cbn [length check_num_args Nat.eqb bind] in H.
  unfold expect_vec in H. destruct (av a) as [?|?|? ?|l|] eqn:Ea; try discriminate.
  cbn [bind] in H. destruct (collect_bytes l) as [bytes|] eqn:El; [|discriminate].
  cbn [bind] in H. destruct (valid_up_to bytes) as [i|] eqn:Ev.
  - destruct (nth_error bytes i); discriminate.
  - inversion H; subst. split; [apply valid_up_to_none; exact Ev|].
    exists l. split; [reflexivity|]. split; [apply collect_bytes_ok; exact El|reflexivity].
Qed.

(* the byte reported in the error message always exists: e.into_bytes()[index] cannot panic *)
Theorem from_utf8_no_panic : forall args, is_panic (string_from_utf8 args) = false.
Proof.
  intros args. unfold string_from_utf8.
  destruct args as [|a [|a' args]]; try reflexivity.
  cbn [length check_num_args Nat.eqb bind]. unfold expect_vec.
  destruct (av a); try reflexivity. cbn [bind].
  destruct (collect_bytes l) as [bytes|e] eqn:El.
  - cbn [bind]. destruct (valid_up_to bytes) as [i|] eqn:Ev; [|reflexivity].
    apply valid_up_to_some in Ev. destruct Ev as [Hi _].
    destruct (nth_error bytes i) eqn:En; [reflexivity|]. apply nth_error_None in En. lia.
  - cbn [bind]. clear -El. revert e El. induction l as [|x l IH]; intros e El; [discriminate|].
    cbn [collect_bytes] in El. destruct x as [n sh|sh]; [|inversion El; reflexivity].
    destruct (int_in_range n 255); [|inversion El; reflexivity].
    destruct (collect_bytes l) as [t|e'] eqn:E; [discriminate|].
    cbn [bind] in El. inversion El; subst. apply (IH e eq_refl).
Qed.

Lemma encode_cp_lt : forall c bs, encode_cp c = Some bs -> (c < 1114112)%N.
Proof.
  intros c bs H. unfold encode_cp in H.
  destruct (c <? 128)%N eqn:E1; [apply N.ltb_lt in E1; lia|].
  destruct (c <? 2048)%N eqn:E2; [apply N.ltb_lt in E2; lia|].
  destruct (c <? 65536)%N eqn:E3; [apply N.ltb_lt in E3; lia|].
  destruct (c <? 1114112)%N eqn:E4; [apply N.ltb_lt in E4; lia|discriminate].
Qed.

Definition cps_as_ints (cps : list N) : list Z := map Z.of_N cps.

Lemma collect_code_points_ints : forall cps bs, encode cps = Some bs ->
  collect_code_points (int_elems (cps_as_ints cps)) = Ok bs.
Proof.
  induction cps as [|c cps IH]; intros bs H.
  - inversion H; subst. reflexivity.
  - cbn [encode] in H. destruct (encode_cp c) as [b|] eqn:Ec; [|discriminate].
    destruct (encode cps) as [br|] eqn:Er; [|discriminate]. inversion H; subst; clear H.
    pose proof (encode_cp_lt c b Ec) as Hlt.
    change (collect_code_points (ENum (NumInt (Z.of_N c)) (show_Z (Z.of_N c))
                                 :: int_elems (cps_as_ints cps)) = Ok (b ++ br)).
    cbn [collect_code_points int_in_range].
    replace ((0 <=? Z.of_N c) && (Z.of_N c <=? 4294967295))%Z with true
      by (symmetry; apply andb_true_iff; split; apply Z.leb_le; lia).
    rewrite N2Z.id, Ec. rewrite (IH br eq_refl). reflexivity.
Qed.

Theorem to_from_code_points_roundtrip : forall s, valid_utf8 s = true ->
  string_to_code_points s [] = Ok (RVecNum (cps_as_ints (code_points s)))
  /\ string_from_code_points [vec_arg (cps_as_ints (code_points s))] = Ok (RStr s).
Proof.
  intros s H. split; [reflexivity|].
  unfold string_from_code_points, vec_arg. cbn [length check_num_args Nat.eqb bind expect_vec av].
  fold (int_elems (cps_as_ints (code_points s))).
  apply valid_decode in H. destruct H as [cps Hd]. unfold code_points. rewrite Hd.
  apply encode_decode in Hd. rewrite (collect_code_points_ints cps s Hd). reflexivity.
Qed.
Print Assumptions to_from_code_points_roundtrip.

Lemma collect_code_points_ok : forall l t, collect_code_points l = Ok t ->
  exists cps, encode cps = Some t /\ elems_ints l = Some (cps_as_ints cps).
Proof.
  induction l as [|e l IH]; intros t H.
  - inversion H; subst. exists []. split; reflexivity.
  - cbn [collect_code_points] in H. destruct e as [n sh|sh]; [|discriminate].
    destruct (int_in_range n 4294967295) as [c|] eqn:En; [|discriminate].
    destruct (encode_cp c) as [bs|] eqn:Ec; [|discriminate].
    destruct (collect_code_points l) as [t'|] eqn:El; [|discriminate].
    cbn [bind] in H. inversion H; subst; clear H.
    destruct (IH t' eq_refl) as [cps [He Hi]].
    unfold int_in_range in En. destruct n as [z'| |]; try discriminate.
    destruct ((0 <=? z') && (z' <=? 4294967295))%Z eqn:Er; [|discriminate].
    inversion En; subst; clear En. apply andb_true_iff in Er. destruct Er as [E1 E2].
    apply Z.leb_le in E1, E2.
    exists (Z.to_N z' :: cps). split.
    + cbn [encode]. rewrite Ec, He. reflexivity.
    + cbn [elems_ints cps_as_ints map]. fold (cps_as_ints cps). rewrite Hi. cbn [option_map].
      rewrite Z2N.id by lia. reflexivity.
Qed.

Theorem from_code_points_ok : forall a t, string_from_code_points [a] = Ok (RStr t) ->
  valid_utf8 t = true /\
  exists l, av a = AVec l /\ elems_ints l = Some (cps_as_ints (code_points t)).
Proof.
  intros a t H. unfold string_from_code_points in H.
  cbn [length check_num_args Nat.eqb bind] in H.
  unfold expect_vec in H. destruct (av a) as [?|?|? ?|l|] eqn:Ea; try discriminate.
  cbn [bind] in H. destruct (collect_code_points l) as [bytes|] eqn:El; [|discriminate].
  cbn [bind] in H. inversion H; subst.
  apply collect_code_points_ok in El. destruct El as [cps [He Hi]].
  apply decode_encode in He. split; [eapply decode_valid; exact He|].
  exists l. split; [reflexivity|]. unfold code_points. rewrite He. exact Hi.
Qed.

Example conversions_ex :
  string_to_bytes mixed [] = Ok (RVecNum [97;195;169;226;130;172;240;159;152;128;98]%Z)
  /\ string_to_code_points mixed [] = Ok (RVecNum [97;233;8364;128512;98]%Z)
  /\ string_from_utf8 [vec_arg [97;195;169;226;130;172;240;159;152;128;98]%Z] = Ok (RStr mixed)
  /\ string_from_code_points [vec_arg [97;233;8364;128512;98]%Z] = Ok (RStr mixed)
  /\ string_from_utf8 [vec_arg [97;237;160;128]%Z]
     = Error (ValueError "Invalid Unicode encountered at byte 237 with index 1.")
  /\ string_from_utf8 [vec_arg [240;159;152]%Z]
     = Error (ValueError "Invalid Unicode encountered at byte 240 with index 0.")
  /\ string_from_utf8 [vec_arg [256]%Z]
     = Error (ValueError "Expected a positive integer less than 256 but found '256'.")
  /\ string_from_utf8 [mkArg (AVec [EOther "true"]) "[true]"]
     = Error (TypeError "Expected a number but found 'true'.")
  /\ string_from_utf8 [str_arg mixed; str_arg mixed] = Error (TypeError "Expected 1 parameter but found 2.")
  /\ string_from_code_points [vec_arg [55296]%Z]
     = Error (ValueError "Expected a valid Unicode code point but found '55296'.")
  /\ string_from_code_points [vec_arg [4294967296]%Z]
     = Error (ValueError "Expected a positive integer less than 4294967295 but found '4294967296'.")
  /\ string_from_code_points [mkArg AOther "nil"]
     = Error (TypeError "Expected a Vec instance but found 'nil'.").
Proof. vm_compute. repeat split. Qed.

(* ------------------------------------------------------------------ *)
(* Theorem 7e: from_ascii                                               *)
(* ------------------------------------------------------------------ *)
Ltac Zify.zify_post_hook ::= Z.to_euclidean_division_equations.

Lemma land191 : forall z, (128 <= z < 256)%N ->
  N.land z 191 = if (z <? 192)%N then z else (z - 64)%N.
Proof.
  intros z Hz.
  assert (A : forallb (fun k => N.eqb (N.land k 191) (if (k <? 192)%N then k else (k - 64)%N))
                      (map N.of_nat (seq 128 128)) = true) by (vm_compute; reflexivity).
  rewrite forallb_forall in A. apply N.eqb_eq. apply A.
  apply in_map_iff. exists (N.to_nat z). split; [apply N2Nat.id|]. apply in_seq. lia.
Qed.

(* the code point from_ascii produces for byte value z *)
Definition from_ascii_cp (z : N) : N :=
  if (z <? 128)%N then z else if (z <? 192)%N then (z + 64)%N else z.

Lemma from_ascii_step : forall z, (z < 256)%N ->
  encode_cp (from_ascii_cp z)
  = Some (if (127 <? z)%N then [Nb 195; Nb (N.land z 191)] else [Nb z]).
Proof.
  intros z Hz. unfold from_ascii_cp.
  destruct (z <? 128)%N eqn:E1.
  - apply N.ltb_lt in E1. replace (127 <? z)%N with false by (symmetry; apply N.ltb_ge; lia).
    unfold encode_cp. replace (z <? 128)%N with true by (symmetry; apply N.ltb_lt; lia). reflexivity.
  - apply N.ltb_ge in E1. replace (127 <? z)%N with true by (symmetry; apply N.ltb_lt; lia).
    rewrite land191 by lia.
    destruct (z <? 192)%N eqn:E2; [apply N.ltb_lt in E2|apply N.ltb_ge in E2];
      unfold encode_cp; repeat dec_ltb; repeat first [reflexivity | lia | progress f_equal].
Qed.

Lemma from_ascii_loop_valid : forall els acc bytes,
  from_ascii_loop els acc = Ok bytes -> valid_utf8 acc = true -> valid_utf8 bytes = true.
Proof.
  induction els as [|e els IH]; intros acc bytes H Hacc.
  - inversion H; subst. exact Hacc.
  - cbn [from_ascii_loop] in H. destruct e as [n sh|sh]; [|discriminate].
    destruct (int_in_range n 255) as [z|] eqn:En; [|discriminate].
    assert (Hz : (z < 256)%N).
    { unfold int_in_range in En. destruct n as [z'| |]; try discriminate.
      destruct ((0 <=? z') && (z' <=? 255))%Z eqn:Er; [|discriminate]. inversion En; subst.
      apply andb_true_iff in Er. destruct Er as [E1 E2]. apply Z.leb_le in E1, E2. lia. }
    pose proof (from_ascii_step z Hz) as St.
    destruct (127 <? z)%N; (eapply IH; [exact H|]); apply valid_app; try exact Hacc;
      apply is_char_valid; eexists; exact St.
Qed.

(* from_ascii never fails with "Unable to create a string from byte sequence." and every string it
   returns is valid UTF-8 (bytes >= 128 become a two-byte sequence C3 xx) *)
Theorem from_ascii_valid : forall args,
  (forall t, string_from_ascii args = Ok (RStr t) -> valid_utf8 t = true)
  /\ string_from_ascii args <> Error (ValueError "Unable to create a string from byte sequence.")
  /\ is_panic (string_from_ascii args) = false.
Proof.
  intros args. unfold string_from_ascii.
  destruct args as [|a [|a' args]]; try (repeat split; [intros t H; discriminate|discriminate]).
  cbn [length check_num_args Nat.eqb bind]. unfold expect_vec.
  destruct (av a) as [?|?|? ?|l|]; try (repeat split; [intros t H; discriminate|discriminate]).
  cbn [bind]. destruct (from_ascii_loop l []) as [bytes|e] eqn:El.
  - cbn [bind]. rewrite (from_ascii_loop_valid l [] bytes El eq_refl).
    repeat split; [|discriminate]. intros t H. inversion H; subst.
    apply (from_ascii_loop_valid l [] t El eq_refl).
  - cbn [bind]. repeat split; [intros t H; discriminate| |].
    + clear -El. intros C. inversion C; subst. revert El. generalize (@nil byte).
      induction l as [|x l IH]; intros acc El; [discriminate|].
      cbn [from_ascii_loop] in El. destruct x as [n sh|sh]; [|discriminate].
      destruct (int_in_range n 255); [|discriminate].
      destruct (127 <? n0)%N; eapply IH; exact El.
    + clear -El. revert El. generalize (@nil byte).
      induction l as [|x l IH]; intros acc El; [discriminate|].
      cbn [from_ascii_loop] in El. destruct x as [n sh|sh]; [|inversion El; reflexivity].
      destruct (int_in_range n 255); [|inversion El; reflexivity].
      destruct (127 <? n0)%N; eapply IH; exact El.
Qed.
Print Assumptions from_ascii_valid.

(* what from_ascii computes for a single byte value *)
Theorem from_ascii_char : forall z, (0 <= z <= 255)%Z ->
  string_from_ascii [vec_arg [z]] = Ok (RStr (enc1 (from_ascii_cp (Z.to_N z)))).
Proof.
  intros z Hz. unfold string_from_ascii, vec_arg.
  cbn [length check_num_args Nat.eqb bind expect_vec av map from_ascii_loop int_in_range].
  replace ((0 <=? z) && (z <=? 255))%Z with true
    by (symmetry; apply andb_true_iff; split; apply Z.leb_le; lia).
  pose proof (from_ascii_step (Z.to_N z) ltac:(lia)) as St. unfold enc1. rewrite St.
  destruct (127 <? Z.to_N z)%N; cbn [from_ascii_loop app bind];
    match goal with |- context [valid_utf8 ?b] =>
      replace (valid_utf8 b) with true
        by (symmetry; apply is_char_valid; eexists; exact St) end; reflexivity.
Qed.

(* FINDING: for byte values 128..191 from_ascii does NOT produce the Latin-1 / Unicode character
   with that code point (it produces the one 64 places further), so it is not injective:
   169 and 233 both give U+00E9. *)
Theorem from_ascii_latin1_refuted :
  exists z, (0 <= z <= 255)%Z /\
    string_from_ascii [vec_arg [z]] <> Ok (RStr (enc1 (Z.to_N z)))
    /\ string_from_ascii [vec_arg [z]] = string_from_ascii [vec_arg [z + 64]%Z].
Proof. exists 169%Z. vm_compute. repeat split; discriminate. Qed.

Example from_ascii_ex :
  string_from_ascii [vec_arg [72;105;33;233;169;255;128]%Z]
  = Ok (RStr (map Nb [72;105;33;195;169;195;169;195;191;195;128]%N))
  /\ string_from_ascii [vec_arg [256]%Z]
     = Error (ValueError "Expected a positive integer less than 256 but found '256'.")
  /\ string_from_ascii [mkArg (AVec [ENum NumNonIntegral "128.5"]) ""]
     = Error (ValueError "Expected a positive integer less than 256 but found '128.5'.")
  /\ string_from_ascii [str_arg mixed] = Error (TypeError
       ("Expected a Vec instance but found '" ++ string_of_bytes mixed ++ "'.")%string).
Proof. vm_compute. repeat split. Qed.

(* ------------------------------------------------------------------ *)
(* classification                                                       *)
(* ------------------------------------------------------------------ *)
Lemma encode_cp_high : forall c bs, encode_cp c = Some bs -> (128 <= c)%N ->
  exists l t, bs = l :: t /\ (128 <= bN l)%N.
Proof.
  intros c bs H Hc. unfold encode_cp in H.
  replace (c <? 128)%N with false in H by (symmetry; apply N.ltb_ge; lia).
  destruct (c <? 2048)%N eqn:E2.
  { inversion H; subst. nbool. eexists _, _. split; [reflexivity|]. rewrite bN_Nb; lia. }
  destruct (c <? 65536)%N eqn:E3.
  { destruct (is_surrogate c); [discriminate|].
    inversion H; subst. nbool. eexists _, _. split; [reflexivity|]. rewrite bN_Nb; lia. }
  destruct (c <? 1114112)%N eqn:E4; [|discriminate].
  inversion H; subst. nbool. eexists _, _. split; [reflexivity|]. rewrite bN_Nb; lia.
Qed.

Lemma classify_bytes : forall (pc : N -> bool) (pb : byte -> bool),
  (forall c, pc c = true -> (c < 128)%N) -> (forall b, pb b = pc (bN b)) ->
  forall cps s, encode cps = Some s -> forallb pc cps = forallb pb s.
Proof.
  intros pc pb Hpc Hpb. induction cps as [|c cps IH]; intros s H.
  - inversion H; subst. reflexivity.
  - cbn [encode] in H. destruct (encode_cp c) as [b|] eqn:Ec; [|discriminate].
    destruct (encode cps) as [br|] eqn:Er; [|discriminate]. inversion H; subst; clear H.
    cbn [forallb]. rewrite forallb_app, (IH br eq_refl).
    destruct (c <? 128)%N eqn:E1.
    + unfold encode_cp in Ec. rewrite E1 in Ec. inversion Ec; subst. cbn [forallb].
      apply N.ltb_lt in E1. rewrite Hpb, bN_Nb by lia. rewrite andb_true_r. reflexivity.
    + apply N.ltb_ge in E1. destruct (encode_cp_high c b Ec E1) as [l [t [-> Hl]]].
      assert (pc c = false).
      { destruct (pc c) eqn:E; [|reflexivity]. apply Hpc in E. lia. }
      assert (pb l = false).
      { rewrite Hpb. destruct (pc (bN l)) eqn:E; [|reflexivity]. apply Hpc in E. lia. }
      cbn [forallb]. rewrite H, H0. reflexivity.
Qed.

Lemma string_classify_spec : forall pc pb s args,
  (forall c, pc c = true -> (c < 128)%N) -> (forall b, pb b = pc (bN b)) ->
  valid_utf8 s = true ->
  string_classify pc s args =
  match args with
  | [] => Ok (RBool (spec_classify pb s))
  | _ => Error (TypeError ("Expected 0 parameters but found " ++ show_nat (length args) ++ "."))
  end.
Proof.
  intros pc pb s args Hpc Hpb H. unfold string_classify. destruct args as [|a args]; [|reflexivity].
  cbn [length check_num_args Nat.eqb bind]. unfold spec_classify.
  apply valid_decode in H. destruct H as [cps Hd]. unfold code_points. rewrite Hd.
  apply encode_decode in Hd. rewrite (classify_bytes pc pb Hpc Hpb cps s Hd).
  destruct s; reflexivity.
Qed.

Ltac nle :=
  repeat match goal with
  | H : (_ || _) = true |- _ => apply orb_true_iff in H; destruct H
  | H : (_ && _) = true |- _ => apply andb_true_iff in H; destruct H
  | H : (_ <=? _)%N = true |- _ => apply N.leb_le in H
  end.

(* is_alpha / is_digit / is_hexdigit: true iff the string is non-empty and every BYTE is an ASCII
   letter / digit / hex digit (a multi-byte character never qualifies) *)
Theorem classify_spec : forall s, valid_utf8 s = true ->
  string_is_alpha s [] = Ok (RBool (spec_classify byte_is_alpha s))
  /\ string_is_digit s [] = Ok (RBool (spec_classify byte_is_digit s))
  /\ string_is_hexdigit s [] = Ok (RBool (spec_classify byte_is_hexdigit s)).
Proof.
  intros s H. unfold string_is_alpha, string_is_digit, string_is_hexdigit. repeat split.
  - rewrite (string_classify_spec cp_is_alpha byte_is_alpha); try reflexivity; try assumption.
    intros c Hc. unfold cp_is_alpha in Hc. nle; lia.
  - rewrite (string_classify_spec cp_is_digit byte_is_digit); try reflexivity; try assumption.
    intros c Hc. unfold cp_is_digit in Hc. nle; lia.
  - rewrite (string_classify_spec cp_is_hexdigit byte_is_hexdigit); try reflexivity; try assumption.
    intros c Hc. unfold cp_is_hexdigit, cp_is_digit in Hc. nle; lia.
Qed.
Print Assumptions classify_spec.

Example classify_ex :
  string_is_alpha mixed [] = Ok (RBool false)
  /\ string_is_alpha (map Nb [97;90]%N) [] = Ok (RBool true)
  /\ string_is_alpha [] [] = Ok (RBool false)
  /\ string_is_digit (map Nb [48;57]%N) [] = Ok (RBool true)
  /\ string_is_digit (map Nb [48;97]%N) [] = Ok (RBool false)
  /\ string_is_hexdigit (map Nb [48;97;70]%N) [] = Ok (RBool true)
  /\ string_is_hexdigit (map Nb [103]%N) [] = Ok (RBool false)
  /\ string_is_alpha mixed [num_arg 1] = Error (TypeError "Expected 0 parameters but found 1.").
Proof. vm_compute. repeat split. Qed.

(* ------------------------------------------------------------------ *)
(* starts_with / ends_with                                              *)
(* ------------------------------------------------------------------ *)
Lemma bytes_eqb_rev : forall a b, bytes_eqb (rev a) (rev b) = bytes_eqb a b.
Proof.
  intros a b. destruct (bytes_eqb a b) eqn:E.
  - apply bytes_eqb_eq in E. subst. apply bytes_eqb_refl.
  - destruct (bytes_eqb (rev a) (rev b)) eqn:E2; [|reflexivity].
    apply bytes_eqb_eq in E2. apply (f_equal (@rev byte)) in E2. rewrite !rev_involutive in E2.
    subst. rewrite bytes_eqb_refl in E. discriminate.
Qed.

Theorem starts_ends_with_spec : forall s p,
  string_starts_with s [str_arg p] = Ok (RBool (spec_starts_with s p))
  /\ string_ends_with s [str_arg p] = Ok (RBool (spec_ends_with s p)).
Proof.
  intros s p. split.
  - unfold string_starts_with. cbn. rewrite is_prefix_eqb. reflexivity.
  - unfold string_ends_with. cbn [length check_num_args Nat.eqb bind str_arg expect_string av].
    f_equal. f_equal. unfold is_suffix, spec_ends_with. rewrite is_prefix_eqb.
    rewrite rev_length, firstn_rev, bytes_eqb_rev.
    destruct (Nat.leb_spec (length p) (length s)) as [L|L]; [reflexivity|].
    replace (length s - length p) with 0 by lia. cbn [skipn andb].
    destruct (bytes_eqb s p) eqn:E; [|reflexivity]. apply bytes_eqb_eq in E. subst. lia.
Qed.

Example starts_ends_ex :
  string_starts_with mixed [str_arg (map Nb [97;195;169]%N)] = Ok (RBool true)
  /\ string_starts_with mixed [str_arg (map Nb [97;195]%N)] = Ok (RBool true)  (* byte-level; unreachable from yarel: arguments are valid strings *)
  /\ string_ends_with mixed [str_arg (map Nb [240;159;152;128;98]%N)] = Ok (RBool true)
  /\ string_ends_with mixed [str_arg (map Nb [97]%N)] = Ok (RBool false)
  /\ string_starts_with mixed [str_arg []] = Ok (RBool true)
  /\ string_ends_with mixed [num_arg 1] = Error (TypeError "Expected a string but found '1'.")
  /\ string_starts_with mixed [] = Error (TypeError "Expected 1 parameter but found 0.").
Proof. vm_compute. repeat split. Qed.

(* ------------------------------------------------------------------ *)
(* replace / split                                                      *)
(* ------------------------------------------------------------------ *)
Lemma replace_go_skip : forall old new p r,
  replace_go old new (p ++ r) (length p) = replace_go old new r 0.
Proof.
  intros old new p r. induction p as [|x p IH]; [reflexivity|]. cbn [app length replace_go]. exact IH.
Qed.

Lemma replace_go_match : forall old new r, old <> [] ->
  replace_go old new (old ++ r) 0 = new ++ replace_go old new r 0.
Proof.
  intros old new r Hne. destruct old as [|x old']; [congruence|].
  cbn [app replace_go].
  assert (P : is_prefix (x :: old') (x :: old' ++ r) = true).
  { apply is_prefix_iff. exists r. reflexivity. }
  rewrite P. f_equal. replace (length (x :: old') - 1) with (length old') by (cbn [length]; lia).
  apply replace_go_skip.
Qed.

Lemma split_go_skip : forall d p r cur,
  split_go d (p ++ r) (length p) cur = split_go d r 0 cur.
Proof.
  intros d p r cur. induction p as [|x p IH]; [reflexivity|]. cbn [app length split_go]. exact IH.
Qed.

Lemma split_go_match : forall d r cur, d <> [] ->
  split_go d (d ++ r) 0 cur = cur :: split_go d r 0 [].
Proof.
  intros d r cur Hne. destruct d as [|x d']; [congruence|].
  cbn [app split_go].
  assert (P : is_prefix (x :: d') (x :: d' ++ r) = true).
  { apply is_prefix_iff. exists r. reflexivity. }
  rewrite P. f_equal. replace (length (x :: d') - 1) with (length d') by (cbn [length]; lia).
  apply split_go_skip.
Qed.

Lemma split_go_nonempty : forall d s k cur, split_go d s k cur <> [].
Proof.
  intros d s. induction s as [|b s IH]; intros k cur; cbn [split_go]; [discriminate|].
  destruct k; [|apply IH]. destruct (is_prefix d (b :: s)); [discriminate|apply IH].
Qed.

(* split is inverted by join, and replace is split-then-join: pure byte-level facts *)
Theorem split_join : forall d s, d <> [] -> join d (split_bytes d s) = s.
Proof.
  intros d s Hne. unfold split_bytes.
  assert (G : forall n s cur, length s <= n -> join d (split_go d s 0 cur) = cur ++ s).
  { induction n as [|n IH]; intros s0 cur Hl.
    - destruct s0; [cbn; rewrite app_nil_r; reflexivity|cbn in Hl; lia].
    - destruct s0 as [|b r]; [cbn; rewrite app_nil_r; reflexivity|].
      destruct (is_prefix d (b :: r)) eqn:P.
      + apply is_prefix_iff in P. destruct P as [r' Hr']. rewrite Hr'.
        rewrite split_go_match by exact Hne.
        assert (Hl' : length r' <= n).
        { apply (f_equal (@length byte)) in Hr'. rewrite app_length in Hr'. cbn [length] in *.
          destruct d; [congruence|]. cbn [length] in Hr'. lia. }
        pose proof (IH r' [] Hl') as J. cbn [app] in J.
        pose proof (split_go_nonempty d r' 0 []) as NE.
        cbn [join]. destruct (split_go d r' 0 []) as [|y l]; [congruence|]. rewrite J. reflexivity.
      + cbn [split_go]. rewrite P. rewrite IH by (cbn in Hl; lia).
        rewrite <- app_assoc. reflexivity. }
  apply (G (length s) s [] (le_n _)).
Qed.

Theorem replace_is_join_split : forall old new s, old <> [] ->
  replace_bytes old new s = join new (split_bytes old s).
Proof.
  intros old new s Hne. unfold replace_bytes, split_bytes.
  assert (G : forall n s cur, length s <= n ->
            cur ++ replace_go old new s 0 = join new (split_go old s 0 cur)).
  { induction n as [|n IH]; intros s0 cur Hl.
    - destruct s0; [cbn; apply app_nil_r|cbn in Hl; lia].
    - destruct s0 as [|b r]; [cbn; apply app_nil_r|].
      destruct (is_prefix old (b :: r)) eqn:P.
      + apply is_prefix_iff in P. destruct P as [r' Hr']. rewrite Hr'.
        rewrite split_go_match, replace_go_match by exact Hne.
        assert (Hl' : length r' <= n).
        { apply (f_equal (@length byte)) in Hr'. rewrite app_length in Hr'. cbn [length] in *.
          destruct old; [congruence|]. cbn [length] in Hr'. lia. }
        pose proof (IH r' [] Hl') as J. cbn [app] in J.
        pose proof (split_go_nonempty old r' 0 []) as NE.
        cbn [join]. destruct (split_go old r' 0 []) as [|y l]; [congruence|]. rewrite <- J. reflexivity.
      + cbn [split_go replace_go]. rewrite P. rewrite <- IH by (cbn in Hl; lia).
        rewrite <- app_assoc. reflexivity. }
  apply (G (length s) s [] (le_n _)).
Qed.

(* a valid non-empty pattern cannot match at a continuation byte *)
Lemma is_prefix_cont : forall p b r, valid_utf8 p = true -> p <> [] -> is_cont b = true ->
  is_prefix p (b :: r) = false.
Proof.
  intros p b r Hp Hne Hb. destruct p as [|x p']; [congruence|].
  apply valid_head_ok in Hp. cbn in Hp. cbn [is_prefix].
  destruct (Byte.eqb x b) eqn:E; [|reflexivity]. apply Byte.byte_dec_bl in E. subst.
  rewrite Hb in Hp. discriminate.
Qed.

Lemma replace_go_conts : forall old new t r, valid_utf8 old = true -> old <> [] ->
  forallb is_cont t = true -> replace_go old new (t ++ r) 0 = t ++ replace_go old new r 0.
Proof.
  intros old new t r Ho Hne. induction t as [|b t IH]; intros Ht; [reflexivity|].
  cbn in Ht. apply andb_true_iff in Ht. destruct Ht as [Hb Ht].
  cbn [app replace_go]. rewrite is_prefix_cont by assumption. f_equal. apply IH. exact Ht.
Qed.

Lemma split_go_conts : forall d t r cur, valid_utf8 d = true -> d <> [] ->
  forallb is_cont t = true -> split_go d (t ++ r) 0 cur = split_go d r 0 (cur ++ t).
Proof.
  intros d t r cur Hd Hne. revert cur. induction t as [|b t IH]; intros cur Ht.
  - rewrite app_nil_r. reflexivity.
  - cbn in Ht. apply andb_true_iff in Ht. destruct Ht as [Hb Ht].
    cbn [app split_go]. rewrite is_prefix_cont by assumption. rewrite IH by exact Ht.
    rewrite <- app_assoc. reflexivity.
Qed.

(* first character of a non-empty valid string *)
Lemma valid_first_char : forall s, valid_utf8 s = true -> s <> [] ->
  exists c rest, s = c ++ rest /\ is_char c /\ valid_utf8 rest = true.
Proof.
  intros s H Hne. assert (Hl : 0 < length s) by (destruct s; [congruence|cbn; lia]).
  destruct (valid_decompose s 0 H eq_refl Hl) as [c [rest [Fc [Hs [Vr _]]]]].
  exists c, rest. cbn [skipn] in Hs. repeat split; assumption.
Qed.

Theorem replace_valid : forall old new s, valid_utf8 old = true -> old <> [] ->
  valid_utf8 new = true -> valid_utf8 s = true -> valid_utf8 (replace_bytes old new s) = true.
Proof.
  intros old new s Ho Hne Hn. unfold replace_bytes.
  remember (length s) as n eqn:Hlen. revert s Hlen.
  induction n as [n IH] using lt_wf_ind. intros s Hlen H.
  destruct s as [|b0 s0]; [reflexivity|].
  destruct (is_prefix old (b0 :: s0)) eqn:P.
  - apply is_prefix_iff in P. destruct P as [r Hr]. rewrite Hr in *.
    rewrite replace_go_match by exact Hne.
    apply valid_app; [exact Hn|]. apply (IH (length r)); try reflexivity.
    + rewrite Hlen, app_length. destruct old; [congruence|]. cbn [length]. lia.
    + eapply valid_app_inv; [exact Ho|exact H].
  - destruct (valid_first_char (b0 :: s0) H ltac:(discriminate)) as [c [rest [Hs [Fc Vr]]]].
    rewrite Hs in *. pose proof (is_char_shaped c Fc) as [l [t [Hc [Hl Ht]]]]. subst c.
    cbn [app replace_go] in P |- *. rewrite P.
    rewrite replace_go_conts by assumption.
    change (valid_utf8 ((l :: t) ++ replace_go old new rest 0) = true).
    apply valid_app; [apply is_char_valid; exact Fc|].
    apply (IH (length rest)); try reflexivity; [|exact Vr].
    rewrite Hlen. cbn [length app]. rewrite app_length. lia.
Qed.
Print Assumptions replace_valid.

Lemma split_go_valid : forall d, valid_utf8 d = true -> d <> [] ->
  forall n s cur, length s <= n -> valid_utf8 s = true -> valid_utf8 cur = true ->
  Forall (fun t => valid_utf8 t = true) (split_go d s 0 cur).
Proof.
  intros d Hd Hne. induction n as [|n IH]; intros s cur Hl H Hc.
  - destruct s; [constructor; [exact Hc|constructor]|cbn in Hl; lia].
  - destruct s as [|b0 s0]; [constructor; [exact Hc|constructor]|].
    destruct (is_prefix d (b0 :: s0)) eqn:P.
    + apply is_prefix_iff in P. destruct P as [r Hr]. rewrite Hr in *.
      rewrite split_go_match by exact Hne. constructor; [exact Hc|].
      apply IH; [|eapply valid_app_inv; [exact Hd|exact H]|reflexivity].
      rewrite app_length in Hl. destruct d; [congruence|]. cbn [length] in Hl. lia.
    + destruct (valid_first_char (b0 :: s0) H ltac:(discriminate)) as [c [rest [Hs [Fc Vr]]]].
      rewrite Hs in *. pose proof (is_char_shaped c Fc) as [l [t [Hcc [Hl' Ht]]]]. subst c.
      cbn [app split_go] in P |- *. rewrite P.
      rewrite split_go_conts by assumption.
      apply IH; [|exact Vr|].
      * cbn [length app] in Hl. rewrite app_length in Hl. lia.
      * rewrite <- app_assoc. cbn [app]. apply valid_app; [exact Hc|]. apply is_char_valid. exact Fc.
Qed.

Theorem split_valid : forall d s, valid_utf8 d = true -> d <> [] -> valid_utf8 s = true ->
  Forall (fun t => valid_utf8 t = true) (split_bytes d s).
Proof.
  intros d s Hd Hne H. unfold split_bytes.
  apply (split_go_valid d Hd Hne (length s) s []); [lia|exact H|reflexivity].
Qed.
Print Assumptions split_valid.

Example replace_split_ex :
  string_replace mixed [str_arg (map Nb [195;169]%N); str_arg (map Nb [240;159;152;128]%N)]
  = Ok (RStr (map Nb [97;240;159;152;128;226;130;172;240;159;152;128;98]%N))
  /\ string_split mixed [str_arg (map Nb [226;130;172]%N)]
     = Ok (RVecStr [map Nb [97;195;169]%N; map Nb [240;159;152;128;98]%N])
  /\ string_replace (map Nb [97;97;97]%N) [str_arg (map Nb [97;97]%N); str_arg (map Nb [98]%N)]
     = Ok (RStr (map Nb [98;97]%N))
  /\ string_split (map Nb [97;97;97;97]%N) [str_arg (map Nb [97;97]%N)] = Ok (RVecStr [[]; []; []])
  /\ string_split [] [str_arg (map Nb [97]%N)] = Ok (RVecStr [[]])
  /\ string_replace mixed [str_arg []; str_arg []] = Error (ValueError "Cannot replace empty string.")
  /\ string_replace mixed [str_arg []; num_arg 1] = Error (ValueError "Cannot replace empty string.")
  /\ string_replace mixed [num_arg 1; num_arg 2] = Error (TypeError "Expected a string but found '1'.")
  /\ string_replace mixed [str_arg mixed; num_arg 2] = Error (TypeError "Expected a string but found '2'.")
  /\ string_split mixed [str_arg []] = Error (ValueError "Cannot split using an empty string.")
  /\ string_split mixed [num_arg 1] = Error (TypeError "Expected a string but found '1'.")
  /\ string_split mixed [] = Error (TypeError "Expected 1 parameter but found 0.").
Proof. vm_compute. repeat split. Qed.

(* ------------------------------------------------------------------ *)
(* Theorem 8: every string the natives produce is valid UTF-8           *)
(* ------------------------------------------------------------------ *)
Definition rvalue_valid (v : rvalue) : Prop :=
  match v with
  | RStr t => valid_utf8 t = true
  | RVecStr l => Forall (fun t => valid_utf8 t = true) l
  | _ => True
  end.

(* string arguments are yarel strings, hence valid *)
Definition args_valid (args : list arg) : Prop :=
  forall a t, In a args -> av a = AStr t -> valid_utf8 t = true.

(* the iterator cursor stays on a char boundary <= len, and each step returns one valid character *)
Theorem iter_next_preserves : forall s pos, valid_utf8 s = true ->
  is_char_boundary s pos = true -> pos <= length s ->
  is_char_boundary s (snd (string_iter_next s pos [])) = true
  /\ snd (string_iter_next s pos []) <= length s
  /\ (forall v, fst (string_iter_next s pos []) = Ok v -> rvalue_valid v)
  /\ is_panic (fst (string_iter_next s pos [])) = false.
Proof.
  intros s pos H Hb Hle. destruct (Nat.eq_dec pos (length s)) as [->|Hne].
  - rewrite iter_next_end. cbn [fst snd]. repeat split; try assumption.
    intros v Hv. inversion Hv; subst. exact I.
  - assert (Hlt : pos < length s) by lia.
    destruct (valid_decompose s pos H Hb Hlt) as [c [rest [Fc [Hs [Vr _]]]]].
    rewrite (iter_next_char s pos c rest Hlt Hs (is_char_shaped c Fc) (valid_head_ok rest Vr)).
    cbn [fst snd]. destruct (skipn_app_length s pos c rest Hs Hle) as [Hl _].
    repeat split; try assumption.
    + eapply boundary_after_char; [exact Hle|exact Hs|apply valid_head_ok; exact Vr].
    + intros v Hv. inversion Hv; subst. cbn. apply is_char_valid. exact Fc.
Qed.

Theorem every_native_preserves_utf8 : forall s args a v,
  valid_utf8 s = true -> len_ok s -> args_valid args -> arg_wf a = true ->
  (string_get_item s a = Ok v -> rvalue_valid v)
  /\ (string_replace s args = Ok v -> rvalue_valid v)
  /\ (string_split s args = Ok v -> rvalue_valid v)
  /\ (string_from_ascii args = Ok v -> rvalue_valid v)
  /\ (string_from_utf8 args = Ok v -> rvalue_valid v)
  /\ (string_from_code_points args = Ok v -> rvalue_valid v)
  /\ (forall pos, is_char_boundary s pos = true -> pos <= length s ->
        fst (string_iter_next s pos []) = Ok v -> rvalue_valid v).
Proof.
  intros s args a v H Hl Hargs Hwf. repeat split.
  - (* get_item *)
    intros Hg. rewrite string_get_item_cases in Hg by assumption.
    destruct (av a) as [n|?|rb re|?|] eqn:Ea; try discriminate.
    + destruct (spec_string_index s (shown a) (idx_of_num n)) as [c|e] eqn:E; [|discriminate].
      inversion Hg; subst. cbn. apply spec_string_index_ok in E.
      pose proof (chars_is_char s) as F. rewrite Forall_forall in F. apply is_char_valid, F, E.
    + destruct (spec_string_range s rb re) as [c|e] eqn:E; [|discriminate].
      inversion Hg; subst. cbn. eapply spec_string_range_ok; eassumption.
  - (* replace *)
    intros Hr. unfold string_replace in Hr.
    destruct args as [|a1 [|a2 [|a3 args]]]; try discriminate.
    cbn [length check_num_args Nat.eqb bind] in Hr. unfold expect_string in Hr.
    destruct (av a1) as [?|old|? ?|?|] eqn:E1; try discriminate. cbn [bind] in Hr.
    destruct old as [|o old']; [discriminate|].
    destruct (av a2) as [?|new|? ?|?|] eqn:E2; try discriminate. cbn [bind] in Hr.
    inversion Hr; subst. cbn. apply replace_valid; try assumption; try discriminate.
    + apply (Hargs a1); [left; reflexivity|exact E1].
    + apply (Hargs a2); [right; left; reflexivity|exact E2].
  - (* split *)
    intros Hr. unfold string_split in Hr.
    destruct args as [|a1 [|a2 args]]; try discriminate.
    cbn [length check_num_args Nat.eqb bind] in Hr. unfold expect_string in Hr.
    destruct (av a1) as [?|d|? ?|?|] eqn:E1; try discriminate. cbn [bind] in Hr.
    destruct d as [|d0 d']; [discriminate|].
    inversion Hr; subst. cbn. apply split_valid; try assumption; try discriminate.
    apply (Hargs a1); [left; reflexivity|exact E1].
  - (* from_ascii *)
    intros Hr. destruct v; try exact I.
    + cbn. apply (proj1 (from_ascii_valid args)). exact Hr.
    + exfalso. unfold string_from_ascii in Hr.
      destruct args as [|a1 [|a2 args]]; try discriminate.
      cbn [length check_num_args Nat.eqb bind] in Hr. unfold expect_vec in Hr.
      destruct (av a1); try discriminate. cbn [bind] in Hr.
      destruct (from_ascii_loop l0 []); [|discriminate]. cbn [bind] in Hr.
      destruct (valid_utf8 a0); discriminate.
  - (* from_utf8 *)
    intros Hr. destruct v; try exact I.
    + destruct args as [|a1 [|a2 args]]; try discriminate.
      cbn. apply (from_utf8_ok a1 s0 Hr).
    + exfalso. unfold string_from_utf8 in Hr.
      destruct args as [|a1 [|a2 args]]; try discriminate.
      cbn [length check_num_args Nat.eqb bind] in Hr. unfold expect_vec in Hr.
      destruct (av a1); try discriminate. cbn [bind] in Hr.
      destruct (collect_bytes l0); [|discriminate]. cbn [bind] in Hr.
      destruct (valid_up_to a0); [destruct (nth_error a0 n)|]; discriminate.
  - (* from_code_points *)
    intros Hr. destruct v; try exact I.
    + destruct args as [|a1 [|a2 args]]; try discriminate.
      cbn. apply (from_code_points_ok a1 s0 Hr).
    + exfalso. unfold string_from_code_points in Hr.
      destruct args as [|a1 [|a2 args]]; try discriminate.
      cbn [length check_num_args Nat.eqb bind] in Hr. unfold expect_vec in Hr.
      destruct (av a1); try discriminate. cbn [bind] in Hr.
      destruct (collect_code_points l0); discriminate.
  - (* iteration *)
    intros pos Hb Hle Hr. apply (iter_next_preserves s pos H Hb Hle). exact Hr.
Qed.
Print Assumptions every_native_preserves_utf8.

(* hypotheses are satisfiable *)
Example every_native_hyps_ex :
  valid_utf8 mixed = true /\ len_ok mixed
  /\ args_valid [str_arg (map Nb [195;169]%N); str_arg mixed]
  /\ arg_wf (range_arg 1 6) = true.
Proof.
  split; [reflexivity|]. split; [unfold len_ok; vm_compute; discriminate|]. split; [|reflexivity].
  intros a t [<-|[<-|[]]] E; inversion E; subst; reflexivity.
Qed.

(* ------------------------------------------------------------------ *)
(* no Rust panic anywhere                                               *)
(* ------------------------------------------------------------------ *)
Ltac np_args args :=
  destruct args as [|?a [|?a [|?a ?args]]]; try reflexivity;
  cbn [length check_num_args Nat.eqb bind]; unfold expect_string, expect_vec;
  repeat match goal with
         | |- context [match av ?a with _ => _ end] => destruct (av a); cbn [bind]; try reflexivity
         | |- context [match ?l with [] => _ | _ :: _ => _ end] => destruct l; cbn [bind]; try reflexivity
         end.

Theorem natives_no_panic : forall s args, valid_utf8 s = true -> len_ok s -> args_valid args ->
  is_panic (string_len s args) = false
  /\ is_panic (string_count_chars s args) = false
  /\ is_panic (string_char_byte_index s args) = false
  /\ is_panic (string_find s args) = false
  /\ is_panic (string_is_alpha s args) = false
  /\ is_panic (string_is_digit s args) = false
  /\ is_panic (string_is_hexdigit s args) = false
  /\ is_panic (string_to_bytes s args) = false
  /\ is_panic (string_to_code_points s args) = false
  /\ is_panic (string_starts_with s args) = false
  /\ is_panic (string_ends_with s args) = false
  /\ is_panic (string_replace s args) = false
  /\ is_panic (string_split s args) = false
  /\ is_panic (string_from_ascii args) = false
  /\ is_panic (string_from_utf8 args) = false
  /\ is_panic (string_from_code_points args) = false.
Proof.
  intros s args H Hl Hargs.
  repeat match goal with |- _ /\ _ => split end.
  - unfold string_len. np_args args.
  - unfold string_count_chars. np_args args.
  - destruct args as [|a [|a' args]]; try reflexivity.
    rewrite char_byte_index_spec by assumption. unfold spec_char_byte_index.
    destruct (idx_of_arg a); try reflexivity. destruct (spec_index _ _); reflexivity.
  - apply find_no_panic; assumption.
  - unfold string_is_alpha, string_classify. np_args args.
  - unfold string_is_digit, string_classify. np_args args.
  - unfold string_is_hexdigit, string_classify. np_args args.
  - unfold string_to_bytes. np_args args.
  - unfold string_to_code_points. np_args args.
  - unfold string_starts_with. np_args args.
  - unfold string_ends_with. np_args args.
  - unfold string_replace. np_args args.
  - unfold string_split. np_args args.
  - apply from_ascii_valid.
  - apply from_utf8_no_panic.
  - unfold string_from_code_points. np_args args.
    clear. induction l as [|x l IH]; [reflexivity|]. cbn [collect_code_points].
    destruct x as [n sh|sh]; [|reflexivity]. destruct (int_in_range n 4294967295); [|reflexivity].
    destruct (encode_cp n0); [|reflexivity]. destruct (collect_code_points l); cbn [bind] in *; [reflexivity|exact IH].
Qed.
Print Assumptions natives_no_panic.
