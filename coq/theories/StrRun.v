(* C13 - evaluation glue for the correspondence check (tools/props/C13.py).
   A "probe" is (function id, receiver, arguments) over small yarel values.  For each probe
     [mech]  evaluates the Mechanism model (StrFns.v / Index.v, NumText.parse_f64 for to_num),
     [spec]  evaluates the Spec (StrSpec.v: chars / boundaries / code points),
   and both are rendered as the lines yarel's print() would show (DESIGN.md App. C "Printing"), or the
   error class + message.  Numbers arrive as binary64 bit patterns; their classification
   ([num_of_f64]) and Display ([print_f64]) are computed here with Num.v / NumText.v.
   Definitions only; StrRunProofs.v relates [num_of_f64] to Num.to_isize / is_integral. *)
From Coq Require Import String.
From Coq Require Import List NArith ZArith Bool Arith.
From Coq Require Import Strings.Byte Floats.SpecFloat Uint63.
From YV Require Import Show Wire Utf8 Index StrFns StrSpec Num NumText.
Import ListNotations.
Local Open Scope nat_scope.
Local Open Scope string_scope.

(* ---------- values ---------- *)
Inductive atom : Type :=
| ANil
| ABool (b : bool)
| AF (x : f64)
| AS (s : list byte).

Inductive val : Type :=
| VA (a : atom)
| VVec (l : list atom)
| VTup (l : list atom)
| VRng (b e : atom).          (* the expression  b..e  (evaluated by [eval_val]) *)

(* ---------- numbers: f64 -> the abstraction used by Index.v ---------- *)
Definition num_of_f64 (x : f64) : num :=
  match x with
  | S754_nan => NumNonIntegral
  | S754_infinity s => NumInf s
  | S754_zero _ => NumInt 0
  | S754_finite s m e =>
    if is_integral x then NumInt (cond_Zopp s (trunc_mag m e)) else NumNonIntegral
  end.

(* ---------- Display (value.rs / object.rs fmt::Display), as bytes ---------- *)
Definition bs (s : string) : list byte := bytes_of_string s.

Definition disp_atom (a : atom) : list byte :=
  match a with
  | ANil => bs "nil"
  | ABool true => bs "true"
  | ABool false => bs "false"
  | AF x => print_f64 x
  | AS s => s
  end.

Fixpoint join_bytes (sep : list byte) (l : list (list byte)) : list byte :=
  match l with
  | [] => []
  | [x] => x
  | x :: r => (x ++ sep ++ join_bytes sep r)%list
  end.

Definition disp_vec (l : list (list byte)) : list byte :=
  (bs "[" ++ join_bytes (bs ", ") l ++ bs "]")%list.

Definition disp_tup (l : list (list byte)) : list byte :=
  match l with
  | [x] => (bs "(" ++ x ++ bs ",)")%list
  | _ => (bs "(" ++ join_bytes (bs ", ") l ++ bs ")")%list
  end.

Definition disp_range (b e : Z) : list byte :=
  bs ("Range(" ++ show_Z b ++ ", " ++ show_Z e ++ ")").

(* a usize / u8 / u32 cast to f64 and printed *)
Definition disp_int (z : Z) : list byte :=
  if (Z.abs z <? two53)%Z then bs (show_Z z) else print_f64 (f64_of_Z z).

Definition stop_iter_text : list byte := bs "<StopIter instance @ A>".   (* address masked *)

Definition disp_rvalue (r : rvalue) : list byte :=
  match r with
  | RNone => bs "nil"
  | RBool true => bs "true"
  | RBool false => bs "false"
  | RNum z => disp_int z
  | RStr s => s
  | RVecNum l => disp_vec (map disp_int l)
  | RVecStr l => disp_vec l
  | RStopIter => stop_iter_text
  end.

(* ---------- evaluated values and their view as model arguments ---------- *)
Inductive eval : Type :=
| EA (a : atom)
| EVec (l : list atom)
| ETup (l : list atom)
| ERng (b e : Z).

Definition disp_eval (v : eval) : list byte :=
  match v with
  | EA a => disp_atom a
  | EVec l => disp_vec (map disp_atom l)
  | ETup l => disp_tup (map disp_atom l)
  | ERng b e => disp_range b e
  end.

Definition shown_of (v : eval) : string := string_of_bytes (disp_eval v).

Definition idx_of_atom (a : atom) : idx :=
  match a with AF x => idx_of_num (num_of_f64 x) | _ => INotNumber end.

(* utils.rs validate_integer on an atom; the Display text is only computed for the error message *)
Definition int_of_atom (a : atom) : result Z err :=
  match idx_of_atom a with
  | IInt z => Ok z
  | i => validate_integer (string_of_bytes (disp_atom a)) i
  end.

(* vm.rs build_range_impl: pops (and validates) the end first, then the begin *)
Definition eval_val (v : val) : result eval err :=
  match v with
  | VA a => Ok (EA a)
  | VVec l => Ok (EVec l)
  | VTup l => Ok (ETup l)
  | VRng b e => bind (int_of_atom e) (fun ze => bind (int_of_atom b) (fun zb => Ok (ERng zb ze)))
  end.

Fixpoint eval_vals (l : list val) : result (list eval) err :=
  match l with
  | [] => Ok []
  | v :: r => bind (eval_val v) (fun e => bind (eval_vals r) (fun er => Ok (e :: er)))
  end.

Definition elem_of_atom (a : atom) : elem :=
  match a with
  | AF x => ENum (num_of_f64 x) (string_of_bytes (print_f64 x))
  | _ => EOther (string_of_bytes (disp_atom a))
  end.

Definition argv_of_eval (v : eval) : argv :=
  match v with
  | EA (AF x) => ANum (num_of_f64 x)
  | EA (AS s) => AStr s
  | EA _ => AOther
  | EVec l => AVec (map elem_of_atom l)
  | ETup _ => AOther
  | ERng b e => ARange b e
  end.

(* a value prepared once per batch: its Display text (embedded in messages) and its view as a model
   argument are computed a single time and shared by all probes that use it *)
Record pv : Type := mkPV { pe : eval; psh : string; parg : arg }.
Definition prep (v : eval) : pv := let sh := shown_of v in mkPV v sh (mkArg (argv_of_eval v) sh).

(* ---------- outcome of a probe: printed lines or an error ---------- *)
Definition outcome := result (list (list byte)) err.

Definition one (r : res) : outcome :=
  match r with Ok v => Ok [disp_rvalue v] | Error e => Error e end.

Definition not_indexable (v : pv) : err :=
  TypeError ("Value '" ++ psh v ++ "' is not indexable.").

Fixpoint replace_nth {A} (l : list A) (i : nat) (x : A) : list A :=
  match l, i with
  | [], _ => []
  | _ :: r, O => x :: r
  | y :: r, S k => y :: replace_nth r k x
  end.

(* s.iter(); n calls of next() *)
Definition iter_manual (s : list byte) (n : nat) : outcome :=
  (fix go (l : list res) : outcome :=
     match l with
     | [] => Ok []
     | Ok v :: r => bind (go r) (fun t => Ok (disp_rvalue v :: t))
     | Error e :: _ => Error e
     end) (iter_collect s 0 n).

(* for c in s { print(c); } : next() until StopIter *)
Fixpoint for_loop (s : list byte) (pos : nat) (fuel : nat) : outcome :=
  match fuel with
  | O => Error (RustPanic "for loop did not stop")
  | S f =>
    match string_iter_next s pos [] with
    | (Ok RStopIter, _) => Ok []
    | (Ok v, p) => bind (for_loop s p f) (fun t => Ok (disp_rvalue v :: t))
    | (Error e, _) => Error e
    end
  end.

(* String::parse::<f64> modelled by NumText.parse_f64 (Rust-std contract) *)
Definition to_num (s : list byte) (args : list arg) : outcome :=
  bind (check_num_args (List.length args) 0) (fun _ =>
  match parse_f64 s with
  | Some x => Ok [print_f64 x]
  | None => Error (ValueError ("Unable to parse number from '" ++ string_of_bytes s ++ "'."))
  end).

Definition string_from (args : list pv) : outcome :=
  bind (check_num_args (List.length args) 1) (fun _ =>
  match args with [v] => Ok [disp_eval (pe v)] | _ => Error index_panic end).

(* function ids (shared with tools/props/C13.py) *)
Definition F_index := 0%N.        Definition F_len := 3%N.
Definition F_is_alpha := 4%N.     Definition F_is_digit := 5%N.     Definition F_is_hexdigit := 6%N.
Definition F_count_chars := 7%N.  Definition F_char_byte_index := 8%N.
Definition F_find := 9%N.         Definition F_replace := 10%N.     Definition F_split := 11%N.
Definition F_starts_with := 12%N. Definition F_ends_with := 13%N.   Definition F_to_num := 14%N.
Definition F_to_bytes := 15%N.    Definition F_to_code_points := 16%N.
Definition F_from_ascii := 17%N.  Definition F_from_utf8 := 18%N.   Definition F_from_code_points := 19%N.
Definition F_iter_manual := 20%N. Definition F_iter_next_args := 21%N.
Definition F_for := 22%N.         Definition F_set_item := 23%N.    Definition F_from := 24%N.
Definition F_value := 25%N.       (* just print the receiver (range construction, Display) *)

(* ---------- Mechanism ---------- *)
Definition mech_index (recv : pv) (a : arg) : outcome :=
  match pe recv with
  | EA (AS s) => one (string_get_item s a)
  | EVec l =>
    match slice_get_item l "Vec" a with
    | Ok (Scalar x) => Ok [disp_atom x]
    | Ok (Slice t) => Ok [disp_eval (EVec t)]
    | Error e => Error e
    end
  | ETup l =>
    match slice_get_item l "Tuple" a with
    | Ok (Scalar x) => Ok [disp_atom x]
    | Ok (Slice t) => Ok [disp_eval (ETup t)]
    | Error e => Error e
    end
  | _ => Error (not_indexable recv)
  end.

(* vm.rs set_item_impl on a Vec receiver:  v[i] = x; print(v) *)
Definition mech_set_item (l : list atom) (a : arg) (x : atom) : outcome :=
  match bounded_index "Vec" (shown a) (idx_of_arg a) (Z.of_nat (List.length l)) with
  | Ok i => Ok [disp_eval (EVec (replace_nth l i x))]
  | Error e => Error e
  end.

Definition mech_string (f : N) (s : list byte) (extra : nat) (ev : list pv) : outcome :=
  let args := map parg ev in
  if N.eqb f F_len then one (string_len s args)
  else if N.eqb f F_is_alpha then one (string_is_alpha s args)
  else if N.eqb f F_is_digit then one (string_is_digit s args)
  else if N.eqb f F_is_hexdigit then one (string_is_hexdigit s args)
  else if N.eqb f F_count_chars then one (string_count_chars s args)
  else if N.eqb f F_char_byte_index then one (string_char_byte_index s args)
  else if N.eqb f F_find then one (string_find s args)
  else if N.eqb f F_replace then one (string_replace s args)
  else if N.eqb f F_split then one (string_split s args)
  else if N.eqb f F_starts_with then one (string_starts_with s args)
  else if N.eqb f F_ends_with then one (string_ends_with s args)
  else if N.eqb f F_to_num then to_num s args
  else if N.eqb f F_to_bytes then one (string_to_bytes s args)
  else if N.eqb f F_to_code_points then one (string_to_code_points s args)
  else if N.eqb f F_iter_manual then iter_manual s extra
  else if N.eqb f F_iter_next_args then one (fst (string_iter_next s 0 args))
  else if N.eqb f F_for then for_loop s 0 (S (List.length s))
  else Error (RustPanic "unknown function id").

Definition mech_eval (f : N) (extra : nat) (recv : pv) (ev : list pv) : outcome :=
  if N.eqb f F_index then
    match ev with [a] => mech_index recv (parg a) | _ => Error (RustPanic "bad probe") end
  else if N.eqb f F_set_item then
    match pe recv, ev with
    | EVec l, [a; x] =>
      match pe x with EA x' => mech_set_item l (parg a) x' | _ => Error (RustPanic "bad probe") end
    | _, _ => Error (RustPanic "bad probe")
    end
  else if N.eqb f F_from_ascii then one (string_from_ascii (map parg ev))
  else if N.eqb f F_from_utf8 then one (string_from_utf8 (map parg ev))
  else if N.eqb f F_from_code_points then one (string_from_code_points (map parg ev))
  else if N.eqb f F_from then string_from ev
  else if N.eqb f F_value then Ok [disp_eval (pe recv)]
  else
    match pe recv with
    | EA (AS s) => mech_string f s extra ev
    | _ => Error (RustPanic "bad probe")
    end.

(* receiver and arguments are evaluated left to right; the first failing range construction wins *)
Fixpoint all_ok (l : list (result pv err)) : result (list pv) err :=
  match l with
  | [] => Ok []
  | Ok v :: r => bind (all_ok r) (fun t => Ok (v :: t))
  | Error e :: _ => Error e
  end.

Definition prep_val (v : val) : result pv err :=
  match eval_val v with Ok e => Ok (prep e) | Error e => Error e end.

Definition mech_p (f : N) (extra : nat) (recv : result pv err) (args : list (result pv err)) : outcome :=
  bind recv (fun r => bind (all_ok args) (fun ev => mech_eval f extra r ev)).

Definition mech (f : N) (extra : nat) (recv : val) (args : list val) : outcome :=
  mech_p f extra (prep_val recv) (map prep_val args).

(* ---------- Spec ---------- *)
Definition spec_arity (found expected : nat) : result unit err :=
  if Nat.eqb found expected then Ok tt
  else Error (TypeError ("Expected " ++ show_nat expected ++ " parameter"
                         ++ (if Nat.eqb expected 1 then "" else "s")
                         ++ " but found " ++ show_nat found ++ ".")).

Definition spec_want_string (v : pv) : result (list byte) err :=
  match pe v with
  | EA (AS t) => Ok t
  | _ => Error (TypeError ("Expected a string but found '" ++ psh v ++ "'."))
  end.

Definition spec_want_vec (v : pv) : result (list atom) err :=
  match pe v with
  | EVec l => Ok l
  | _ => Error (TypeError ("Expected a Vec instance but found '" ++ psh v ++ "'."))
  end.

Definition idx_of_eval (v : pv) : idx :=
  match pe v with EA a => idx_of_atom a | _ => INotNumber end.

Definition lines_str (r : result (list byte) err) : outcome :=
  match r with Ok t => Ok [t] | Error e => Error e end.

Definition spec_index_any (recv : pv) (a : pv) : outcome :=
  match pe recv with
  | EA (AS s) =>
    match pe a with
    | EA (AF x) => lines_str (spec_string_index s (psh a) (idx_of_num (num_of_f64 x)))
    | ERng rb re => lines_str (spec_string_range s rb re)
    | _ => Error (TypeError "Expected an integer or range.")
    end
  | EVec l =>
    match pe a with
    | EA (AF x) =>
      match spec_seq_index l "Vec" (psh a) (idx_of_num (num_of_f64 x)) with
      | Ok y => Ok [disp_atom y] | Error e => Error e end
    | ERng rb re =>
      match spec_seq_range l "Vec" rb re with
      | Ok t => Ok [disp_eval (EVec t)] | Error e => Error e end
    | _ => Error (TypeError "Expected an integer or range.")
    end
  | ETup l =>
    match pe a with
    | EA (AF x) =>
      match spec_seq_index l "Tuple" (psh a) (idx_of_num (num_of_f64 x)) with
      | Ok y => Ok [disp_atom y] | Error e => Error e end
    | ERng rb re =>
      match spec_seq_range l "Tuple" rb re with
      | Ok t => Ok [disp_eval (ETup t)] | Error e => Error e end
    | _ => Error (TypeError "Expected an integer or range.")
    end
  | _ => Error (not_indexable recv)
  end.

Definition spec_set_item (l : list atom) (a : pv) (x : atom) : outcome :=
  match idx_of_eval a with
  | IInt z =>
    match spec_index z (Z.of_nat (List.length l)) with
    | Some k => Ok [disp_eval (EVec (firstn k l ++ x :: skipn (S k) l)%list)]
    | None => Error (oob "Vec")
    end
  | i => Error (int_error (psh a) i)
  end.

(* elements of a Vec argument: the first offending element decides the error *)
Fixpoint spec_elems (hi : Z) (l : list atom) : result (list N) err :=
  match l with
  | [] => Ok []
  | AF x :: r =>
    match num_of_f64 x with
    | NumInt z =>
      if ((0 <=? z) && (z <=? hi))%Z
      then bind (spec_elems hi r) (fun t => Ok (Z.to_N z :: t))
      else Error (ValueError ("Expected a positive integer less than "
                              ++ show_Z (if (hi =? 255)%Z then 256 else hi)
                              ++ " but found '" ++ string_of_bytes (print_f64 x) ++ "'."))
    | _ => Error (ValueError ("Expected a positive integer less than "
                              ++ show_Z (if (hi =? 255)%Z then 256 else hi)
                              ++ " but found '" ++ string_of_bytes (print_f64 x) ++ "'."))
    end
  | a :: _ => Error (TypeError ("Expected a number but found '" ++ string_of_bytes (disp_atom a) ++ "'."))
  end.

(* length of the longest valid prefix of an ill-formed byte sequence *)
Definition longest_valid_prefix (b : list byte) : nat :=
  fold_left (fun best k => if valid_utf8 (firstn k b) then k else best) (seq 0 (S (List.length b))) 0.

(* the definitional from_ascii mapping (tests/scripts/string/from_ascii.yl): bytes >= 128 become
   U+00C0 + (b mod 64), i.e. the two bytes C3, b & BF *)
Definition spec_from_ascii_cp (z : N) : N := if (z <? 128)%N then z else (192 + z mod 64)%N.

Definition first_bad_cp (cps : list N) : option N :=
  List.find (fun c => match encode_cp c with None => true | Some _ => false end) cps.

Definition bool_line (b : bool) : outcome := Ok [bs (if b then "true" else "false")].
Definition int_line (n : nat) : outcome := Ok [disp_int (Z.of_nat n)].
Definition ints_line (l : list N) : outcome := Ok [disp_vec (map (fun n => disp_int (Z.of_N n)) l)].

Definition spec_string (f : N) (s : list byte) (extra : nat) (ev : list pv) : outcome :=
  let n := List.length ev in
  if N.eqb f F_len then bind (spec_arity n 0) (fun _ => int_line (List.length s))
  else if N.eqb f F_is_alpha then bind (spec_arity n 0) (fun _ => bool_line (spec_classify byte_is_alpha s))
  else if N.eqb f F_is_digit then bind (spec_arity n 0) (fun _ => bool_line (spec_classify byte_is_digit s))
  else if N.eqb f F_is_hexdigit then bind (spec_arity n 0) (fun _ => bool_line (spec_classify byte_is_hexdigit s))
  else if N.eqb f F_count_chars then bind (spec_arity n 0) (fun _ => int_line (spec_count_chars s))
  else if N.eqb f F_char_byte_index then
    bind (spec_arity n 1) (fun _ =>
    match ev with
    | [a] => match spec_char_byte_index s (psh a) (idx_of_eval a) with
             | Ok i => int_line i | Error e => Error e end
    | _ => Error (RustPanic "unreachable")
    end)
  else if N.eqb f F_find then
    bind (spec_arity n 2) (fun _ =>
    match ev with
    | [asub; astart] =>
      bind (spec_want_string asub) (fun sub =>
      match spec_find s sub (psh astart) (idx_of_eval astart) with
      | Ok (Some i) => int_line i
      | Ok None => Ok [bs "nil"]
      | Error e => Error e
      end)
    | _ => Error (RustPanic "unreachable")
    end)
  else if N.eqb f F_replace then
    bind (spec_arity n 2) (fun _ =>
    match ev with
    | [aold; anew] =>
      bind (spec_want_string aold) (fun old =>
      match old with
      | [] => Error (ValueError "Cannot replace empty string.")
      | _ :: _ => bind (spec_want_string anew) (fun new => Ok [join new (split_bytes old s)])
      end)
    | _ => Error (RustPanic "unreachable")
    end)
  else if N.eqb f F_split then
    bind (spec_arity n 1) (fun _ =>
    match ev with
    | [ad] =>
      bind (spec_want_string ad) (fun d =>
      match d with
      | [] => Error (ValueError "Cannot split using an empty string.")
      | _ :: _ => Ok [disp_vec (split_bytes d s)]
      end)
    | _ => Error (RustPanic "unreachable")
    end)
  else if N.eqb f F_starts_with then
    bind (spec_arity n 1) (fun _ =>
    match ev with
    | [a] => bind (spec_want_string a) (fun p => bool_line (spec_starts_with s p))
    | _ => Error (RustPanic "unreachable")
    end)
  else if N.eqb f F_ends_with then
    bind (spec_arity n 1) (fun _ =>
    match ev with
    | [a] => bind (spec_want_string a) (fun p => bool_line (spec_ends_with s p))
    | _ => Error (RustPanic "unreachable")
    end)
  else if N.eqb f F_to_num then
    bind (spec_arity n 0) (fun _ =>
    match parse_f64 s with
    | Some x => Ok [print_f64 x]
    | None => Error (ValueError ("Unable to parse number from '" ++ string_of_bytes s ++ "'."))
    end)
  else if N.eqb f F_to_bytes then bind (spec_arity n 0) (fun _ => ints_line (spec_to_bytes s))
  else if N.eqb f F_to_code_points then bind (spec_arity n 0) (fun _ => ints_line (spec_to_code_points s))
  else if N.eqb f F_iter_manual then
    Ok (firstn extra (spec_iter s ++ repeat stop_iter_text extra)%list)
  else if N.eqb f F_iter_next_args then
    bind (spec_arity n 0) (fun _ =>
    match spec_iter s with c :: _ => Ok [c] | [] => Ok [stop_iter_text] end)
  else if N.eqb f F_for then Ok (spec_iter s)
  else Error (RustPanic "unknown function id").

Definition spec_eval (f : N) (extra : nat) (recv : pv) (ev : list pv) : outcome :=
  let n := List.length ev in
  if N.eqb f F_index then
    match ev with [a] => spec_index_any recv a | _ => Error (RustPanic "bad probe") end
  else if N.eqb f F_set_item then
    match pe recv, ev with
    | EVec l, [a; x] =>
      match pe x with EA x' => spec_set_item l a x' | _ => Error (RustPanic "bad probe") end
    | _, _ => Error (RustPanic "bad probe")
    end
  else if N.eqb f F_from_ascii then
    bind (spec_arity n 1) (fun _ =>
    match ev with
    | [a] =>
      bind (spec_want_vec a) (fun l =>
      bind (spec_elems 255 l) (fun bytes =>
      Ok [concat (map (fun b => enc1 (spec_from_ascii_cp b)) bytes)]))
    | _ => Error (RustPanic "unreachable")
    end)
  else if N.eqb f F_from_utf8 then
    bind (spec_arity n 1) (fun _ =>
    match ev with
    | [a] =>
      bind (spec_want_vec a) (fun l =>
      bind (spec_elems 255 l) (fun bytes =>
      match spec_from_utf8 bytes with
      | Some t => Ok [t]
      | None =>
        let b := map Nb bytes in
        let i := longest_valid_prefix b in
        Error (ValueError ("Invalid Unicode encountered at byte " ++ show_N (nth i bytes 0%N)
                           ++ " with index " ++ show_nat i ++ "."))
      end))
    | _ => Error (RustPanic "unreachable")
    end)
  else if N.eqb f F_from_code_points then
    bind (spec_arity n 1) (fun _ =>
    match ev with
    | [a] =>
      bind (spec_want_vec a) (fun l =>
      (* element checks run left to right, interleaved with the code-point check *)
      (fix go (l : list atom) : outcome :=
         match l with
         | [] => Ok [[]]
         | x :: r =>
           bind (spec_elems 4294967295 [x]) (fun c1 =>
           match spec_from_code_points c1 with
           | None => Error (ValueError ("Expected a valid Unicode code point but found '"
                                        ++ show_N (hd 0%N c1) ++ "'."))
           | Some t1 =>
             match go r with
             | Ok [t] => Ok [(t1 ++ t)%list]
             | Ok _ => Error (RustPanic "unreachable")
             | Error e => Error e
             end
           end)
         end) l)
    | _ => Error (RustPanic "unreachable")
    end)
  else if N.eqb f F_from then
    bind (spec_arity n 1) (fun _ => match ev with [v] => Ok [disp_eval (pe v)] | _ => Error (RustPanic "unreachable") end)
  else if N.eqb f F_value then Ok [disp_eval (pe recv)]
  else
    match pe recv with
    | EA (AS s) => spec_string f s extra ev
    | _ => Error (RustPanic "bad probe")
    end.

(* range construction: the Spec states the same rule (end checked first) *)
Definition spec_p (f : N) (extra : nat) (recv : result pv err) (args : list (result pv err)) : outcome :=
  bind recv (fun r => bind (all_ok args) (fun ev => spec_eval f extra r ev)).

Definition spec (f : N) (extra : nat) (recv : val) (args : list val) : outcome :=
  spec_p f extra (prep_val recv) (map prep_val args).

(* ---------- rendering and the wire format ---------- *)
Definition kind_name (e : err) : string :=
  match e with TypeError _ => "TypeError" | ValueError _ => "ValueError"
             | IndexError _ => "IndexError" | RustPanic _ => "PANIC" end.
Definition err_msg (e : err) : string :=
  match e with TypeError m | ValueError m | IndexError m | RustPanic m => m end.

Definition show_outcome (o : outcome) : string :=
  match o with
  | Ok ls => "O" ++ show_sep "," (fun l => "=" ++ hex_of_bytes l) ls
  | Error e => "E" ++ kind_name e ++ ":" ++ hex_of_bytes (bytes_of_string (err_msg e))
  end.

Definition atom_of_group (g : list N) : atom :=
  match g with
  | 1%N :: b :: _ => AF (f64_of_bits (Z.of_N b))
  | 2%N :: t => AS (bytes_of_Ns t)
  | 3%N :: b :: _ => ABool (negb (N.eqb b 0))
  | _ => ANil
  end.

Fixpoint parse_vals (fuel : nat) (gs : list (list N)) : list val :=
  match fuel with
  | O => []
  | S f =>
    match gs with
    | [] => []
    | (4%N :: n :: _) :: r =>
      VVec (map atom_of_group (firstn (N.to_nat n) r)) :: parse_vals f (skipn (N.to_nat n) r)
    | (5%N :: n :: _) :: r =>
      VTup (map atom_of_group (firstn (N.to_nat n) r)) :: parse_vals f (skipn (N.to_nat n) r)
    | (6%N :: _) :: b :: e :: r => VRng (atom_of_group b) (atom_of_group e) :: parse_vals f r
    | g :: r => VA (atom_of_group g) :: parse_vals f r
    end
  end.

(* a batch  "<values> | <rows>" : the value table is a stream of groups read by [parse_vals]; a row is a
   header group  "f extra receiver k mode"  followed by k groups of table indices; it stands for one probe
   per element of the cartesian product of the k lists (first list outermost).  mode 1: k = 2 and the pair
   (b, e) is turned into the single argument  b..e . *)
Definition bad_ref : result pv err := Error (RustPanic "bad value reference").

Fixpoint cart {A} (ls : list (list A)) : list (list A) :=
  match ls with
  | [] => [[]]
  | l :: r => let cr := cart r in flat_map (fun x => map (cons x) cr) l
  end.

Definition rng_of (args : list (result pv err)) : list (result pv err) :=
  match args with
  | [Ok b; Ok e] =>
    match pe b, pe e with
    | EA x, EA y => [prep_val (VRng x y)]
    | _, _ => [bad_ref]
    end
  | _ => [bad_ref]
  end.

Fixpoint rows_outcomes (which : bool) (tbl : list (result pv err)) (fuel : nat) (gs : list (list N)) : list outcome :=
  match fuel with
  | O => []
  | S fu =>
    match gs with
    | (f :: extra :: r :: k :: mode :: _) :: rest =>
      let get := fun i => nth (N.to_nat i) tbl bad_ref in
      let recv := get r in
      let lists := map (map get) (firstn (N.to_nat k) rest) in
      let outs := map (fun args =>
                         let args' := if N.eqb mode 1 then rng_of args else args in
                         (if which then mech_p else spec_p) f (N.to_nat extra) recv args')
                      (cart lists) in
      (outs ++ rows_outcomes which tbl fu (skipn (N.to_nat k) rest))%list
    | _ => []
    end
  end.

Definition batch_outcomes (which : bool) (w : string) : list outcome :=
  match split_bar w with
  | [tw; pw] =>
    let vals := parse_nss tw in
    let tbl := map prep_val (parse_vals (S (List.length vals)) vals) in
    let rows := parse_nss pw in
    rows_outcomes which tbl (S (List.length rows)) rows
  | _ => []
  end.

(* full rendering (slow to print: used for the few probes that have to be shown) *)
Definition run_mech_w (w : string) : string := show_sep "|" show_outcome (batch_outcomes true w).
Definition run_spec_w (w : string) : string := show_sep "|" show_outcome (batch_outcomes false w).

(* ---------- digests: FNV-1a style (mod 2^63) of the canonical bytes of an outcome ---------- *)
Definition canon (o : outcome) : list byte :=
  match o with
  | Ok ls => ("O"%byte :: concat (map (fun l => l ++ [x0a])%list ls))%list
  | Error e => bs (kind_name e ++ ":" ++ err_msg e)
  end.

(* machine integers (Uint63, arithmetic mod 2^63) only here, for speed; nothing is proved about the digest *)
Definition dg_init : int := 2166136261%uint63.
Definition dg_step (h : int) (b : byte) : int :=
  Uint63.mul (Uint63.lxor h (Uint63.of_Z (Z.of_N (Byte.to_N b)))) 1099511628211%uint63.
Definition dg (h : int) (l : list byte) : int := fold_left dg_step l h.
Definition dg_outcome (o : outcome) : Z := Uint63.to_Z (dg dg_init (canon o)).
(* chained over a batch: each outcome is followed by one FF byte *)
Definition dg_chain (l : list outcome) : Z :=
  Uint63.to_Z (fold_left (fun h o => dg_step (dg h (canon o)) xff) l dg_init).

Fixpoint count_diff (a b : list outcome) : nat :=
  match a, b with
  | x :: a', y :: b' => (if bytes_eqb (canon x) (canon y) then 0 else 1) + count_diff a' b'
  | _, _ => 0
  end.

(* "<number of probes>,<digest of all M outcomes>,<digest of all S outcomes>,<number of probes with M <> S>" *)
Definition run_digest_w (w : string) : string :=
  let ms := batch_outcomes true w in
  let ss := batch_outcomes false w in
  show_nat (List.length ms) ++ "," ++ show_Z (dg_chain ms) ++ "," ++ show_Z (dg_chain ss) ++ ","
  ++ show_nat (count_diff ms ss).

(* per probe: "<digest M>" or "<digest M>!<digest S>" when they differ *)
Definition run_detail_w (w : string) : string :=
  let ms := batch_outcomes true w in
  let ss := batch_outcomes false w in
  show_sep "|" (fun p => let '(m, s) := p in
                         let dm := dg_outcome m in let ds := dg_outcome s in
                         if Z.eqb dm ds then show_Z dm else show_Z dm ++ "!" ++ show_Z ds)
           (combine ms ss).

(* UTF-8 validity of printed byte strings: groups of bytes -> "T"/"F" per group *)
Definition run_valid_w (w : string) : string :=
  show_sep "" (fun g => show_bool (valid_utf8 (bytes_of_Ns g))) (parse_nss w).
