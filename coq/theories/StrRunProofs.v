(* C13 - the number abstraction of Index.v agrees with binary64 (Num.v): for EVERY spec_float,
   [idx_of_num (num_of_f64 x)] is what utils.rs validate_integer computes ([n.trunc() != n] -> error,
   else [n as isize], saturating), and hence [bounded_index_exact] holds over all floats. *)
From Coq Require Import String List ZArith Bool Lia.
From Coq Require Import Floats.SpecFloat.
From YV Require Import Index IndexProofs Num StrFns StrRun.
Local Open Scope Z_scope.

Lemma sat_isize_clamp : forall z, sat_isize z = clamp (- two63) (two63 - 1) z.
Proof. intro z. reflexivity. Qed.

Lemma idx_of_f64 : forall x,
  idx_of_num (num_of_f64 x) = if is_integral x then IInt (to_isize x) else INotIntegral.
Proof.
  intros [s | s | | s m e].
  - reflexivity.
  - destruct s; reflexivity.
  - reflexivity.
  - unfold num_of_f64. destruct (is_integral (S754_finite s m e)); reflexivity.
Qed.

Theorem bounded_index_all_floats : forall kind shown x b,
  0 <= b <= isize_max ->
  bounded_index kind shown (idx_of_num (num_of_f64 x)) b =
  if is_integral x then
    match spec_index (to_isize x) b with
    | Some k => Ok k
    | None => Error (IndexError (kind ++ " index out of bounds."))
    end
  else Error (ValueError ("Expected an integer value but found '" ++ shown ++ "'.")).
Proof.
  intros kind shown x b Hb.
  rewrite (bounded_index_exact kind shown _ b Hb (idx_of_num_wf _)).
  rewrite idx_of_f64. destruct (is_integral x); reflexivity.
Qed.

Print Assumptions bounded_index_all_floats.
