(* Specification (S) of the C13 string operations: the simplest possible definitions over the
   characters ([chars]) / code points ([decode]) / char-start offsets ([boundaries]) of a string.
   No byte cursors, no scanning for continuation bytes.  Definitions only (proofs: StrProofs.v).
   Errors: the documented error class and message (as fixed by the yarel test-suite). *)
From Coq Require Import String.
From Coq Require Import List NArith ZArith Bool Arith.
From Coq Require Import Strings.Byte.
From YV Require Import Show Utf8 Index.
Import ListNotations.
Local Open Scope string_scope.
Local Open Scope nat_scope.

(* the character whose first byte is at byte offset [off]; None if [off] is not the first byte of a
   character of [cs] *)
Fixpoint char_at (cs : list (list byte)) (off : nat) : option (list byte) :=
  match cs with
  | [] => None
  | c :: r =>
    if Nat.eqb off 0 then Some c
    else if off <? length c then None
    else char_at r (off - length c)
  end.

Definition is_boundary_spec (s : list byte) (i : nat) : bool := existsb (Nat.eqb i) (boundaries s).

Definition sub_bytes (s : list byte) (b e : nat) : list byte := firstn (e - b) (skipn b s).

Definition oob (kind : string) : err := IndexError (kind ++ " index out of bounds.").
Definition not_boundary (desc : string) : err :=
  IndexError ("Provided " ++ desc ++ " is not on a character boundary.").
Definition int_error (shown : string) (i : idx) : err :=
  match i with
  | INotNumber => TypeError ("Expected an integer value but found '" ++ shown ++ "'.")
  | _ => ValueError ("Expected an integer value but found '" ++ shown ++ "'.")
  end.

(* ---- s[i] : byte offset i (negative: from the end) must be the first byte of a character ---- *)
Definition spec_string_index (s : list byte) (shown : string) (i : idx) : result (list byte) err :=
  match i with
  | IInt z =>
    match spec_index z (Z.of_nat (length s)) with
    | None => Error (oob "String")
    | Some off =>
      match char_at (chars s) off with
      | Some c => Ok c
      | None => Error (not_boundary "string index")
      end
    end
  | _ => Error (int_error shown i)
  end.

(* ---- s[b..e] ---- *)
Definition spec_string_range (s : list byte) (rb re : Z) : result (list byte) err :=
  let n := Z.of_nat (length s) in
  let b := norm_pos rb n in
  let e := norm_pos re n in
  if negb ((0 <=? b) && (b <? n))%Z then Error (IndexError "String slice start out of range.")
  else if negb ((0 <=? e) && (e <=? n))%Z then Error (IndexError "String slice end out of range.")
  else
    let b' := Z.to_nat b in
    let e' := Z.to_nat (Z.max b e) in
    if negb (is_boundary_spec s b') then Error (not_boundary "string slice start")
    else if negb (is_boundary_spec s e') then Error (not_boundary "string slice end")
    else Ok (sub_bytes s b' e').

(* ---- v[i], v[b..e] on Vec / Tuple ---- *)
Definition spec_seq_index {A} (v : list A) (kind shown : string) (i : idx) : result A err :=
  match i with
  | IInt z =>
    match spec_index z (Z.of_nat (length v)) with
    | None => Error (oob kind)
    | Some k => match nth_error v k with Some x => Ok x | None => Error (oob kind) end
    end
  | _ => Error (int_error shown i)
  end.

Definition spec_seq_range {A} (v : list A) (kind : string) (rb re : Z) : result (list A) err :=
  let n := Z.of_nat (length v) in
  let b := norm_pos rb n in
  let e := norm_pos re n in
  if negb ((0 <=? b) && (b <? n))%Z then Error (IndexError (kind ++ " slice start out of range."))
  else if negb ((0 <=? e) && (e <=? n))%Z then Error (IndexError (kind ++ " slice end out of range."))
  else Ok (firstn (Z.to_nat (Z.max b e) - Z.to_nat b) (skipn (Z.to_nat b) v)).

(* ---- iteration ---- *)
Definition spec_iter (s : list byte) : list (list byte) := chars s.

(* ---- count_chars, char_byte_index ---- *)
Definition spec_count_chars (s : list byte) : nat := length (chars s).

(* byte offset of the k-th character = total byte length of the first k characters *)
Definition spec_char_offset (s : list byte) (k : nat) : nat := length (concat (firstn k (chars s))).

Definition spec_char_byte_index (s : list byte) (shown : string) (i : idx) : result nat err :=
  match i with
  | IInt z =>
    match spec_index z (Z.of_nat (length (chars s))) with
    | None => Error (oob "String")
    | Some k => Ok (spec_char_offset s k)
    end
  | _ => Error (int_error shown i)
  end.

(* ---- find ---- *)
Definition occurs_at (s sub : list byte) (i : nat) : bool :=
  bytes_eqb (firstn (length sub) (skipn i s)) sub.

(* least byte offset i with start <= i < length s at which sub occurs *)
Definition spec_find_from (s sub : list byte) (start : nat) : option nat :=
  List.find (occurs_at s sub) (seq start (length s - start)).

Definition spec_find (s sub : list byte) (shown : string) (i : idx) : result (option nat) err :=
  match sub with
  | [] => Error (ValueError "Cannot find empty string.")
  | _ :: _ =>
    match i with
    | IInt z =>
      match spec_index z (Z.of_nat (length s)) with
      | None => Error (oob "String")
      | Some start =>
        if is_boundary_spec s start then Ok (spec_find_from s sub start)
        else Error (not_boundary "string index")
      end
    | _ => Error (int_error shown i)
    end
  end.

(* ---- classification: on bytes ---- *)
Definition byte_is_alpha (b : byte) : bool :=
  ((65 <=? bN b) && (bN b <=? 90) || (97 <=? bN b) && (bN b <=? 122))%N.
Definition byte_is_digit (b : byte) : bool := ((48 <=? bN b) && (bN b <=? 57))%N.
Definition byte_is_hexdigit (b : byte) : bool :=
  (byte_is_digit b || (65 <=? bN b) && (bN b <=? 70) || (97 <=? bN b) && (bN b <=? 102))%N.

Definition spec_classify (p : byte -> bool) (s : list byte) : bool :=
  negb (Nat.eqb (length s) 0) && forallb p s.

(* ---- starts_with / ends_with ---- *)
Definition spec_starts_with (s p : list byte) : bool := bytes_eqb (firstn (length p) s) p.
Definition spec_ends_with (s p : list byte) : bool :=
  (length p <=? length s) && bytes_eqb (skipn (length s - length p) s) p.

(* ---- conversions ---- *)
Definition spec_to_bytes (s : list byte) : list N := map bN s.
Definition spec_to_code_points (s : list byte) : list N := code_points s.
Definition spec_from_utf8 (bytes : list N) : option (list byte) :=
  if forallb (fun n => n <? 256)%N bytes && valid_utf8 (map Nb bytes) then Some (map Nb bytes) else None.
Definition spec_from_code_points (cps : list N) : option (list byte) := encode cps.

(* join: inverse of split *)
Fixpoint join (d : list byte) (l : list (list byte)) : list byte :=
  match l with
  | [] => []
  | [x] => x
  | x :: r => (x ++ d ++ join d r)%list
  end.
