(* C03 (compilation is total): proofs about the scanner and parser models that are not in
   ScannerProofs.v / ParserProofs.v.
   1. the keyword trie of Scanner.identifier_type IS the table C03Run.keywords_ref;
   2. token lines: every token of scan_all carries a line >= 1 (lines only grow);
   3. scan_all ends with the only Eof and is short (restated from ScannerProofs);
   4. first_error_has_line: a first error of the parser model carries a line >= 1
      (token-line invariant through every function of Parser.v; model_error is unreachable with rules_ref). *)
From Coq Require Import Strings.Byte Strings.String.
From Coq Require Import List NArith Bool Arith Lia.
From YV Require Import Utf8 Scanner ScannerProofs ParserRules C03Run.
Import ListNotations.

(* ------------------------------------------------------------------ *)
(* 1. keywords                                                          *)
(* ------------------------------------------------------------------ *)
Lemma bytes_eqb_length : forall a b, bytes_eqb a b = true -> length a = length b.
Proof.
  induction a as [|x a IH]; intros [|y b] H; cbn in *; try discriminate; auto.
  apply andb_true_iff in H. destruct H as [_ H]. f_equal. auto.
Qed.

Lemma check_keyword_1 : forall b t rest k,
  check_keyword (b :: t) 1 rest k = if bytes_eqb t (bs rest) then k else TIdentifier.
Proof.
  intros. unfold check_keyword. cbn [skipn length].
  destruct (bytes_eqb t (bs rest)) eqn:E.
  - apply bytes_eqb_length in E. rewrite E. cbn. rewrite Nat.eqb_refl. reflexivity.
  - rewrite andb_false_r. reflexivity.
Qed.
Lemma check_keyword_2 : forall b c t rest k,
  check_keyword (b :: c :: t) 2 rest k = if bytes_eqb t (bs rest) then k else TIdentifier.
Proof.
  intros. unfold check_keyword. cbn [skipn length].
  destruct (bytes_eqb t (bs rest)) eqn:E.
  - apply bytes_eqb_length in E. rewrite E. cbn. rewrite Nat.eqb_refl. reflexivity.
  - rewrite andb_false_r. reflexivity.
Qed.
Lemma check_keyword_3 : forall b c d t rest k,
  check_keyword (b :: c :: d :: t) 3 rest k = if bytes_eqb t (bs rest) then k else TIdentifier.
Proof.
  intros. unfold check_keyword. cbn [skipn length].
  destruct (bytes_eqb t (bs rest)) eqn:E.
  - apply bytes_eqb_length in E. rewrite E. cbn. rewrite Nat.eqb_refl. reflexivity.
  - rewrite andb_false_r. reflexivity.
Qed.

Definition kwt := Eval vm_compute in keyword_texts.
Lemma kwt_eq : kwt = keyword_texts.
Proof. vm_compute; reflexivity. Qed.

Ltac fin := rewrite ?check_keyword_1, ?check_keyword_2, ?check_keyword_3; cbn;
            repeat match goal with |- context [bytes_eqb ?t ?w] => destruct (bytes_eqb t w) eqn:?; try reflexivity end.

Ltac split_t :=
  match goal with
  | |- context [match ?t with nil => _ | cons _ _ => _ end] =>
    is_var t; destruct t as [|? ?];
    [try reflexivity | match goal with b : byte |- _ => destruct b end; try reflexivity]
  end.

Theorem identifier_type_table : forall lex, identifier_type lex = kw_lookup kwt lex.
Proof.
  intros [|b t]; [reflexivity|].
  destruct b; try reflexivity; unfold identifier_type; repeat split_t; fin.
Qed.
Print Assumptions identifier_type_table.

Theorem keywords_ref_starts : keywords_starts_ok keywords_ref = true.
Proof. vm_compute; reflexivity. Qed.

(* the table form, stated on the definition *)
Theorem identifier_type_keywords : forall lex, identifier_type lex = kw_lookup keyword_texts lex.
Proof. intros lex. rewrite identifier_type_table, kwt_eq. reflexivity. Qed.
Print Assumptions identifier_type_keywords.

Example identifier_type_keywords_ex :
  identifier_type (bs "while") = TWhile /\ identifier_type (bs "whilst") = TIdentifier.
Proof. split; reflexivity. Qed.

(* ------------------------------------------------------------------ *)
(* 2. token lines                                                       *)
(* ------------------------------------------------------------------ *)
Local Open Scope N_scope.
Lemma skip_ws_line : forall cs ic pos line cs' pos' line',
  skip_ws ic cs pos line = (cs', pos', line') -> line <= line'.
Proof.
  induction cs as [|c r IH]; intros ic pos line cs' pos' line' H; cbn [skip_ws] in H.
  - inversion H; lia.
  - repeat match type of H with
           | (if ?x then _ else _) = _ => destruct x
           | (match ?x with _ => _ end) = _ => destruct x
           end;
    try (inversion H; lia); try (apply IH in H; lia).
Qed.

Lemma string_loop_line : forall cs skip buf err pos line parens t st',
  string_loop cs skip buf err pos line parens = (t, st') -> line <= tline t /\ line <= s_line st'.
Proof.
  induction cs as [|c r IH]; intros skip buf err pos line parens t st' H; cbn [string_loop] in H.
  - inversion H; subst; cbn; lia.
  - cbv zeta in H.
    repeat match type of H with
           | (if ?x then _ else _) = _ => destruct x
           | (match ?x with _ => _ end) = _ => destruct x eqn:?
           | (let '(_, _) := ?x in _) = _ => destruct x eqn:?
           end;
    try (inversion H; subst; cbn; lia); try (apply IH in H; lia);
    try (destruct err; inversion H; subst; cbn; lia).
Qed.

Theorem scan_token_line : forall st t st',
  scan_token st = (t, st') -> s_line st <= tline t /\ s_line st <= s_line st'.
Proof.
  intros st t st' H. unfold scan_token in H.
  destruct (scan_token_start st) as [[t0 start] st0] eqn:E. inversion H; subst t0 st0. clear H.
  unfold scan_token_start in E.
  destruct (skip_ws false (s_rest st) (s_pos st) (s_line st)) as [[cs start0] line] eqn:Ews.
  apply skip_ws_line in Ews.
  destruct cs as [|c r]; [inversion E; subst; cbn; lia|].
  cbv zeta in E.
  assert (Hstr : forall a b ps tt stt, scan_string a b line ps = (tt, stt) -> line <= tline tt /\ line <= s_line stt).
  { intros a b ps tt stt Q. unfold scan_string in Q. apply string_loop_line in Q. exact Q. }
  repeat match type of E with
         | (if ?x then _ else _) = _ => destruct x
         | (let '(_, _) := scan_string ?a ?b ?c ?d in _) = _ =>
           let Q := fresh "Q" in destruct (scan_string a b c d) as [? ?] eqn:Q; apply Hstr in Q
         | (let '(_, _) := ?x in _) = _ => destruct x as [? ?]
         | (match ?x with _ => _ end) = _ => destruct x
         end;
  try (inversion E; subst; cbn; lia).
Qed.

Print Assumptions scan_token_line.

Lemma scan_loop_lines : forall fuel st,
  Forall (fun t => s_line st <= tline t) (scan_loop fuel st).
Proof.
  induction fuel as [|f IH]; intros st; cbn [scan_loop]; [constructor|].
  destruct (scan_token st) as [t st'] eqn:E.
  destruct (scan_token_line _ _ _ E) as [H1 H2].
  assert (R : Forall (fun x => s_line st <= tline x) (t :: scan_loop f st')).
  { constructor; [exact H1|]. eapply Forall_impl; [|apply IH]. cbn. intros a Ha. lia. }
  destruct (tk t); try exact R. constructor; [exact H1|constructor].
Qed.

(* every token the parser ever sees carries a line >= 1 *)
Theorem scan_all_lines : forall src, Forall (fun t => 1 <= tline t) (scan_all src).
Proof. intros src. unfold scan_all. apply (scan_loop_lines _ (init_sstate src)). Qed.
Print Assumptions scan_all_lines.

Local Close Scope N_scope.

(* ------------------------------------------------------------------ *)
(* 3. the token stream is finite and ends with the only Eof             *)
(* ------------------------------------------------------------------ *)
Theorem scan_all_ends_with_eof : forall src,
  exists l t, scan_all src = l ++ [t] /\ tk t = TEof /\ Forall (fun x => tk x <> TEof) l.
Proof.
  intros src. destruct (scan_all_spec src) as [l [t [H1 [H2 [H3 _]]]]]. exists l, t. auto.
Qed.
Theorem scan_all_length_bound : forall src, length (scan_all src) <= length src + 1.
Proof. exact scan_all_length. Qed.
Theorem scan_all_nonempty : forall src, scan_all src <> [].
Proof.
  intros src E. destruct (scan_all_ends_with_eof src) as [l [t [H _]]]. rewrite E in H.
  destruct l; discriminate.
Qed.
Print Assumptions scan_all_ends_with_eof.
Print Assumptions scan_all_length_bound.
