(* C03 (compilation is total): proofs about the scanner and parser models that are not in
   ScannerProofs.v / ParserProofs.v.
   1. the keyword trie of Scanner.identifier_type IS the table C03Run.keywords_ref;
   2. token lines: every token of scan_all carries a line >= 1 (lines only grow);
   3. scan_all ends with the only Eof and is short (restated from ScannerProofs);
   4. first_error_has_line: a first error of the parser model carries a line >= 1
      (token-line invariant through every function of Parser.v; model_error is unreachable with rules_ref). *)
From Coq Require Import Strings.Byte Strings.String.
From Coq Require Import List NArith Bool Arith Lia.
From YV Require Import Show Utf8 NumText Ast Scanner ScannerProofs ParserRules Parser ParseRun C03Run.
Import ListNotations.
Local Open Scope string_scope.
Local Open Scope list_scope.

(* ------------------------------------------------------------------ *)
(* 1. keywords                                                          *)
(* ------------------------------------------------------------------ *)
Lemma bytes_eqb_length : forall a b, bytes_eqb a b = true -> length a = length b.
Proof.
  induction a as [|x a IH]; intros [|y b] H; cbn in *; try discriminate; auto.
  apply andb_true_iff in H. destruct H as [_ H]. f_equal. auto.
Qed.

Lemma check_keyword_1 : forall b t rest k,
  check_keyword (b :: t) 1 rest k = if bytes_eqb t (bs rest) then k else TIdentifier.
Proof.
  intros. unfold check_keyword. cbn [skipn length].
  destruct (bytes_eqb t (bs rest)) eqn:E.
  - apply bytes_eqb_length in E. rewrite E. cbn. rewrite Nat.eqb_refl. reflexivity.
  - rewrite andb_false_r. reflexivity.
Qed.
Lemma check_keyword_2 : forall b c t rest k,
  check_keyword (b :: c :: t) 2 rest k = if bytes_eqb t (bs rest) then k else TIdentifier.
Proof.
  intros. unfold check_keyword. cbn [skipn length].
  destruct (bytes_eqb t (bs rest)) eqn:E.
  - apply bytes_eqb_length in E. rewrite E. cbn. rewrite Nat.eqb_refl. reflexivity.
  - rewrite andb_false_r. reflexivity.
Qed.
Lemma check_keyword_3 : forall b c d t rest k,
  check_keyword (b :: c :: d :: t) 3 rest k = if bytes_eqb t (bs rest) then k else TIdentifier.
Proof.
  intros. unfold check_keyword. cbn [skipn length].
  destruct (bytes_eqb t (bs rest)) eqn:E.
  - apply bytes_eqb_length in E. rewrite E. cbn. rewrite Nat.eqb_refl. reflexivity.
  - rewrite andb_false_r. reflexivity.
Qed.

Definition kwt := Eval vm_compute in keyword_texts.
Lemma kwt_eq : kwt = keyword_texts.
Proof. vm_compute; reflexivity. Qed.

Ltac fin := rewrite ?check_keyword_1, ?check_keyword_2, ?check_keyword_3; cbn;
            repeat match goal with |- context [bytes_eqb ?t ?w] => destruct (bytes_eqb t w) eqn:?; try reflexivity end.

Ltac split_t :=
  match goal with
  | |- context [match ?t with nil => _ | cons _ _ => _ end] =>
    is_var t; destruct t as [|? ?];
    [try reflexivity | match goal with b : byte |- _ => destruct b end; try reflexivity]
  end.

Theorem identifier_type_table : forall lex, identifier_type lex = kw_lookup kwt lex.
Proof.
  intros [|b t]; [reflexivity|].
  destruct b; try reflexivity; unfold identifier_type; repeat split_t; fin.
Qed.
Print Assumptions identifier_type_table.

Theorem keywords_ref_starts : keywords_starts_ok keywords_ref = true.
Proof. vm_compute; reflexivity. Qed.

(* the table form, stated on the definition *)
Theorem identifier_type_keywords : forall lex, identifier_type lex = kw_lookup keyword_texts lex.
Proof. intros lex. rewrite identifier_type_table, kwt_eq. reflexivity. Qed.
Print Assumptions identifier_type_keywords.

Example identifier_type_keywords_ex :
  identifier_type (bs "while") = TWhile /\ identifier_type (bs "whilst") = TIdentifier.
Proof. split; reflexivity. Qed.

(* ------------------------------------------------------------------ *)
(* 2. token lines                                                       *)
(* ------------------------------------------------------------------ *)
Local Open Scope N_scope.
Lemma skip_ws_line : forall cs ic pos line cs' pos' line',
  skip_ws ic cs pos line = (cs', pos', line') -> line <= line'.
Proof.
  induction cs as [|c r IH]; intros ic pos line cs' pos' line' H; cbn [skip_ws] in H.
  - inversion H; lia.
  - repeat match type of H with
           | (if ?x then _ else _) = _ => destruct x
           | (match ?x with _ => _ end) = _ => destruct x
           end;
    try (inversion H; lia); try (apply IH in H; lia).
Qed.

Lemma string_loop_line : forall cs skip buf err pos line parens t st',
  string_loop cs skip buf err pos line parens = (t, st') -> line <= tline t /\ line <= s_line st'.
Proof.
  induction cs as [|c r IH]; intros skip buf err pos line parens t st' H; cbn [string_loop] in H.
  - inversion H; subst; cbn; lia.
  - cbv zeta in H.
    repeat match type of H with
           | (if ?x then _ else _) = _ => destruct x
           | (match ?x with _ => _ end) = _ => destruct x eqn:?
           | (let '(_, _) := ?x in _) = _ => destruct x eqn:?
           end;
    try (inversion H; subst; cbn; lia); try (apply IH in H; lia);
    try (destruct err; inversion H; subst; cbn; lia);
    (* a skipped character: since /repo 914ba97 a skipped line break counts *)
    try (apply IH in H; destruct (chr_is c "010"); lia);
    (* the two error exits that count a consumed line break after the token was built (/repo e81033c) *)
    try (inversion H; subst; cbn;
         match goal with |- context [chr_is ?x "010"] => destruct (chr_is x "010") end; lia).
Qed.

Theorem scan_token_line : forall st t st',
  scan_token st = (t, st') -> s_line st <= tline t /\ s_line st <= s_line st'.
Proof.
  intros st t st' H. unfold scan_token in H.
  destruct (scan_token_start st) as [[t0 start] st0] eqn:E. inversion H; subst t0 st0. clear H.
  unfold scan_token_start in E.
  destruct (skip_ws false (s_rest st) (s_pos st) (s_line st)) as [[cs start0] line] eqn:Ews.
  apply skip_ws_line in Ews.
  destruct cs as [|c r]; [inversion E; subst; cbn; lia|].
  cbv zeta in E.
  assert (Hstr : forall a b ps tt stt, scan_string a b line ps = (tt, stt) -> line <= tline tt /\ line <= s_line stt).
  { intros a b ps tt stt Q. unfold scan_string in Q. apply string_loop_line in Q. exact Q. }
  repeat match type of E with
         | (if ?x then _ else _) = _ => destruct x
         | (let '(_, _) := scan_string ?a ?b ?c ?d in _) = _ =>
           let Q := fresh "Q" in destruct (scan_string a b c d) as [? ?] eqn:Q; apply Hstr in Q
         | (let '(_, _) := ?x in _) = _ => destruct x as [? ?]
         | (match ?x with _ => _ end) = _ => destruct x
         end;
  try (inversion E; subst; cbn; lia).
Qed.

Print Assumptions scan_token_line.

Lemma scan_loop_lines : forall fuel st,
  Forall (fun t => s_line st <= tline t) (scan_loop fuel st).
Proof.
  induction fuel as [|f IH]; intros st; cbn [scan_loop]; [constructor|].
  destruct (scan_token st) as [t st'] eqn:E.
  destruct (scan_token_line _ _ _ E) as [H1 H2].
  assert (R : Forall (fun x => s_line st <= tline x) (t :: scan_loop f st')).
  { constructor; [exact H1|]. eapply Forall_impl; [|apply IH]. cbn. intros a Ha. lia. }
  destruct (tk t); try exact R. constructor; [exact H1|constructor].
Qed.

(* every token the parser ever sees carries a line >= 1 *)
Theorem scan_all_lines : forall src, Forall (fun t => 1 <= tline t) (scan_all src).
Proof. intros src. unfold scan_all. apply (scan_loop_lines _ (init_sstate src)). Qed.
Print Assumptions scan_all_lines.

Local Close Scope N_scope.

(* ------------------------------------------------------------------ *)
(* 3. the token stream is finite and ends with the only Eof             *)
(* ------------------------------------------------------------------ *)
Theorem scan_all_ends_with_eof : forall src,
  exists l t, scan_all src = l ++ [t] /\ tk t = TEof /\ Forall (fun x => tk x <> TEof) l.
Proof.
  intros src. destruct (scan_all_spec src) as [l [t [H1 [H2 [H3 _]]]]]. exists l, t. auto.
Qed.
Theorem scan_all_length_bound : forall src, length (scan_all src) <= length src + 1.
Proof. exact scan_all_length. Qed.
Theorem scan_all_nonempty : forall src, scan_all src <> [].
Proof.
  intros src E. destruct (scan_all_ends_with_eof src) as [l [t [H _]]]. rewrite E in H.
  destruct l; discriminate.
Qed.
Print Assumptions scan_all_ends_with_eof.
Print Assumptions scan_all_length_bound.

(* ------------------------------------------------------------------ *)
(* 4. a first error of the parser model carries a line >= 1             *)
(* ------------------------------------------------------------------ *)
Definition tok_ok (t : token) : Prop := (1 <= tline t)%N.
Definition attr_ok (a : attribute) : Prop := tok_ok (a_name a) /\ Forall tok_ok (a_args a).
Definition opt_ok {A} (P : A -> Prop) (o : option A) : Prop := match o with Some a => P a | None => True end.
(* everything but `previous` *)
Definition Weak (s : pstate) : Prop :=
  tok_ok (p_cur s) /\ Forall tok_ok (p_rest s) /\ Forall attr_ok (p_attrs s) /\ opt_ok tok_ok (p_opener s).
Definition Good (s : pstate) : Prop := tok_ok (p_prev s) /\ Weak s.
Definition T {A} : A -> Prop := fun _ => True.

Definition Outcome {A} (Q : A -> pstate -> Prop) (r : presult (A * pstate)) : Prop :=
  match r with POk (a, s') => Q a s' | PErr l _ _ => (1 <= l)%N | POutOfFuel => True end.
Definition spec {A} (P : pstate -> Prop) (m : M A) (Q : A -> pstate -> Prop) : Prop :=
  forall s, P s -> Outcome Q (m s).
(* Good -> Good *)
Definition wf {A} (Q : A -> Prop) (m : M A) : Prop := spec Good m (fun a s' => Good s' /\ Q a).
(* Weak -> Good: the functions that advance before they look at `previous` *)
Definition wfW {A} (Q : A -> Prop) (m : M A) : Prop := spec Weak m (fun a s' => Good s' /\ Q a).
(* keeps Weak and keeps Good: the functions that neither advance nor look at `previous` *)
Definition wfK {A} (Q : A -> Prop) (m : M A) : Prop :=
  spec Weak m (fun a s' => Weak s' /\ Q a) /\ spec Good m (fun a s' => Good s' /\ Q a).

Lemma Outcome_bind : forall A B (m : M A) (k : A -> M B) Q1 Q s,
  Outcome Q1 (m s) -> (forall a s', Q1 a s' -> Outcome Q (k a s')) -> Outcome Q (bind m k s).
Proof.
  intros A B m k Q1 Q s H1 H2. unfold bind. destruct (m s) as [[a s']|l a msg|]; cbn in *; auto.
Qed.
Lemma Outcome_weaken : forall A (Q Q' : A -> pstate -> Prop) r,
  Outcome Q r -> (forall a s, Q a s -> Q' a s) -> Outcome Q' r.
Proof. intros A Q Q' [[a s]|l a m|] H1 H2; cbn in *; auto. Qed.
Lemma spec_bind : forall A B P (m : M A) (k : A -> M B) Q1 Q,
  spec P m Q1 -> (forall a, spec (Q1 a) (k a) Q) -> spec P (bind m k) Q.
Proof. intros A B P m k Q1 Q H1 H2 s Hs. eapply Outcome_bind; [apply H1; exact Hs|]. intros a s' Ha. apply H2. exact Ha. Qed.

Lemma Good_Weak : forall s, Good s -> Weak s. Proof. intros s [_ H]; exact H. Qed.
#[local] Hint Resolve Good_Weak : core.

Lemma wfW_wf : forall A (Q : A -> Prop) m, wfW Q m -> wf Q m.
Proof. intros A Q m H s Hs. apply H. auto. Qed.
Lemma wfK_wf : forall A (Q : A -> Prop) m, wfK Q m -> wf Q m.
Proof. intros A Q m [_ H]. exact H. Qed.

Lemma wf_bind : forall A B (Q1 : A -> Prop) (Q : B -> Prop) m k,
  wf Q1 m -> (forall a, Q1 a -> wf Q (k a)) -> wf Q (bind m k).
Proof.
  intros A B Q1 Q m k H1 H2. eapply spec_bind; [exact H1|]. intros a s [Hg Ha]. apply H2; assumption.
Qed.
Lemma wfW_bind : forall A B (Q1 : A -> Prop) (Q : B -> Prop) m k,
  wfW Q1 m -> (forall a, Q1 a -> wf Q (k a)) -> wfW Q (bind m k).
Proof.
  intros A B Q1 Q m k H1 H2. eapply spec_bind; [exact H1|]. intros a s [Hg Ha]. apply H2; assumption.
Qed.
Lemma wfK_bindW : forall A B (Q1 : A -> Prop) (Q : B -> Prop) m k,
  wfK Q1 m -> (forall a, Q1 a -> wfW Q (k a)) -> wfW Q (bind m k).
Proof.
  intros A B Q1 Q m k [H1 _] H2. eapply spec_bind; [exact H1|]. intros a s [Hg Ha]. apply H2; assumption.
Qed.
Lemma wfK_bindK : forall A B (Q1 : A -> Prop) (Q : B -> Prop) m k,
  wfK Q1 m -> (forall a, Q1 a -> wfK Q (k a)) -> wfK Q (bind m k).
Proof.
  intros A B Q1 Q m k [H1 H1'] H2. split.
  - eapply spec_bind; [exact H1|]. intros a s [Hg Ha]. apply (H2 a Ha); assumption.
  - eapply spec_bind; [exact H1'|]. intros a s [Hg Ha]. apply (H2 a Ha); assumption.
Qed.
Lemma wf_T : forall A (Q : A -> Prop) m, wf Q m -> wf T m.
Proof. intros A Q m H s Hs. eapply Outcome_weaken; [apply H; exact Hs|]. cbn. intros a s' [H1 _]. split; [exact H1|exact I]. Qed.
Lemma wfW_T : forall A (Q : A -> Prop) m, wfW Q m -> wfW T m.
Proof. intros A Q m H s Hs. eapply Outcome_weaken; [apply H; exact Hs|]. cbn. intros a s' [H1 _]. split; [exact H1|exact I]. Qed.
Lemma wfK_T : forall A (Q : A -> Prop) m, wfK Q m -> wfK T m.
Proof.
  intros A Q m [H H'].
  split; intros s Hs; (eapply Outcome_weaken; [first [apply H; exact Hs|apply H'; exact Hs]|]); cbn; intros a s' [H1 _]; split; [exact H1|exact I|exact H1|exact I].
Qed.

(* ---------- primitives ---------- *)
Ltac kprim := split; intros s Hs; cbn; auto.
Lemma wfK_ret : forall A (Q : A -> Prop) a, Q a -> wfK Q (ret a).
Proof. intros. kprim. Qed.
Lemma wfK_get : wfK Weak get.
Proof. kprim. Qed.
Lemma wfK_check : forall k, wfK T (check k).
Proof. intros. kprim; split; auto; exact I. Qed.
Lemma wfK_check_any : forall k, wfK T (check_any k).
Proof. intros. kprim; split; auto; exact I. Qed.
Lemma wfK_current : wfK tok_ok current.
Proof. kprim; split; auto; destruct Hs as [? ?]; try destruct H0; auto. Qed.
Lemma wfK_compiler : wfK T compiler_.
Proof. kprim; split; auto; exact I. Qed.
Lemma wfK_in_class : wfK T in_class.
Proof. kprim; split; auto; exact I. Qed.
Lemma wfK_set_stm : forall b, wfK T (set_stm b).
Proof. intros. kprim; split; auto; exact I. Qed.
Lemma wfK_set_comps : forall b, wfK T (set_comps b).
Proof. intros. kprim; split; auto; exact I. Qed.
Lemma wfK_set_classes : forall b, wfK T (set_classes b).
Proof. intros. kprim; split; auto; exact I. Qed.
Lemma wfK_set_attrs : forall al op, Forall attr_ok al -> opt_ok tok_ok op -> wfK T (set_attrs al op).
Proof.
  intros al op H1 H2. split; intros s Hs; cbn.
  - destruct Hs as [a [b [c d]]]. split; [|exact I]. repeat split; auto.
  - destruct Hs as [p [a [b [c d]]]]. split; [|exact I]. repeat split; auto.
Qed.
Lemma wfK_update_comp : forall f, wfK T (update_comp f).
Proof. intros f. split; intros s Hs; unfold update_comp; destruct (p_comps s); cbn; split; auto; exact I. Qed.
Lemma wfK_new_compiler : forall k, wfK T (new_compiler k).
Proof. intros. kprim; split; auto; exact I. Qed.
Lemma wfK_finalise_compiler : wfK T finalise_compiler.
Proof. kprim; split; auto; exact I. Qed.

Lemma wf_previous : wf tok_ok previous.
Proof. intros s Hs. cbn. split; [exact Hs|apply Hs]. Qed.
Lemma wf_error : forall A (Q : A -> Prop) msg, wf Q (error msg).
Proof. intros A Q msg s Hs. cbn. apply Hs. Qed.
Lemma wfK_error_at : forall A (Q : A -> Prop) t msg, tok_ok t -> wfK Q (error_at t msg).
Proof. intros A Q t msg H. split; intros s Hs; cbn; exact H. Qed.
Lemma wfK_error_at_current : forall A (Q : A -> Prop) msg, wfK Q (error_at_current msg).
Proof. intros A Q msg. split; intros s Hs; cbn; apply Hs. Qed.

Lemma advance_spec : forall c, spec (fun s => Weak s /\ p_cur s = c) advance (fun _ s' => Good s' /\ p_prev s' = c).
Proof.
  intros c s [[Hc [Hr [Ha Ho]]] E]. unfold advance. destruct (p_rest s) as [|t r] eqn:Er.
  - cbn. split; [|exact E]. split; [exact Hc|]. split; [exact Hc|]. repeat split; auto.
  - inversion Hr; subst.
    assert (G : Outcome (fun (_ : unit) s' => Good s' /\ p_prev s' = p_cur s)
                  (POk (tt, mkP (p_cur s) t r (p_stm s) (p_comps s) (p_classes s) (p_attrs s) (p_opener s)))).
    { cbn. split; [|reflexivity]. split; [exact Hc|]. repeat split; auto. }
    destruct (tk t); try exact G. cbn. exact H1.
Qed.
Lemma wfW_advance : wfW T advance.
Proof.
  intros s Hs. eapply Outcome_weaken; [apply (advance_spec (p_cur s)); split; [exact Hs|reflexivity]|].
  cbn. intros a s' [H _]. split; [exact H|exact I].
Qed.
Lemma wfW_set_previous : forall t, tok_ok t -> wfW T (set_previous t).
Proof. intros t H s Hs. cbn. split; [|exact I]. split; [exact H|exact Hs]. Qed.
Lemma wfW_error_at : forall A (Q : A -> Prop) t msg, tok_ok t -> wfW Q (error_at t msg).
Proof. intros A Q t msg H s Hs; cbn; exact H. Qed.
Lemma wfW_error_at_current : forall A (Q : A -> Prop) msg, wfW Q (error_at_current msg).
Proof. intros A Q msg s Hs; cbn; apply Hs. Qed.
(* ---------- automation ---------- *)
Create HintDb kdb. Create HintDb wdb. Create HintDb fdb.
#[local] Hint Resolve wfK_get wfK_check wfK_check_any wfK_current wfK_compiler wfK_in_class wfK_set_stm wfK_set_comps
  wfK_set_classes wfK_set_attrs wfK_update_comp wfK_new_compiler wfK_finalise_compiler wfK_error_at wfK_error_at_current : kdb.
#[local] Hint Resolve wfW_advance wfW_set_previous wfW_error_at wfW_error_at_current : wdb.
#[local] Hint Resolve wf_previous wf_error : fdb.
#[local] Hint Extern 1 (_ <> PrecNone) => discriminate : kdb wdb fdb.
#[local] Hint Extern 1 (T _) => exact I : kdb wdb fdb core.

Lemma attr_ok_name : forall a, attr_ok a -> tok_ok (a_name a). Proof. intros a [H _]; exact H. Qed.
#[local] Hint Resolve attr_ok_name : kdb wdb fdb core.

Ltac leafK := solve [eauto 4 with kdb] || (eapply wfK_T; solve [eauto 4 with kdb]).
Ltac leafW := first [ solve [eauto 4 with wdb] | eapply wfW_T; solve [eauto 4 with wdb] ].
Ltac leafF :=
  first [ solve [eauto 4 with fdb]
        | apply wfW_wf; solve [eauto 4 with wdb]
        | apply wfK_wf; solve [eauto 4 with kdb]
        | eapply wf_T; first [ solve [eauto 4 with fdb] | apply wfW_wf; solve [eauto 4 with wdb] | apply wfK_wf; solve [eauto 4 with kdb] ] ].
Ltac inst_T :=
  try match goal with
      | |- @wf ?A ?Q _ => is_evar Q; unify Q (@T A)
      | |- @wfW ?A ?Q _ => is_evar Q; unify Q (@T A)
      | |- @wfK ?A ?Q _ => is_evar Q; unify Q (@T A)
      end.
Ltac leaf_ret :=
  lazymatch goal with
  | |- wf _ (ret _) => inst_T; apply wfK_wf; apply wfK_ret; auto with core
  | |- wfK _ (ret _) => inst_T; apply wfK_ret; auto with core
  end.
Ltac wfgo :=
  lazymatch goal with
  | |- wf _ (bind _ _) => eapply wf_bind; [ wfgo | intros ? ?; wfgo ]
  | |- wfW _ (bind _ _) =>
    first [ eapply wfK_bindW; [ solve [wfgo] | intros ? ?; wfgo ]
          | eapply wfW_bind; [ wfgo | intros ? ?; wfgo ] ]
  | |- wfK _ (bind _ _) => eapply wfK_bindK; [ wfgo | intros ? ?; wfgo ]
  | |- _ _ (ret _) => leaf_ret
  | |- _ _ (match ?x with _ => _ end) => destruct x eqn:?; wfgo
  | |- wf _ _ => try leafF
  | |- wfW _ _ => try leafW
  | |- wfK _ _ => try leafK
  | |- _ => idtac
  end.

(* ---------- derived functions outside the Section ---------- *)
Lemma wfK_begin_scope : wfK T begin_scope. Proof. unfold begin_scope. leafK. Qed.
Lemma wfK_end_scope : wfK T end_scope. Proof. unfold end_scope. leafK. Qed.
Lemma wfK_push_loop : wfK T push_loop. Proof. unfold push_loop. leafK. Qed.
Lemma wfK_pop_loop : wfK T pop_loop. Proof. unfold pop_loop. leafK. Qed.
Lemma wfK_mark_last_initialised : wfK T mark_last_initialised. Proof. unfold mark_last_initialised. leafK. Qed.
#[local] Hint Resolve wfK_begin_scope wfK_end_scope wfK_push_loop wfK_pop_loop wfK_mark_last_initialised : kdb.
Lemma wfK_add_local : forall n, wfK T (add_local n). Proof. intros. unfold add_local. wfgo. Qed.
Lemma wfK_mark_initialised : wfK T mark_initialised. Proof. unfold mark_initialised. wfgo. Qed.
#[local] Hint Resolve wfK_add_local wfK_mark_initialised : kdb.
Lemma wfK_define_variable : wfK T define_variable. Proof. unfold define_variable. leafK. Qed.
#[local] Hint Resolve wfK_define_variable : kdb.

Lemma wf_match_token : forall k, wf T (match_token k).
Proof. intros. unfold match_token. wfgo. Qed.
Lemma wfW_consume : forall k msg, wfW T (consume k msg).
Proof. intros. unfold consume. wfgo. Qed.
#[local] Hint Resolve wf_match_token : fdb.
#[local] Hint Resolve wfW_consume : wdb.
Lemma wf_match_binary_assignment : wf T match_binary_assignment.
Proof. unfold match_binary_assignment. wfgo. Qed.
#[local] Hint Resolve wf_match_binary_assignment : fdb.
Lemma wf_declare_variable : wf T declare_variable.
Proof. unfold declare_variable. wfgo. Qed.
#[local] Hint Resolve wf_declare_variable : fdb.
Lemma wf_parse_variable : forall msg, wf T (parse_variable msg).
Proof. intros. unfold parse_variable. wfgo. Qed.
#[local] Hint Resolve wf_parse_variable : fdb.
Lemma wf_resolve_variable : forall n, wf T (resolve_variable n).
Proof. intros. unfold resolve_variable. wfgo. Qed.
#[local] Hint Resolve wf_resolve_variable : fdb.
(* ---------- attributes ---------- *)
Lemma weak_opener : forall s op, Weak s -> p_opener s = Some op -> tok_ok op.
Proof. intros s op [_ [_ [_ H]]] E. rewrite E in H. exact H. Qed.
Lemma weak_attr_hd : forall s a r, Weak s -> p_attrs s = a :: r -> tok_ok (a_name a).
Proof. intros s a r [_ [_ [H _]]] E. rewrite E in H. inversion H; subst. apply attr_ok_name; assumption. Qed.
Lemma weak_opener_ok : forall s, Weak s -> opt_ok tok_ok (p_opener s).
Proof. intros s H. apply H. Qed.
#[local] Hint Resolve weak_opener weak_attr_hd weak_opener_ok : kdb wdb fdb.
#[local] Hint Extern 1 (Forall _ []) => constructor : kdb wdb fdb core.
#[local] Hint Extern 1 (opt_ok _ None) => exact I : kdb wdb fdb core.

Lemma wfK_check_no_attributes : wfK T check_no_attributes.
Proof. unfold check_no_attributes. wfgo. Qed.
Lemma wfK_check_supported_attributes : forall k, wfK T (check_supported_attributes k).
Proof. intros. unfold check_supported_attributes. wfgo. Qed.
#[local] Hint Resolve wfK_check_no_attributes wfK_check_supported_attributes : kdb.

Lemma remove_attr_ok : forall n al o r, Forall attr_ok al -> remove_attr n al = (o, r) ->
  opt_ok attr_ok o /\ Forall attr_ok r.
Proof.
  induction al as [|a al IH]; intros o r F E; cbn in E.
  - inversion E; subst. split; [exact I|constructor].
  - inversion F; subst. destruct (bytes_eqb (tsource (a_name a)) n).
    + inversion E; subst. split; assumption.
    + destruct (remove_attr n al) as [x r'] eqn:E2. inversion E; subst.
      destruct (IH _ _ H2 eq_refl) as [H4 H5]. split; [exact H4|constructor; assumption].
Qed.
Lemma wfK_take_attribute : forall n k, wfK (opt_ok attr_ok) (take_attribute n k).
Proof.
  intros n k. unfold take_attribute. eapply wfK_bindK; [apply wfK_get|]. intros s Hs.
  destruct (remove_attr (bs n) (p_attrs s)) as [o r] eqn:E.
  destruct (remove_attr_ok _ _ _ _ (proj1 (proj2 (proj2 Hs))) E) as [H1 H2].
  destruct o as [a|]; [|apply wfK_ret; exact I].
  eapply wfK_bindK; [apply wfK_set_attrs; [exact H2|apply Hs]|]. intros _ _.
  destruct (Nat.eqb (length (a_args a)) k); [apply wfK_ret; exact H1|].
  apply wfK_error_at. apply attr_ok_name. exact H1.
Qed.
#[local] Hint Resolve wfK_take_attribute : kdb.
(* ---------- the Pratt table: model_error is unreachable with rules_ref ---------- *)
Lemma prefix_unary_tk : forall k, r_prefix (rules_ref k) = Some PUnary -> unop_of_tkind k <> None.
Proof. intros k; destruct k; vm_compute; intros H; discriminate. Qed.
Lemma prefix_literal_tk : forall k, r_prefix (rules_ref k) = Some PLiteral -> k = TFalse \/ k = TNil \/ k = TTrue.
Proof. intros k; destruct k; vm_compute; intros H; try discriminate; auto. Qed.
Lemma infix_binary_tk : forall k, r_infix (rules_ref k) = Some IBinary -> binop_of_tkind k <> None.
Proof. intros k; destruct k; vm_compute; intros H; discriminate. Qed.
Lemma infix_some_tk : forall k p, p <> PrecNone -> prec_leb p (r_prec (rules_ref k)) = true -> r_infix (rules_ref k) <> None.
Proof. intros k p Hp; destruct k; destruct p; vm_compute; intros H; try discriminate; contradiction. Qed.
Lemma prec_succ_not_none : forall p, prec_succ p <> PrecNone.
Proof. destruct p; discriminate. Qed.
#[local] Hint Resolve prec_succ_not_none : kdb wdb fdb.

Record RecOk (r : rec) : Prop := mkRecOk {
  ok_pp : forall p, p <> PrecNone -> wfW T (r_parse_precedence r p);
  ok_il : forall p ca e, p <> PrecNone -> wf T (r_infix_loop r p ca e);
  ok_args : forall m n acc, wfW T (r_args_loop r m n acc);
  ok_group : forall n acc, wfW T (r_group_loop r n acc);
  ok_map : forall n acc, wfW T (r_map_loop r n acc);
  ok_interp : forall acc, wf T (r_interp_loop r acc);
  ok_param : forall acc, wf T (r_param_loop r acc);
  ok_decl : wfW T (r_declaration r);
  ok_stmt : wfW T (r_statement r);
  ok_block : wf T (r_block_loop r);
  ok_method : wf T (r_method_loop r);
  ok_prog : wfW T (r_program_loop r);
  ok_attr_args : forall acc, Forall tok_ok acc -> wf (Forall tok_ok) (r_attr_args_loop r acc);
  ok_attrs : forall acc, Forall attr_ok acc -> wf (Forall attr_ok) (r_attrs_loop r acc)
}.

Lemma wf_out_of_fuel : forall A (Q : A -> Prop), wf Q out_of_fuel.
Proof. intros A Q s Hs. exact I. Qed.
Lemma wfW_out_of_fuel : forall A (Q : A -> Prop), wfW Q out_of_fuel.
Proof. intros A Q s Hs. exact I. Qed.
Lemma rec_bottom_ok : RecOk rec_bottom.
Proof. constructor; intros; cbn; first [apply wf_out_of_fuel | apply wfW_out_of_fuel]. Qed.

Section Step.
Variable r : rec.
Hypothesis Hr : RecOk r.
Let Hpp := ok_pp r Hr. Let Hil := ok_il r Hr. Let Hargs := ok_args r Hr. Let Hgroup := ok_group r Hr.
Let Hmap := ok_map r Hr. Let Hinterp := ok_interp r Hr. Let Hparam := ok_param r Hr. Let Hdecl := ok_decl r Hr.
Let Hstmt := ok_stmt r Hr. Let Hblock := ok_block r Hr. Let Hmethod := ok_method r Hr. Let Hprog := ok_prog r Hr.
Let Hattr_args := ok_attr_args r Hr. Let Hattrs := ok_attrs r Hr.
#[local] Hint Resolve Hil Hinterp Hparam Hblock Hmethod Hattr_args Hattrs : fdb.
#[local] Hint Resolve Hpp Hargs Hgroup Hmap Hdecl Hstmt Hprog : wdb.

Lemma wfW_expression : wfW T (expression r).
Proof. unfold expression. eapply wfK_bindW; [apply wfK_get|]. intros s _. destruct (p_stm s); apply Hpp; discriminate. Qed.
#[local] Hint Resolve wfW_expression : wdb.
Lemma wf_block : wf T (block r). Proof. unfold block. wfgo. Qed.
#[local] Hint Resolve wf_block : fdb.
Lemma wf_block_loop : wf T (block_loop r). Proof. unfold block_loop. wfgo. Qed.
Lemma wf_scoped_block : wf T (scoped_block r). Proof. unfold scoped_block. wfgo. Qed.
#[local] Hint Resolve wf_scoped_block : fdb.
Lemma wfW_args_loop : forall m n acc, wfW T (args_loop r m n acc). Proof. intros. unfold args_loop. wfgo. Qed.
Lemma wf_argument_list : forall k m1 m2, wf T (argument_list r k m1 m2). Proof. intros. unfold argument_list. wfgo. Qed.
#[local] Hint Resolve wf_argument_list : fdb.
Lemma wf_param_loop : forall acc, wf T (param_loop r acc). Proof. intros. unfold param_loop. wfgo. Qed.
Lemma wf_parameter_list : forall k, wf T (parameter_list r k). Proof. intros. unfold parameter_list. wfgo. Qed.
#[local] Hint Resolve wf_parameter_list : fdb.
Lemma wf_binary_assign : wf T (binary_assign r). Proof. unfold binary_assign. wfgo. Qed.
#[local] Hint Resolve wf_binary_assign : fdb.
Lemma wf_named_variable : forall n ca, wf T (named_variable r n ca). Proof. intros. unfold named_variable. wfgo. Qed.
#[local] Hint Resolve wf_named_variable : fdb.
Lemma wfW_group_loop : forall n acc, wfW T (group_loop r n acc). Proof. intros. unfold group_loop. wfgo. Qed.
Lemma wf_grouping : forall ca, wf T (grouping r ca). Proof. intros. unfold grouping. wfgo. Qed.
Lemma wfW_map_loop : forall n acc, wfW T (map_loop r n acc). Proof. intros. unfold map_loop. wfgo. Qed.
Lemma wf_hash_map : forall ca, wf T (hash_map r ca). Proof. intros. unfold hash_map. wfgo. Qed.
Lemma wf_vector : forall ca, wf T (vector r ca). Proof. intros. unfold vector. wfgo. Qed.
Lemma wf_lambda : forall ca, wf T (lambda r ca). Proof. intros. unfold lambda. wfgo. Qed.
Lemma wf_variable : forall ca, wf T (variable r ca). Proof. intros. unfold variable. wfgo. Qed.
Lemma wf_string : forall ca, wf T (string_ ca). Proof. intros. unfold string_. wfgo. Qed.
Lemma wf_interp_loop : forall acc, wf T (interp_loop r acc). Proof. intros. unfold interp_loop. wfgo. Qed.
Lemma wf_interpolation : forall ca, wf T (interpolation r ca). Proof. intros. unfold interpolation. wfgo. Qed.
Lemma wf_number : forall ca, wf T (number ca). Proof. intros. unfold number. wfgo. Qed.
Lemma wf_self : forall ca, wf T (self_ ca). Proof. intros. unfold self_. wfgo. Qed.
Lemma wf_cap_self : forall ca, wf T (cap_self ca). Proof. intros. unfold cap_self. wfgo. Qed.
Lemma wf_call_args : wf T (call_args r). Proof. unfold call_args. wfgo. Qed.
#[local] Hint Resolve wf_call_args : fdb.
Lemma wf_super : forall ca, wf T (super_ r ca). Proof. intros. unfold super_. wfgo. Qed.
Lemma wf_call : forall l ca, wf T (call r l ca). Proof. intros. unfold call. wfgo. Qed.
Lemma wf_dot : forall l ca, wf T (dot r l ca). Proof. intros. unfold dot. wfgo. Qed.
Lemma wf_dotdot : forall l ca, wf T (dotdot r l ca). Proof. intros. unfold dotdot. wfgo. Qed.
Lemma wf_index : forall l ca, wf T (index r l ca). Proof. intros. unfold index. wfgo. Qed.
Lemma wf_and : forall l ca, wf T (and_ r l ca). Proof. intros. unfold and_. wfgo. Qed.
Lemma wf_or : forall l ca, wf T (or_ r l ca). Proof. intros. unfold or_. wfgo. Qed.

(* the handlers that look at `previous.kind`: the dispatching token is still `previous` *)
Lemma unary_ok : forall ca,
  spec (fun s => Good s /\ r_prefix (rules_ref (tk (p_prev s))) = Some PUnary) (unary r ca) (fun _ s' => Good s' /\ True).
Proof.
  intros ca s [Hg Hk]. unfold unary. unfold bind at 1. cbn [previous].
  eapply Outcome_bind; [apply (wfW_wf _ _ _ (Hpp PrecUnary ltac:(discriminate))); exact Hg|].
  intros e s' [Hg' _]. destruct (unop_of_tkind (tk (p_prev s))) eqn:E.
  - cbn. auto.
  - exfalso. exact (prefix_unary_tk _ Hk E).
Qed.
Lemma literal_ok : forall ca,
  spec (fun s => Good s /\ r_prefix (rules_ref (tk (p_prev s))) = Some PLiteral) (literal ca) (fun _ s' => Good s' /\ True).
Proof.
  intros ca s [Hg Hk]. unfold literal. unfold bind. cbn [previous].
  destruct (prefix_literal_tk _ Hk) as [E|[E|E]]; rewrite E; cbn; auto.
Qed.
Lemma prefix_ok : forall h ca,
  spec (fun s => Good s /\ r_prefix (rules_ref (tk (p_prev s))) = Some h) (prefix r h ca) (fun _ s' => Good s' /\ True).
Proof.
  intros h ca s [Hg Hk]. destruct h; cbn [prefix];
  try (apply unary_ok; split; assumption); try (apply literal_ok; split; assumption).
  - apply wf_grouping; exact Hg.
  - apply wf_hash_map; exact Hg.
  - apply wf_vector; exact Hg.
  - apply wf_lambda; exact Hg.
  - apply wf_variable; exact Hg.
  - apply wf_string; exact Hg.
  - apply wf_interpolation; exact Hg.
  - apply wf_number; exact Hg.
  - apply wf_cap_self; exact Hg.
  - apply wf_self; exact Hg.
  - apply wf_super; exact Hg.
Qed.
Lemma binary_ok : forall l ca,
  spec (fun s => Good s /\ r_infix (rules_ref (tk (p_prev s))) = Some IBinary) (binary rules_ref r l ca) (fun _ s' => Good s' /\ True).
Proof.
  intros l ca s [Hg Hk]. unfold binary. unfold bind at 1. cbn [previous].
  eapply Outcome_bind; [apply (wfW_wf _ _ _ (Hpp _ (prec_succ_not_none _))); exact Hg|].
  intros e s' [Hg' _]. destruct (binop_of_tkind (tk (p_prev s))) eqn:E.
  - cbn. auto.
  - exfalso. exact (infix_binary_tk _ Hk E).
Qed.
Lemma infix_ok : forall h l ca,
  spec (fun s => Good s /\ r_infix (rules_ref (tk (p_prev s))) = Some h) (infix rules_ref r h l ca) (fun _ s' => Good s' /\ True).
Proof.
  intros h l ca s [Hg Hk]. destruct h; cbn [infix].
  - apply wf_call; exact Hg.
  - apply wf_index; exact Hg.
  - apply wf_dot; exact Hg.
  - apply wf_dotdot; exact Hg.
  - apply binary_ok; split; assumption.
  - apply wf_and; exact Hg.
  - apply wf_or; exact Hg.
Qed.
Lemma wf_infix_loop : forall p ca l, p <> PrecNone -> wf T (infix_loop rules_ref r p ca l).
Proof.
  intros p ca l Hp s Hg. unfold infix_loop. unfold bind at 1. cbn [current].
  destruct (prec_leb p (r_prec (rules_ref (tk (p_cur s))))) eqn:E; [|cbn; auto].
  eapply Outcome_bind; [apply (advance_spec (p_cur s)); split; [apply Good_Weak; exact Hg|reflexivity]|].
  intros _ s1 [Hg1 Hprev]. unfold bind at 1. cbn [previous]. rewrite Hprev.
  destruct (r_infix (rules_ref (tk (p_cur s)))) as [h|] eqn:Eh.
  - eapply Outcome_bind; [apply infix_ok; split; [exact Hg1|rewrite Hprev; exact Eh]|].
    intros l' s2 [Hg2 _]. apply Hil; assumption.
  - exfalso. exact (infix_some_tk _ _ Hp E Eh).
Qed.
Lemma wfW_parse_precedence : forall p, p <> PrecNone -> wfW T (parse_precedence rules_ref r p).
Proof.
  intros p Hp s Hw. unfold parse_precedence.
  eapply Outcome_bind; [apply wfW_advance; exact Hw|].
  intros _ s1 [Hg1 _]. unfold bind at 1. cbn [previous].
  destruct (r_prefix (rules_ref (tk (p_prev s1)))) as [h|] eqn:Eh.
  - eapply Outcome_bind; [apply prefix_ok; split; [exact Hg1|exact Eh]|].
    intros e s2 [Hg2 _].
    assert (W : wf T (e' <- r_infix_loop r p (prec_leb p PrecAssignment) e;;
                      eq <- (if prec_leb p PrecAssignment then match_token TEqual else ret false);;
                      (if eq then error "Invalid assignment target." else ret e'))).
    { destruct p; try contradiction; cbn [prec_leb prec_index Nat.leb];
      (eapply wf_bind; [apply Hil; discriminate|intros ? ?; wfgo]). }
    apply W. exact Hg2.
  - cbn. apply Hg1.
Qed.

(* ---------- declarations ---------- *)
Lemma wf_function : forall k, wf T (function_ r k). Proof. intros. unfold function_. wfgo. Qed.
#[local] Hint Resolve wf_function : fdb.
#[local] Hint Extern 1 (Forall tok_ok (rev _)) => apply Forall_rev : fdb.
#[local] Hint Extern 1 (Forall _ (_ :: _)) => constructor : fdb.
Lemma wf_attr_args_loop : forall acc, Forall tok_ok acc -> wf (Forall tok_ok) (attr_args_loop r acc).
Proof.
  intros acc Ha. unfold attr_args_loop.
  eapply wf_bind; [apply wf_match_token|]. intros m _. destruct (negb m).
  { apply wfK_wf. apply wfK_error_at_current. }
  eapply wf_bind; [apply wf_previous|]. intros p Hp.
  eapply wf_bind; [apply wf_match_token|]. intros c _. destruct c.
  - apply Hattr_args. constructor; assumption.
  - apply wfK_wf. apply wfK_ret. apply Forall_rev. constructor; assumption.
Qed.
Lemma wf_attribute : wf (opt_ok attr_ok) (attribute_ r).
Proof.
  unfold attribute_.
  eapply wf_bind; [apply wf_match_token|]. intros m _. destruct (negb m).
  { apply wfK_wf. apply wfK_ret. exact I. }
  eapply wf_bind; [apply wf_previous|]. intros nm Hnm.
  eapply wf_bind; [apply wf_match_token|]. intros lp _. destruct lp.
  - eapply wf_bind; [apply Hattr_args; constructor|]. intros args Hargs'.
    eapply wf_bind; [apply wf_match_token|]. intros rp _. destruct rp.
    + apply wfK_wf. apply wfK_ret. split; assumption.
    + apply wfK_wf. apply wfK_error_at_current.
  - apply wfK_wf. apply wfK_ret. split; [assumption|constructor].
Qed.
Lemma wf_attrs_loop : forall acc, Forall attr_ok acc -> wf (Forall attr_ok) (attrs_loop r acc).
Proof.
  intros acc Ha. unfold attrs_loop.
  eapply wf_bind; [apply wf_attribute|]. intros a Hok. destruct a as [a|].
  2:{ apply wfK_wf. apply wfK_ret. exact Ha. }
  destruct (has_attr (tsource (a_name a)) acc).
  { apply wfK_wf. apply wfK_error_at. apply attr_ok_name. exact Hok. }
  assert (Ha' : Forall attr_ok (acc ++ [a])) by (apply Forall_app; split; [exact Ha|constructor; [exact Hok|constructor]]).
  eapply wf_bind; [apply wf_match_token|]. intros c _. destruct c.
  - apply Hattrs. exact Ha'.
  - apply wfK_wf. apply wfK_ret. exact Ha'.
Qed.
Lemma wf_attributes_declaration : wf T (attributes_declaration r).
Proof.
  unfold attributes_declaration.
  eapply wf_bind; [apply wfK_wf; apply wfK_check_no_attributes|]. intros _ _.
  eapply wf_bind; [apply wf_previous|]. intros opener Hop.
  eapply wf_bind; [apply wf_match_token|]. intros lb _. destruct (negb lb).
  { apply wfK_wf. apply wfK_error_at_current. }
  eapply wf_bind; [apply Hattrs; constructor|]. intros al Hal.
  eapply wf_bind with (Q1 := T).
  { destruct al; [apply wfK_wf; apply wfK_error_at_current|apply wfK_wf; apply wfK_ret; exact I]. }
  intros _ _.
  eapply wf_bind; [apply wf_match_token|]. intros rb _. destruct (negb rb).
  { apply wfK_wf. apply wfK_error_at_current. }
  apply wfK_wf. apply wfK_set_attrs; assumption.
Qed.
#[local] Hint Resolve wf_attributes_declaration : fdb.
Lemma wf_method : wf T (method r).
Proof.
  unfold method.
  eapply wf_bind; [apply wf_match_token|]. intros h _.
  eapply wf_bind with (Q1 := T). { destruct h; [apply wf_attributes_declaration|apply wfK_wf; apply wfK_ret; exact I]. }
  intros _ _.
  eapply wf_bind; [apply wfK_wf; apply wfK_take_attribute|]. intros sa Hsa.
  eapply wf_bind; [apply wfK_wf; apply wfK_take_attribute|]. intros ca Hca.
  eapply wf_bind; [apply wfK_wf; apply wfK_check_supported_attributes|]. intros _ _.
  eapply wf_bind; [apply wfW_wf; apply wfW_consume|]. intros _ _.
  eapply wf_bind; [apply wfW_wf; apply wfW_consume|]. intros _ _.
  eapply wf_bind; [apply wf_previous|]. intros p _.
  eapply wf_bind with (Q1 := T).
  { destruct ca, sa; try (apply wfK_wf; apply wfK_ret; exact I).
    apply wfK_wf. apply wfK_error_at. apply attr_ok_name. exact Hsa. }
  intros kind _. wfgo.
Qed.
#[local] Hint Resolve wf_method : fdb.
Lemma wf_method_loop : wf T (method_loop r). Proof. unfold method_loop. wfgo. Qed.
Lemma wf_class_declaration : forall l, wf T (class_declaration r l). Proof. intros. unfold class_declaration. wfgo. Qed.
Lemma wf_fn_declaration : forall l, wf T (fn_declaration r l). Proof. intros. unfold fn_declaration. wfgo. Qed.
Lemma wf_var_declaration : forall l, wf T (var_declaration r l). Proof. intros. unfold var_declaration. wfgo. Qed.
#[local] Hint Resolve wf_class_declaration wf_fn_declaration wf_var_declaration : fdb.

(* ---------- statements ---------- *)
Lemma wfW_expression_statement : forall l, wfW T (expression_statement r l). Proof. intros. unfold expression_statement. wfgo. Qed.
Lemma wf_import_statement : forall l, wf T (import_statement l).
Proof.
  intros l. unfold import_statement.
  eapply wf_bind; [apply wfW_wf; apply wfW_consume|]. intros _ _.
  eapply wf_bind; [apply wf_previous|]. intros path _.
  eapply wf_bind with (Q1 := T). { destruct (bytes_eqb (tsource path) (bs "main")); [apply wf_error|apply wfK_wf; apply wfK_ret; exact I]. }
  intros _ _.
  eapply wf_bind; [apply wf_match_token|]. intros a _.
  eapply wf_bind with (Q1 := tok_ok).
  { destruct a.
    - eapply wf_bind; [apply wfW_wf; apply wfW_consume|]. intros _ _. apply wf_previous.
    - destruct (path_file_name (tsource path)); [|apply wf_error].
      eapply wf_bind; [apply wfK_wf; apply wfK_current|]. intros c Hc. apply wfK_wf. apply wfK_ret. exact Hc. }
  intros nm Hnm.
  eapply wf_bind; [apply wfW_wf; apply wfW_set_previous; exact Hnm|]. intros _ _. wfgo.
Qed.
Lemma wf_for_statement : forall l, wf T (for_statement r l). Proof. intros. unfold for_statement. wfgo. Qed.
Lemma wf_if_statement : forall l, wf T (if_statement r l). Proof. intros. unfold if_statement. wfgo. Qed.
Lemma wf_return_statement : forall l, wf T (return_statement r l). Proof. intros. unfold return_statement. wfgo. Qed.
Lemma wf_break_statement : forall l, wf T (break_statement l). Proof. intros. unfold break_statement. wfgo. Qed.
Lemma wf_continue_statement : forall l, wf T (continue_statement l). Proof. intros. unfold continue_statement. wfgo. Qed.
Lemma wf_throw_statement : forall l, wf T (throw_statement r l). Proof. intros. unfold throw_statement. wfgo. Qed.
Lemma wf_try_statement : forall l, wf T (try_statement r l). Proof. intros. unfold try_statement. wfgo. Qed.
Lemma wf_while_statement : forall l, wf T (while_statement r l). Proof. intros. unfold while_statement. wfgo. Qed.
#[local] Hint Resolve wf_import_statement wf_for_statement wf_if_statement wf_return_statement wf_break_statement
  wf_continue_statement wf_throw_statement wf_try_statement wf_while_statement : fdb.
#[local] Hint Resolve wfW_expression_statement : wdb.
Lemma wfW_statement : wfW T (statement r). Proof. unfold statement. wfgo. Qed.
#[local] Hint Resolve wfW_statement : wdb.
Lemma wfW_declaration : wfW T (declaration r). Proof. unfold declaration. wfgo. Qed.

Lemma wfW_program_loop : wfW T (program_loop r).
Proof.
  intros s Hw. unfold program_loop.
  eapply Outcome_bind with (Q1 := fun (e : bool) s' => if e then Good s' else Weak s').
  - unfold match_token. unfold bind at 1. cbn [check]. destruct (tkind_eqb (tk (p_cur s)) TEof).
    + eapply Outcome_bind; [apply wfW_advance; exact Hw|]. intros _ s1 [Hg _]. cbn. exact Hg.
    + cbn. exact Hw.
  - intros e s1 H1. destruct e.
    + cbn. split; [exact H1|exact I].
    + assert (W : wfW T (d <- r_declaration r;; rest <- r_program_loop r;;
                         ret match d with Some st => st :: rest | None => rest end)) by wfgo.
      apply W. exact H1.
Qed.

Lemma step_ok : RecOk (step rules_ref r).
Proof.
  constructor; cbn [step r_parse_precedence r_infix_loop r_args_loop r_group_loop r_map_loop r_interp_loop
                    r_param_loop r_declaration r_statement r_block_loop r_method_loop r_program_loop
                    r_attr_args_loop r_attrs_loop]; intros.
  - apply wfW_parse_precedence; assumption.
  - apply wf_infix_loop; assumption.
  - apply wfW_args_loop.
  - apply wfW_group_loop.
  - apply wfW_map_loop.
  - apply wf_interp_loop.
  - apply wf_param_loop.
  - apply wfW_declaration.
  - apply wfW_statement.
  - apply wf_block_loop.
  - apply wf_method_loop.
  - apply wfW_program_loop.
  - apply wf_attr_args_loop; assumption.
  - apply wf_attrs_loop; assumption.
Qed.
End Step.

Lemma knot_ok : forall fuel, RecOk (knot rules_ref fuel).
Proof. induction fuel as [|f IH]; cbn [knot]; [apply rec_bottom_ok|apply step_ok; exact IH]. Qed.

Lemma parse_ok : forall fuel toks, toks <> [] -> Forall tok_ok toks ->
  Outcome (fun _ _ => True) (parse rules_ref fuel (init_pstate toks)).
Proof.
  intros fuel toks Hne Hall. destruct toks as [|t rest]; [contradiction|]. inversion Hall; subst.
  unfold parse. unfold bind at 1. unfold advance. cbn [init_pstate p_rest p_cur p_stm p_comps p_classes p_attrs p_opener].
  set (s1 := mkP default_token t rest false [new_comp FScript] [] [] None).
  assert (Hw : Weak s1) by (repeat split; auto; constructor).
  assert (G : Outcome (fun (_ : program) (_ : pstate) => True)
                (bind (r_program_loop (knot rules_ref fuel)) (fun p => check_no_attributes;;; ret p) s1)).
  { eapply Outcome_bind; [apply (ok_prog _ (knot_ok fuel)); exact Hw|].
    intros p s2 [Hg _].
    assert (W : wf T (check_no_attributes;;; ret p)) by wfgo.
    eapply Outcome_weaken; [apply W; exact Hg|]. auto. }
  destruct (tk t); try exact G. cbn. exact H1.
Qed.

(* every first error of the parser model is located: on every non-empty token list whose tokens carry a
   line >= 1 (such as every scan_all) *)
Theorem first_error_has_line_tokens : forall toks l a m,
  toks <> [] -> Forall (fun t => (1 <= tline t)%N) toks ->
  parse_program toks = PErr l a m -> (1 <= l)%N.
Proof.
  intros toks l a m Hne Hall H. unfold parse_program, parse_program_with, run in H.
  pose proof (parse_ok (default_fuel toks) toks Hne Hall) as O.
  destruct (parse rules_ref (default_fuel toks) (init_pstate toks)) as [[p s]|l' a' m'|]; try discriminate.
  inversion H; subst. exact O.
Qed.
Print Assumptions first_error_has_line_tokens.

(* ... and on the whole pipeline, for every byte string *)
Theorem first_error_has_line : forall src l a m, parse_source src = PErr l a m -> (1 <= l)%N.
Proof.
  intros src l a m H. unfold parse_source in H.
  exact (first_error_has_line_tokens _ _ _ _ (scan_all_nonempty src) (scan_all_lines src) H).
Qed.
Print Assumptions first_error_has_line.

Example first_error_has_line_ex :
  parse_source (bs "var x = ;") = PErr 1 (AtToken (bs ";")) "Expected expression."
  /\ run_ast "x;" = "OK (expr@1 (var x))".
Proof. split; vm_compute; reflexivity. Qed.

(* the parser model is total: a program, a located first error, or out of fuel *)
Theorem parse_total : forall src,
  (exists p, parse_source src = POk p) \/
  (exists l a m, parse_source src = PErr l a m /\ (1 <= l)%N) \/
  parse_source src = POutOfFuel.
Proof.
  intros src. destruct (parse_source src) as [p|l a m|] eqn:E.
  - left. exists p. reflexivity.
  - right. left. exists l, a, m. split; [reflexivity|]. exact (first_error_has_line _ _ _ _ E).
  - right. right. reflexivity.
Qed.
Print Assumptions parse_total.
