(* C08 - mini-language of exception handling: syntax, well-formedness, the syntactic classes of programs
   on which the implementation is KNOWN to deviate (known_findings.json), rendering to yarel source.
   Definitions only. *)
From Coq Require Import List String Bool Arith.
From YV Require Import Show.
Import ListNotations.
Open Scope string_scope.

(* values that travel through the fragment *)
Inductive val :=
| VNum (n : nat)      (* a tag: printed, thrown or returned *)
| VNil
| VErr                (* the TypeError instance raised by the VM for the failing call `nil()` *)
| VValErr             (* the ValueError instance returned as an error by the native method `"12x".to_num()` *)
| VOvf                (* the IndexError instance "Stack overflow." raised by the 65th nested call *)
| VBool (b : bool)
| VFn (g : nat)       (* a function value (slot 0 of a frame) *)
| VNative.            (* the native `print` *)

Inductive stmt :=
| Skip
| Seq (a b : stmt)
| Print (t : nat)                 (* print(t); *)
| PrintExc                        (* print(e); e = variable of the innermost enclosing catch clause *)
| Throw (t : nat)                 (* throw t; *)
| BuiltinFail                     (* nil();  - a failure raised by the VM itself (try_handle_error) *)
| NativeFail                      (* "12x".to_num();  - a failure returned by a native (Err arm of call_native) *)
| Try (b : stmt) (c : option stmt) (f : option stmt)
| Loop (n : nat) (b : stmt)       (* { var i = 0; while i < n { i = i + 1; b } } *)
| IfIter (k : nat) (s : stmt)     (* if i == k { s }   (i = counter of the innermost enclosing loop) *)
| Break
| Continue
| Return (t : nat)
| Call (g : nat).                 (* print(fg()); *)

(* a program: function bodies f0 .. f(n-1); the LAST one is main; the script is `print(f(n-1)());` *)
Definition prog := list stmt.

Definition body (p : prog) (g : nat) : stmt := nth g p Skip.
Definition main_ix (p : prog) : nat := pred (List.length p).

Definition is_some {A} (o : option A) : bool := match o with Some _ => true | None => false end.

(* ---------- well-formedness = "the compiler accepts it and every name is bound" ---------- *)
Fixpoint wf_stmt (nf : nat) (in_loop in_catch : bool) (s : stmt) : bool :=
  match s with
  | Skip | Print _ | Throw _ | BuiltinFail | NativeFail | Return _ => true
  | Seq a b => wf_stmt nf in_loop in_catch a && wf_stmt nf in_loop in_catch b
  | PrintExc => in_catch
  | Try b c f =>
      wf_stmt nf in_loop in_catch b
      && match c with Some c => wf_stmt nf in_loop true c | None => true end
      && match f with Some f => wf_stmt nf in_loop in_catch f | None => true end
      && (is_some c || is_some f)
  | Loop _ b => wf_stmt nf true in_catch b
  | IfIter _ s => in_loop && wf_stmt nf in_loop in_catch s
  | Break | Continue => in_loop
  | Call g => Nat.ltb g nf
  end.

Definition wf_prog (p : prog) : bool :=
  Nat.leb 1 (List.length p) && forallb (wf_stmt (List.length p) false false) p.

(* ---------- syntactic approximations used by the classes ---------- *)
(* may an exception escape s?  (fuel bounds the call depth looked through; out of fuel: yes) *)
Fixpoint can_throw_with (callee : nat -> bool) (s : stmt) : bool :=
  match s with
  | Skip | Print _ | PrintExc | Break | Continue | Return _ => false
  | Throw _ | BuiltinFail | NativeFail => true
  | Seq a b => can_throw_with callee a || can_throw_with callee b
  | Try b c f =>
      match c with
      | Some c => can_throw_with callee c
      | None => can_throw_with callee b
      end || match f with Some f => can_throw_with callee f | None => false end
  | Loop _ b => can_throw_with callee b
  | IfIter _ s => can_throw_with callee s
  | Call g => callee g
  end.

Fixpoint can_throw_fn (p : prog) (fuel : nat) (g : nat) : bool :=
  match fuel with
  | 0 => true
  | S fuel' => can_throw_with (can_throw_fn p fuel') (body p g)
  end.
Definition can_throw (p : prog) (fuel : nat) (s : stmt) : bool := can_throw_with (can_throw_fn p fuel) s.

(* does s contain no try statement, looking through calls? *)
Fixpoint tryfree_with (callee : nat -> bool) (s : stmt) : bool :=
  match s with
  | Skip | Print _ | PrintExc | Break | Continue | Return _ | Throw _ | BuiltinFail | NativeFail => true
  | Seq a b => tryfree_with callee a && tryfree_with callee b
  | Try _ _ _ => false
  | Loop _ b => tryfree_with callee b
  | IfIter _ s => tryfree_with callee s
  | Call g => callee g
  end.
Fixpoint tryfree_fn (p : prog) (fuel : nat) (g : nat) : bool :=
  match fuel with
  | 0 => false
  | S fuel' => tryfree_with (tryfree_fn p fuel') (body p g)
  end.
Definition tryfree (p : prog) (fuel : nat) (s : stmt) : bool := tryfree_with (tryfree_fn p fuel) s.

(* does s contain a return statement (of this function)? *)
Fixpoint has_return (s : stmt) : bool :=
  match s with
  | Return _ => true
  | Seq a b => has_return a || has_return b
  | Try b c f => has_return b || match c with Some c => has_return c | None => false end
                 || match f with Some f => has_return f | None => false end
  | Loop _ b => has_return b
  | IfIter _ s => has_return s
  | _ => false
  end.

(* s declares no local (loop counter, catch variable) and does not pop locals (break, continue) *)
Fixpoint flat (s : stmt) : bool :=
  match s with
  | Seq a b => flat a && flat b
  | Try _ _ _ | Loop _ _ | Break | Continue => false
  | IfIter _ s => flat s
  | _ => true
  end.

(* ---------- the open classes (known_findings.json, property C08) ---------- *)
Inductive cls :=
| EarlyExitSkipsFinally       (* early_exit_skips_finally *)
| ReturnInTryCatchNoFinally   (* return_in_try_catch_no_finally *)
| FinallyLocal                (* finally_local *)
| HandlingExceptionGlobal     (* handling_exception_global *)
| AbruptExitFromFinally       (* abrupt_exit_from_finally: break/continue/return lexically inside a finally block *)
| PendingReturnSurvivesThrow. (* pending_return_survives_throw: finally block that may throw while a return is pending *)

Definition cls_name (c : cls) : string :=
  match c with
  | EarlyExitSkipsFinally => "early_exit_skips_finally"
  | ReturnInTryCatchNoFinally => "return_in_try_catch_no_finally"
  | FinallyLocal => "finally_local"
  | HandlingExceptionGlobal => "handling_exception_global"
  | AbruptExitFromFinally => "abrupt_exit_from_finally"
  | PendingReturnSurvivesThrow => "pending_return_survives_throw"
  end.

(* what a `return` at this point does *)
Inductive rctx :=
| RPlain              (* no enclosing try BLOCK in this function: plain Return *)
| RJf                 (* exactly one enclosing try block, and its statement has a finally clause *)
| RBad (c : cls).
(* what a `break`/`continue` at this point does *)
Inductive lctx :=
| LNone               (* no enclosing loop *)
| LOk
| LBad (c : cls).

Record kctx := {
  k_ret : rctx;
  k_loop : lctx;
  k_infin : bool;         (* lexically inside a finally block *)
  k_fin_nocatch : bool    (* ... of a try statement without catch clause *)
}.

Definition kctx0 : kctx := {| k_ret := RPlain; k_loop := LNone; k_infin := false; k_fin_nocatch := false |}.

Definition orelse {A} (a b : option A) : option A := match a with Some _ => a | None => b end.

Section Classes.
  Variable p : prog.
  Let fuel := List.length p.

  Fixpoint known_class_stmt (k : kctx) (s : stmt) : option cls :=
    match s with
    | Skip | Print _ | PrintExc | Throw _ | BuiltinFail | NativeFail => None
    | Seq a b => orelse (known_class_stmt k a) (known_class_stmt k b)
    | Return _ => match k_ret k with RBad c => Some c | _ => None end
    | Break | Continue => match k_loop k with LBad c => Some c | _ => None end
    | IfIter _ s => known_class_stmt k s
    | Loop _ b =>
        if k_fin_nocatch k then Some FinallyLocal
        else known_class_stmt {| k_ret := k_ret k; k_loop := LOk; k_infin := k_infin k;
                                 k_fin_nocatch := k_fin_nocatch k |} b
    | Call g => if k_infin k && negb (tryfree_fn p fuel g) then Some HandlingExceptionGlobal else None
    | Try b c f =>
        if k_infin k then Some HandlingExceptionGlobal else
        let hf := is_some f in
        let kb := {| k_ret := match k_ret k with
                              | RPlain => if hf then RJf else RBad ReturnInTryCatchNoFinally
                              | RJf => RBad EarlyExitSkipsFinally
                              | RBad c => RBad c
                              end;
                     k_loop := match k_loop k with LOk => if hf then LBad EarlyExitSkipsFinally else LOk | l => l end;
                     k_infin := false; k_fin_nocatch := false |} in
        let kc := {| k_ret := if hf then RBad EarlyExitSkipsFinally else k_ret k;
                     k_loop := match k_loop k with LOk => if hf then LBad EarlyExitSkipsFinally else LOk | l => l end;
                     k_infin := false; k_fin_nocatch := false |} in
        let kf := {| k_ret := RBad AbruptExitFromFinally;
                     k_loop := LBad AbruptExitFromFinally;
                     k_infin := true; k_fin_nocatch := negb (is_some c) |} in
        orelse (known_class_stmt kb b)
       (orelse (match c with
                | Some c => orelse (known_class_stmt kc c)
                                   (if hf && can_throw p fuel c then Some EarlyExitSkipsFinally else None)
                | None => None
                end)
               (match f with
                | Some f => orelse (known_class_stmt kf f)
                                   (if (has_return b || match c with Some c => has_return c | None => false end)
                                       && can_throw p fuel f
                                    then Some PendingReturnSurvivesThrow else None)
                | None => None
                end))
    end.

  Fixpoint first_class (l : list stmt) : option cls :=
    match l with
    | [] => None
    | s :: r => orelse (known_class_stmt kctx0 s) (first_class r)
    end.
End Classes.

Definition in_known_class (p : prog) : option cls := first_class p p.

(* ---------- rendering to yarel source ---------- *)
(* names: catch variables e<depth>, loop counters i<depth>: depth = number of enclosing binders *)
Fixpoint render_stmt (d : nat) (ev iv : string) (s : stmt) : string :=
  match s with
  | Skip => ""
  | Seq a b => render_stmt d ev iv a ++ render_stmt d ev iv b
  | Print t => "print(" ++ show_nat t ++ "); "
  | PrintExc => "print(" ++ ev ++ "); "
  | Throw t => "throw " ++ show_nat t ++ "; "
  | BuiltinFail => "nil(); "
  | NativeFail => """12x"".to_num(); "
  | Try b c f =>
      "try { " ++ render_stmt (S d) ev iv b ++ "} "
      ++ match c with
         | Some c => let e := "e" ++ show_nat d in "catch " ++ e ++ " { " ++ render_stmt (S d) e iv c ++ "} "
         | None => ""
         end
      ++ match f with
         | Some f => "finally { " ++ render_stmt (S d) ev iv f ++ "} "
         | None => ""
         end
  | Loop n b =>
      let i := "i" ++ show_nat d in
      "{ var " ++ i ++ " = 0; while " ++ i ++ " < " ++ show_nat n ++ " { " ++ i ++ " = " ++ i ++ " + 1; "
      ++ render_stmt (S d) ev i b ++ "} } "
  | IfIter k s => "if " ++ iv ++ " == " ++ show_nat k ++ " { " ++ render_stmt (S d) ev iv s ++ "} "
  | Break => "break; "
  | Continue => "continue; "
  | Return t => "return " ++ show_nat t ++ "; "
  | Call g => "print(f" ++ show_nat g ++ "()); "
  end.

Fixpoint render_fns (i : nat) (l : list stmt) : string :=
  match l with
  | [] => ""
  | s :: r => "fn f" ++ show_nat i ++ "() { " ++ render_stmt 0 "e" "i" s ++ "} " ++ render_fns (S i) r
  end.

Definition render (p : prog) : string :=
  render_fns 0 p ++ "print(f" ++ show_nat (main_ix p) ++ "());".
