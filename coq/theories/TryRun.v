(* C08 - entry points evaluated by the check (coqc + vm_compute): wire format of programs, rendering of the
   results of Spec and Mechanism, per-step trace of the Mechanism.  Definitions only. *)
From Coq Require Import List String Bool Arith NArith.
From YV Require Import Show Wire TryLang TrySpec Handlers.
Import ListNotations.
Open Scope string_scope.

(* prefix code: 0 Skip | 1 Seq a b | 2 Print t | 3 PrintExc | 4 Throw t | 5 BuiltinFail | 6 Try hc hf b [c] [f]
   | 7 Loop n b | 8 IfIter k s | 9 Break | 10 Continue | 11 Return t | 12 Call g | 13 NativeFail ; one group per function *)
Fixpoint parse_stmt (fuel : nat) (l : list nat) : option (stmt * list nat) :=
  match fuel with
  | 0 => None
  | S fu =>
      match l with
      | 0 :: r => Some (Skip, r)
      | 1 :: r =>
          match parse_stmt fu r with
          | Some (a, r1) => match parse_stmt fu r1 with Some (b, r2) => Some (Seq a b, r2) | None => None end
          | None => None
          end
      | 2 :: t :: r => Some (Print t, r)
      | 3 :: r => Some (PrintExc, r)
      | 4 :: t :: r => Some (Throw t, r)
      | 5 :: r => Some (BuiltinFail, r)
      | 6 :: hc :: hf :: r =>
          match parse_stmt fu r with
          | Some (b, r1) =>
              match (if Nat.eqb hc 0 then Some (None, r1)
                     else match parse_stmt fu r1 with Some (c, r2) => Some (Some c, r2) | None => None end) with
              | Some (c, r2) =>
                  match (if Nat.eqb hf 0 then Some (None, r2)
                         else match parse_stmt fu r2 with Some (f, r3) => Some (Some f, r3) | None => None end) with
                  | Some (f, r3) => Some (Try b c f, r3)
                  | None => None
                  end
              | None => None
              end
          | None => None
          end
      | 7 :: n :: r => match parse_stmt fu r with Some (b, r1) => Some (Loop n b, r1) | None => None end
      | 8 :: k :: r => match parse_stmt fu r with Some (b, r1) => Some (IfIter k b, r1) | None => None end
      | 9 :: r => Some (Break, r)
      | 10 :: r => Some (Continue, r)
      | 11 :: t :: r => Some (Return t, r)
      | 12 :: g :: r => Some (Call g, r)
      | 13 :: r => Some (NativeFail, r)
      | _ => None
      end
  end.

Definition parse_fn (l : list N) : stmt :=
  match parse_stmt (S (List.length l)) (map N.to_nat l) with
  | Some (s, _) => s
  | None => Skip
  end.
Definition parse_prog (w : string) : prog := map parse_fn (parse_nss w).

Definition show_val (v : val) : string :=
  match v with
  | VNum n => show_nat n
  | VNil => "nil"
  | VErr => "TypeError"
  | VValErr => "ValueError"
  | VOvf => "IndexError"
  | VBool b => show_bool b
  | VFn g => "f" ++ show_nat g
  | VNative => "print"
  end.
Definition show_final (f : final) : string :=
  match f with
  | FDone => "D"
  | FUncaught v => "U:" ++ show_val v
  | FStuck => "S"
  end.
Definition show_result (r : option (list val * final)) : string :=
  match r with
  | Some (o, f) => show_sep "," show_val o ++ "/" ++ show_final f
  | None => "FUEL"
  end.

Definition spec_fuel : nat := 40.
Definition m_fuel : nat := 300 * 100.

Definition cfg_of (n : nat) : cfg :=
  match n with
  | 1 => cfg_old_catch_pops
  | 2 => cfg_old_break
  | 3 => cfg_flag_at_sites_but_native
  | 4 => cfg_break_pops_one
  | _ => cfg_today
  end.

(* the configuration the translator read from the sources, handed over by the plug-in (gen/manifest.json) *)
Definition cfg_flags (cp : bool) (bp : nat) (rj : bool) (mode : nat) (ts vs ns : bool) : cfg :=
  {| catch_emits_pop := cp; break_pops := match bp with 0 => PopsNone | 1 => PopsOne | _ => PopsAll end;
     return_uses_jump_finally := rj;
     unwind_he := match mode with 0 => HeAssign | 1 => HeAssignNeg | 2 => HeClearOnCatch | _ => HeKeep end;
     throw_sets_he := ts; vmfail_sets_he := vs; nativefail_sets_he := ns |}.

(* wf # class # spec # M *)
Definition c08_case_k (K : cfg) (w : string) : string :=
  let p := parse_prog w in
  show_bool (wf_prog p) ++ "#"
  ++ match in_known_class p with Some c => cls_name c | None => "-" end ++ "#"
  ++ show_result (eval_spec p spec_fuel) ++ "#"
  ++ show_result (run_m K p m_fuel).
Definition c08_case (w : string) : string := c08_case_k cfg_today w.
Definition c08_render (w : string) : string := render (parse_prog w).
Definition c08_m_cfg (k : nat) (w : string) : string := show_result (run_m (cfg_of k) (parse_prog w) m_fuel).

(* ---- per-step trace of the Mechanism: state BEFORE each instruction ---- *)
Definition instr_name (i : instr) : string :=
  match i with
  | IPrint _ => "Print" | IPrintLocal _ => "PrintLocal" | IFail => "Fail" | INativeFail => "NativeFail" | IConst _ => "Const" | INil => "Nil"
  | IPop => "Pop" | IThrow => "Throw" | IPushNative => "PushNative" | ICall _ => "Call" | IPrintTop => "PrintTop"
  | ILess _ _ => "Less" | IEq _ _ => "Eq" | IIncr _ => "Incr" | IJump _ => "Jump" | IJumpIfFalse _ => "JumpIfFalse"
  | ILoop _ => "Loop" | IPushExcHandler _ _ => "PushExcHandler" | IPopExcHandler => "PopExcHandler"
  | IJumpFinally => "JumpFinally" | IEndFinally => "EndFinally" | IReturn => "Return"
  end.

Definition show_handler (h : handler) : string := show_nat (h_height h) ++ "." ++ show_nat (h_frames h).

(* name:codefn:framefn:stacklen:base:frames:he:retpend:handlers(outermost first) *)
Definition show_step (P : list (list instr)) (st : state) : string :=
  match fetch P (s_fn st) (s_pc st) with
  | None => "?"
  | Some i =>
      instr_name i ++ ":" ++ show_nat (s_fn st) ++ ":"
      ++ match s_frames st with fr :: _ => show_nat (f_fn fr) ++ ":" ++ show_nat (List.length (s_stack st)) ++ ":" ++ show_nat (f_base fr) | [] => "-:-:-" end
      ++ ":" ++ show_nat (List.length (s_frames st)) ++ ":" ++ show_bool (s_he st) ++ ":"
      ++ show_bool (is_some (s_retpend st)) ++ ":" ++ show_sep ";" show_handler (rev (s_handlers st))
  end.

Fixpoint trace_run (K : cfg) (P : list (list instr)) (fuel : nat) (c : config) (acc : list string) : list string :=
  match fuel with
  | 0 => rev acc
  | S n =>
      match c with
      | inl st => trace_run K P n (step K P st) (show_step P st :: acc)
      | inr _ => rev acc
      end
  end.

Definition c08_trace_k (K : cfg) (limit : nat) (w : string) : string :=
  let p := parse_prog w in
  show_sep " " (fun x => x) (trace_run K (compile_prog K p) limit (inl (init_state p)) []).
Definition c08_trace (limit : nat) (w : string) : string := c08_trace_k cfg_today limit w.
