(* C08 - Spec (S): structured big-step semantics of the mini-language of TryLang.v.
   A handler is active exactly while control is dynamically inside its try block; a finally block runs exactly
   once on EVERY exit from its try/catch and the original outcome then continues, unless the finally block
   itself exits abnormally; an exception nobody catches ends the run with an error naming the value.
   Definitions only. *)
From Coq Require Import List Bool Arith.
From YV Require Import TryLang.
Import ListNotations.

Inductive outcome :=
| ONormal
| OBrk
| OCont
| ORet (v : val)
| OExc (v : val).

(* what a statement sees of its surroundings: the value bound by the innermost catch clause and the counter of
   the innermost loop *)
Record env := { e_exc : val; e_iter : nat }.
Definition env0 : env := {| e_exc := VNil; e_iter := 0 |}.

Definition res := (list val * outcome)%type.

(* result of a call: the value returned, or the exception that escaped *)
Inductive cres := CRet (v : val) | CExc (v : val).

(* n iterations of a loop body, counter i = 1, 2, ... *)
Fixpoint loop_eval (evb : nat -> option res) (n i : nat) : option res :=
  match n with
  | 0 => Some ([], ONormal)
  | S n' =>
      match evb (S i) with
      | None => None
      | Some (o1, ONormal) | Some (o1, OCont) =>
          match loop_eval evb n' (S i) with
          | None => None
          | Some (o2, r) => Some (o1 ++ o2, r)
          end
      | Some (o1, OBrk) => Some (o1, ONormal)
      | Some (o1, r) => Some (o1, r)
      end
  end.

Section Eval.
  Variable call : nat -> option (list val * cres).   (* None: out of fuel *)

  Fixpoint eval_stmt (e : env) (s : stmt) : option res :=
    match s with
    | Skip => Some ([], ONormal)
    | Seq a b =>
        match eval_stmt e a with
        | None => None
        | Some (o1, ONormal) =>
            match eval_stmt e b with
            | None => None
            | Some (o2, r) => Some (o1 ++ o2, r)
            end
        | Some (o1, r) => Some (o1, r)
        end
    | Print t => Some ([VNum t], ONormal)
    | PrintExc => Some ([e_exc e], ONormal)
    | Throw t => Some ([], OExc (VNum t))
    | BuiltinFail => Some ([], OExc VErr)
    | NativeFail => Some ([], OExc VValErr)
    | Break => Some ([], OBrk)
    | Continue => Some ([], OCont)
    | Return t => Some ([], ORet (VNum t))
    | Call g =>
        match call g with
        | None => None
        | Some (o, CRet v) => Some (o ++ [v], ONormal)
        | Some (o, CExc v) => Some (o, OExc v)
        end
    | IfIter k s => if e_iter e =? k then eval_stmt e s else Some ([], ONormal)
    | Loop n b => loop_eval (fun i => eval_stmt {| e_exc := e_exc e; e_iter := i |} b) n 0
    | Try b c f =>
        (* 1. the try block; 2. an exception it lets escape is taken by the catch clause, if any *)
        let r12 :=
          match eval_stmt e b with
          | None => None
          | Some (o1, OExc v) =>
              match c with
              | Some c =>
                  match eval_stmt {| e_exc := v; e_iter := e_iter e |} c with
                  | None => None
                  | Some (o2, r) => Some (o1 ++ o2, r)
                  end
              | None => Some (o1, OExc v)
              end
          | Some (o1, r) => Some (o1, r)
          end in
        (* 3. the finally block runs on every exit; the original outcome continues unless the finally block
              itself exits abnormally *)
        match r12 with
        | None => None
        | Some (o12, r) =>
            match f with
            | None => Some (o12, r)
            | Some f =>
                match eval_stmt e f with
                | None => None
                | Some (o3, ONormal) => Some (o12 ++ o3, r)
                | Some (o3, r3) => Some (o12 ++ o3, r3)
                end
            end
        end
    end.
End Eval.

(* a function body run to its end: falling off the end returns nil *)
Definition fn_result (r : res) : list val * cres :=
  match r with
  | (o, ORet v) => (o, CRet v)
  | (o, OExc v) => (o, CExc v)
  | (o, _) => (o, CRet VNil)      (* break/continue cannot escape a well-formed body *)
  end.

Fixpoint eval_fn (p : prog) (fuel : nat) (g : nat) : option (list val * cres) :=
  match fuel with
  | 0 => None
  | S fuel' =>
      match eval_stmt (eval_fn p fuel') env0 (body p g) with
      | None => None
      | Some r => Some (fn_result r)
      end
  end.

(* how a run ends *)
Inductive final :=
| FDone                  (* the script ran to its end *)
| FUncaught (v : val)    (* "Unhandled exception: v" / "Unhandled TypeError: ..." *)
| FStuck.                (* only the machine: a state the real VM answers with a panic / undefined behaviour *)

(* the script is `print(main());` *)
Definition eval_spec (p : prog) (fuel : nat) : option (list val * final) :=
  match eval_fn p fuel (main_ix p) with
  | None => None
  | Some (o, CRet v) => Some (o ++ [v], FDone)
  | Some (o, CExc v) => Some (o, FUncaught v)
  end.
