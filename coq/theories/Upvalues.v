(* C06 - Mechanism M of captured variables: what vm.rs `capture_upvalue`, `closure_impl`,
   `close_upvalue_impl`, `return_impl`, `get/set_upvalue_impl`, `get/set_local_impl`, `unwind_stack`
   and object.rs `ObjUpvalue` / `ObjFiber::close_upvalues` do.  DEFINITIONS ONLY (proofs: UpvaluesProofs.v).

   * a fiber's value stack is `Stack<Value, STACK_MAX>` = a fixed array plus a top pointer (stack.rs):
     `pop`/`truncate` only move the top, the memory above keeps its old content and an open upvalue that
     points there still reads/writes it.  Hence the stack is `sdata : nat -> value` (the array) plus
     `slen` (the top), NOT a list that forgets what was popped.
   * `open_upvalues` is a singly linked list of open upvalues sorted by DESCENDING stack address;
     entries here are (upvalue id, slot).
   * an upvalue object is `Open` (a raw pointer into a stack) (here: fiber + slot) or `Closed(Value)`; ids are
     allocation order (`unext`).
   * `value` is abstract (a parameter): the mini-language of ScopeLang.v instantiates it. *)
From Coq Require Import List Arith Bool.
Import ListNotations.

Set Implicit Arguments.

Section Upvalues.
Variable value : Type.

Inductive upstate := UOpen (f slot : nat) | UClosed (v : value).

Record fiber := mkFiber {
  sdata : nat -> value;            (* the array behind the stack *)
  slen : nat;                      (* stack.len() *)
  openl : list (nat * nat)         (* open_upvalues: (upvalue id, slot), list order *)
}.

Record mstate := mkM {
  fibs : nat -> fiber;
  cur : nat;                       (* the active fiber *)
  ustore : nat -> upstate;         (* upvalue objects by id *)
  unext : nat                      (* next fresh upvalue id *)
}.

Definition upd {A} (f : nat -> A) (k : nat) (x : A) : nat -> A :=
  fun j => if j =? k then x else f j.

Definition set_fib (st : mstate) (f : nat) (fb : fiber) : mstate :=
  mkM (upd (fibs st) f fb) (cur st) (ustore st) (unext st).

Definition cfib (st : mstate) : fiber := fibs st (cur st).

(* vm.rs capture_upvalue: walk while the entry's address is above `loc`; an entry AT `loc` is reused;
   otherwise a new upvalue is linked in before the first entry below `loc`.
   Returns the new list and the id handed out (`fresh` when one was created). *)
Fixpoint capture_in (l : list (nat * nat)) (loc fresh : nat) : list (nat * nat) * nat :=
  match l with
  | (id, s) :: r =>
      if loc <? s then let (r', k) := capture_in r loc fresh in ((id, s) :: r', k)
      else if s =? loc then (l, id)
      else ((fresh, loc) :: l, fresh)
  | [] => ([(fresh, loc)], fresh)
  end.

Definition capture (st : mstate) (loc : nat) : mstate * nat :=
  let fb := cfib st in
  let (l', k) := capture_in (openl fb) loc (unext st) in
  if k =? unext st
  then (mkM (upd (fibs st) (cur st) (mkFiber (sdata fb) (slen fb) l')) (cur st)
            (upd (ustore st) k (UOpen (cur st) loc)) (S (unext st)), k)
  else (st, k).

(* object.rs ObjFiber::close_upvalues(index): while the HEAD of the list is at or above `index`,
   close it (copy the value it points to into the upvalue object) and unlink it. *)
Fixpoint close_from (sd : nat -> value) (l : list (nat * nat)) (idx : nat) (us : nat -> upstate)
  : list (nat * nat) * (nat -> upstate) :=
  match l with
  | (id, s) :: r => if idx <=? s then close_from sd r idx (upd us id (UClosed (sd s))) else (l, us)
  | [] => ([], us)
  end.

(* close_upvalues(idx) followed by stack.truncate(n) on the active fiber *)
Definition close_trunc (st : mstate) (idx n : nat) : mstate :=
  let fb := cfib st in
  let (l', us') := close_from (sdata fb) (openl fb) idx (ustore st) in
  mkM (upd (fibs st) (cur st) (mkFiber (sdata fb) n l')) (cur st) us' (unext st).

Inductive op :=
| Push (v : value)            (* Vm::push *)
| Pop                         (* OpCode::Pop / Vm::pop *)
| GetSlot (i : nat)           (* get_local_impl: read absolute slot slot_base+i *)
| SetSlot (i : nat) (v : value) (* set_local_impl *)
| Capture (slot : nat)        (* closure_impl, is_local descriptor: capture_upvalue(slot_base+index) *)
| CloseTop                    (* close_upvalue_impl: close_upvalues(len-1); pop *)
| ReturnFrame (base : nat)    (* return_impl: close_upvalues(slot_base); truncate(slot_base) *)
| ReadUp (id : nat)           (* get_upvalue_impl: ObjUpvalue::get *)
| WriteUp (id : nat) (v : value) (* set_upvalue_impl: ObjUpvalue::set *)
| Truncate (n : nat)          (* unwind_stack: stack.truncate(handler.init_stack_size), NO closing *)
| SwitchFiber (f : nat).      (* load_fiber / unload_fiber *)

Inductive obs := ONone | OVal (v : value) | OId (id : nat) | OStuck.

(* Ill-formed operations (index outside the live stack, unknown upvalue id) are OStuck and leave the
   state alone: the compiler never emits them and the Rust code would panic or run into undefined
   behaviour.  Everything else does exactly what the Rust code does. *)
Definition step (st : mstate) (o : op) : mstate * obs :=
  let fb := cfib st in
  match o with
  | Push v => (set_fib st (cur st) (mkFiber (upd (sdata fb) (slen fb) v) (S (slen fb)) (openl fb)), ONone)
  | Pop =>
      if slen fb =? 0 then (st, OStuck)
      else (set_fib st (cur st) (mkFiber (sdata fb) (slen fb - 1) (openl fb)), ONone)
  | GetSlot i => if i <? slen fb then (st, OVal (sdata fb i)) else (st, OStuck)
  | SetSlot i v =>
      if i <? slen fb
      then (set_fib st (cur st) (mkFiber (upd (sdata fb) i v) (slen fb) (openl fb)), ONone)
      else (st, OStuck)
  | Capture loc =>
      if loc <? slen fb then let (st', k) := capture st loc in (st', OId k) else (st, OStuck)
  | CloseTop =>
      if slen fb =? 0 then (st, OStuck)
      else (close_trunc st (slen fb - 1) (slen fb - 1), ONone)
  | ReturnFrame base =>
      if base <=? slen fb then (close_trunc st base base, ONone) else (st, OStuck)
  | ReadUp id =>
      if id <? unext st then
        match ustore st id with
        | UOpen f s => (st, OVal (sdata (fibs st f) s))
        | UClosed v => (st, OVal v)
        end
      else (st, OStuck)
  | WriteUp id v =>
      if id <? unext st then
        match ustore st id with
        | UOpen f s =>
            let g := fibs st f in
            (set_fib st f (mkFiber (upd (sdata g) s v) (slen g) (openl g)), ONone)
        | UClosed _ => (mkM (fibs st) (cur st) (upd (ustore st) id (UClosed v)) (unext st), ONone)
        end
      else (st, OStuck)
  | Truncate n =>
      if n <=? slen fb
      then (set_fib st (cur st) (mkFiber (sdata fb) n (openl fb)), ONone)
      else (st, OStuck)
  | SwitchFiber f => (mkM (fibs st) f (ustore st) (unext st), ONone)
  end.

Fixpoint run (st : mstate) (ops : list op) : list obs :=
  match ops with
  | [] => []
  | o :: r => let (st', b) := step st o in b :: run st' r
  end.

Fixpoint run_state (st : mstate) (ops : list op) : mstate :=
  match ops with
  | [] => st
  | o :: r => run_state (fst (step st o)) r
  end.

(* ---- the DISCIPLINE: a captured slot leaves the stack only through CloseTop / ReturnFrame ---- *)
Definition slot_open (fb : fiber) (s : nat) : bool := existsb (fun e => snd e =? s) (openl fb).

Definition disc_ok (st : mstate) (o : op) : bool :=
  let fb := cfib st in
  match o with
  | Pop => negb (slot_open fb (slen fb - 1))
  | Truncate n => forallb (fun e => snd e <? n) (openl fb)
  | _ => true
  end.

Fixpoint disciplined (st : mstate) (ops : list op) : bool :=
  match ops with
  | [] => true
  | o :: r => disc_ok st o && disciplined (fst (step st o)) r
  end.

(* ---- the invariant of the open list, as a decidable check (also run on every traced list) ---- *)
Fixpoint desc_sorted (l : list (nat * nat)) : bool :=
  match l with
  | (_, s) :: (((_, s') :: _) as r) => (s' <? s) && desc_sorted r
  | _ => true
  end.

Definition open_list_ok (l : list (nat * nat)) (len : nat) : bool :=
  desc_sorted l && forallb (fun e => snd e <? len) l.

End Upvalues.

Arguments UOpen {value} f slot.
Arguments Pop {value}.
Arguments GetSlot {value} i.
Arguments Capture {value} slot.
Arguments CloseTop {value}.
Arguments ReturnFrame {value} base.
Arguments ReadUp {value} id.
Arguments Truncate {value} n.
Arguments SwitchFiber {value} f.
Arguments ONone {value}.
Arguments OId {value} id.
Arguments OStuck {value}.

Definition empty_fiber {value} (d : value) : fiber value := mkFiber (fun _ => d) 0 [].
Definition m_init {value} (d : value) : mstate value :=
  mkM (fun _ => empty_fiber d) 0 (fun _ => UClosed d) 0.
