(* C06, round 7 - the open-upvalue lists are PER FIBER in Mechanism M (Upvalues.v): whatever the running fiber does
   (push, pop, capture, close, return, truncate, read / write through an upvalue that may be open on ANOTHER fiber's
   stack, switch), the open list and the stack top of every other fiber stay exactly as they were, and a capture links
   the captured slot into the RUNNING fiber's own list (so that the next CloseTop / ReturnFrame of that fiber finds it).
   In vm.rs this is the fact that capture_upvalue starts its walk at the head of the active fiber's list and touches no
   other list (regenerated shape fact of translate_c06.py); the trace tie compares the model's list with the reported
   one per fiber at every report (tools/props/C06.py, families t_crossfiber / run_crossfiber). *)
From Coq Require Import List Arith Bool Lia.
From YV Require Import Upvalues UpvaluesProofs.
Import ListNotations.

Section Fibers.
Variable value : Type.

Lemma upd_other : forall A (f : nat -> A) k x j, j <> k -> upd f k x j = f j.
Proof. intros A f k x j H. unfold upd. destruct (Nat.eqb_spec j k); [contradiction|reflexivity]. Qed.

Lemma capture_other_fiber : forall (st : mstate value) loc g,
  g <> cur st -> fibs (fst (capture st loc)) g = fibs st g.
Proof.
  intros st loc g Hg. unfold capture.
  destruct (capture_in (openl (cfib st)) loc (unext st)) as [l' k].
  destruct (k =? unext st); cbn [fst fibs]; [apply upd_other; exact Hg|reflexivity].
Qed.

Lemma close_trunc_other_fiber : forall (st : mstate value) idx n g,
  g <> cur st -> fibs (close_trunc st idx n) g = fibs st g.
Proof.
  intros st idx n g Hg. unfold close_trunc.
  destruct (close_from (sdata (cfib st)) (openl (cfib st)) idx (ustore st)) as [l' us'].
  cbn [fibs]. apply upd_other; exact Hg.
Qed.

(* no operation of the running fiber changes the open list or the stack top of another fiber *)
Theorem step_other_fiber_lists : forall (st : mstate value) o g,
  g <> cur st ->
  openl (fibs (fst (step st o)) g) = openl (fibs st g) /\ slen (fibs (fst (step st o)) g) = slen (fibs st g).
Proof.
  intros st o g Hg.
  assert (Hset : forall fb, fibs (set_fib st (cur st) fb) g = fibs st g).
  { intros fb. unfold set_fib. cbn [fibs]. apply upd_other; exact Hg. }
  destruct o as [v| |i|i v|loc| |base|id|id v|n|f]; cbn [step].
  - cbn [fst]. rewrite Hset. split; reflexivity.
  - destruct (slen (cfib st) =? 0); cbn [fst]; [|rewrite Hset]; split; reflexivity.
  - destruct (i <? slen (cfib st)); cbn [fst]; split; reflexivity.
  - destruct (i <? slen (cfib st)); cbn [fst]; [rewrite Hset|]; split; reflexivity.
  - destruct (loc <? slen (cfib st)); [|cbn [fst]; split; reflexivity].
    pose proof (capture_other_fiber st loc g Hg) as Hc.
    destruct (capture st loc) as [st' k]. cbn [fst] in *. rewrite Hc. split; reflexivity.
  - destruct (slen (cfib st) =? 0); cbn [fst]; [|rewrite close_trunc_other_fiber by exact Hg]; split; reflexivity.
  - destruct (base <=? slen (cfib st)); cbn [fst]; [rewrite close_trunc_other_fiber by exact Hg|]; split; reflexivity.
  - destruct (id <? unext st); [|cbn [fst]; split; reflexivity].
    destruct (ustore st id); cbn [fst]; split; reflexivity.
  - destruct (id <? unext st); [|cbn [fst]; split; reflexivity].
    destruct (ustore st id) as [f s|w]; cbn [fst]; [|split; reflexivity].
    (* a write through an upvalue open on fiber f changes a SLOT of f, not its list or its top *)
    unfold set_fib. cbn [fibs]. unfold upd.
    destruct (Nat.eqb_spec g f) as [Hf|Hf]; [subst f; cbn [openl slen]|]; split; reflexivity.
  - destruct (n <=? slen (cfib st)); cbn [fst]; [rewrite Hset|]; split; reflexivity.
  - cbn [fst fibs]. split; reflexivity.
Qed.

(* a capture on the running fiber: the slot is in the running fiber's OWN list afterwards, every other fiber is untouched *)
Theorem capture_lands_in_own_list : forall (st : mstate value) loc,
  loc < slen (cfib st) ->
  let st' := fst (step st (Capture loc)) in
  cur st' = cur st /\
  (exists k, In (k, loc) (openl (fibs st' (cur st)))) /\
  (forall g, g <> cur st -> fibs st' g = fibs st g).
Proof.
  intros st loc Hlt. cbn [step].
  destruct (Nat.ltb_spec loc (slen (cfib st))) as [_|Hge]; [|lia].
  pose proof (capture_facts _ st loc) as [Hcur [_ Hin]].
  pose proof (capture_other_fiber st loc) as Hoth.
  destruct (capture st loc) as [st' k]. cbn [fst snd] in *.
  split; [exact Hcur|]. split.
  - exists k. unfold cfib in Hin. rewrite Hcur in Hin. exact Hin.
  - intros g Hg. apply Hoth; exact Hg.
Qed.

End Fibers.

Print Assumptions step_other_fiber_lists.
Print Assumptions capture_lands_in_own_list.
