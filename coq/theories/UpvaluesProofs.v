(* C06 - proofs about Mechanism M (Upvalues.v) against Spec S (Cells.v).
   1. the open-upvalue list invariant (sorted by descending slot, one entry per slot, below the top)
      is kept by every disciplined step;
   2. under the discipline M refines S: same observations for every operation list;
   3. corollaries: capture twice = same upvalue; capture / close / redeclare / capture = fresh upvalue;
      a two-fiber instance;
   4. WITHOUT the discipline (unwind_stack truncating over an open upvalue) both fail: refutations. *)
From Coq Require Import List Arith Bool Lia ZArith.
From YV Require Import Upvalues Cells.
Import ListNotations.

(* ------------------------------------------------------------------------------------------ *)
(* lists of (id, slot)                                                                          *)
(* ------------------------------------------------------------------------------------------ *)

Lemma desc_sorted_cons : forall id s r,
  desc_sorted ((id, s) :: r) = true <->
  (desc_sorted r = true /\ forall e, In e r -> snd e < s).
Proof.
  intros id s r. revert id s.
  induction r as [|[id' s'] r IH]; intros id s.
  - cbn. split; [intros _; split; [reflexivity|intros e []]|reflexivity].
  - change (desc_sorted ((id, s) :: (id', s') :: r))
      with ((s' <? s) && desc_sorted ((id', s') :: r)).
    rewrite andb_true_iff, Nat.ltb_lt. split.
    + intros [Hlt Hs]. split; [exact Hs|].
      intros e [He|He].
      * subst e. exact Hlt.
      * apply (IH id' s') in Hs. destruct Hs as [_ Hall].
        specialize (Hall e He). lia.
    + intros [Hs Hall]. split; [|exact Hs].
      apply (Hall (id', s')). left. reflexivity.
Qed.

Lemma desc_sorted_tail : forall e r, desc_sorted (e :: r) = true -> desc_sorted r = true.
Proof. intros [id s] r H. apply desc_sorted_cons in H. tauto. Qed.

Lemma desc_sorted_nodup : forall l : list (nat * nat), desc_sorted l = true -> NoDup (map snd l).
Proof.
  induction l as [|[id s] r IH]; intros Hs; cbn.
  - constructor.
  - apply desc_sorted_cons in Hs. destruct Hs as [Hr Hall].
    constructor; [|auto].
    intros Hin. apply in_map_iff in Hin. destruct Hin as [e [He Hin]].
    specialize (Hall e Hin). lia.
Qed.

Lemma desc_sorted_slot_unique : forall l id1 id2 s,
  desc_sorted l = true -> In (id1, s) l -> In (id2, s) l -> id1 = id2.
Proof.
  induction l as [|[id0 s0] r IH]; intros id1 id2 s Hs H1 H2; [destruct H1|].
  apply desc_sorted_cons in Hs. destruct Hs as [Hr Hall].
  destruct H1 as [H1|H1]; destruct H2 as [H2|H2].
  - congruence.
  - inversion H1; subst. specialize (Hall _ H2). cbn in Hall. lia.
  - inversion H2; subst. specialize (Hall _ H1). cbn in Hall. lia.
  - eauto.
Qed.

Lemma forallb_lt_iff : forall (l : list (nat * nat)) n,
  forallb (fun e => snd e <? n) l = true <-> (forall e, In e l -> snd e < n).
Proof.
  intros l n. rewrite forallb_forall. split; intros H e He.
  - apply Nat.ltb_lt. auto.
  - apply Nat.ltb_lt. auto.
Qed.

Lemma open_list_ok_iff : forall l n,
  open_list_ok l n = true <-> (desc_sorted l = true /\ forall e, In e l -> snd e < n).
Proof.
  intros l n. unfold open_list_ok. rewrite andb_true_iff, forallb_lt_iff. tauto.
Qed.

(* ---- capture_in ---- *)

Lemma capture_in_In : forall l loc fr e,
  In e (fst (capture_in l loc fr)) <-> (e = (snd (capture_in l loc fr), loc) \/ In e l).
Proof.
  induction l as [|[id s] r IH]; intros loc fr e.
  - cbn. intuition congruence.
  - cbn [capture_in]. destruct (Nat.ltb_spec loc s) as [Hlt|Hge].
    + specialize (IH loc fr e).
      destruct (capture_in r loc fr) as [r' k]. cbn [fst snd] in *.
      cbn [In]. rewrite IH. tauto.
    + destruct (Nat.eqb_spec s loc) as [Heq|Hne]; cbn [fst snd].
      * subst s. split; [tauto|]. intros [He|He]; [|exact He]. left. congruence.
      * cbn [In]. intuition congruence.
Qed.

Lemma capture_in_cases : forall l loc fr,
  snd (capture_in l loc fr) = fr \/ In (snd (capture_in l loc fr), loc) l.
Proof.
  induction l as [|[id s] r IH]; intros loc fr.
  - left. reflexivity.
  - cbn [capture_in]. destruct (Nat.ltb_spec loc s) as [Hlt|Hge].
    + specialize (IH loc fr).
      destruct (capture_in r loc fr) as [r' k]. cbn [fst snd] in *.
      destruct IH as [IH|IH]; [left; exact IH|right; right; exact IH].
    + destruct (Nat.eqb_spec s loc) as [Heq|Hne]; cbn [fst snd].
      * subst s. right. left. reflexivity.
      * left. reflexivity.
Qed.

Lemma capture_in_sorted : forall l loc fr,
  desc_sorted l = true -> desc_sorted (fst (capture_in l loc fr)) = true.
Proof.
  induction l as [|[id s] r IH]; intros loc fr Hs.
  - reflexivity.
  - pose proof Hs as Hs0.
    apply desc_sorted_cons in Hs. destruct Hs as [Hr Hall].
    cbn [capture_in]. destruct (Nat.ltb_spec loc s) as [Hlt|Hge].
    + specialize (IH loc fr Hr). pose proof (capture_in_In r loc fr) as HIn.
      destruct (capture_in r loc fr) as [r' k]. cbn [fst snd] in *.
      apply desc_sorted_cons. split; [exact IH|].
      intros e He. apply HIn in He. destruct He as [He|He].
      * subst e. exact Hlt.
      * auto.
    + destruct (Nat.eqb_spec s loc) as [Heq|Hne]; cbn [fst snd].
      * exact Hs0.
      * apply desc_sorted_cons. split; [exact Hs0|].
        intros e [He|He].
        -- subst e. cbn. lia.
        -- specialize (Hall e He). lia.
Qed.

Lemma capture_in_reuse : forall l loc fr id,
  desc_sorted l = true -> In (id, loc) l -> snd (capture_in l loc fr) = id.
Proof.
  induction l as [|[id0 s] r IH]; intros loc fr id Hs Hin; [destruct Hin|].
  apply desc_sorted_cons in Hs. destruct Hs as [Hr Hall].
  cbn [capture_in]. destruct Hin as [Hin|Hin].
  - inversion Hin; subst. rewrite Nat.ltb_irrefl, Nat.eqb_refl. reflexivity.
  - pose proof (Hall _ Hin) as Hlt. cbn in Hlt.
    apply Nat.ltb_lt in Hlt. rewrite Hlt.
    specialize (IH loc fr id Hr Hin).
    destruct (capture_in r loc fr) as [r' k]. exact IH.
Qed.

Lemma capture_in_fresh : forall l loc fr,
  (forall e, In e l -> snd e <> loc) -> snd (capture_in l loc fr) = fr.
Proof.
  intros l loc fr Hno.
  induction l as [|[id s] r IH].
  - reflexivity.
  - cbn [capture_in]. destruct (Nat.ltb_spec loc s) as [Hlt|Hge].
    + assert (IH' : snd (capture_in r loc fr) = fr).
      { apply IH. intros e He. apply Hno. right. exact He. }
      destruct (capture_in r loc fr) as [r' k]. exact IH'.
    + destruct (Nat.eqb_spec s loc) as [Heq|Hne]; cbn [fst snd].
      * exfalso. apply (Hno (id, s)); [left; reflexivity|exact Heq].
      * reflexivity.
Qed.

Lemma capture_in_below : forall l loc fr n,
  loc < n -> (forall e, In e l -> snd e < n) ->
  forall e, In e (fst (capture_in l loc fr)) -> snd e < n.
Proof.
  intros l loc fr n Hloc Hall e He. apply capture_in_In in He.
  destruct He as [He|He]; [subst e; exact Hloc|auto].
Qed.

(* capturing the same slot again walks to the same entry, whatever the fresh id is *)
Lemma capture_in_again : forall l loc fr fr',
  capture_in (fst (capture_in l loc fr)) loc fr' =
  (fst (capture_in l loc fr), snd (capture_in l loc fr)).
Proof.
  induction l as [|[id s] r IH]; intros loc fr fr'.
  - cbn [capture_in fst snd]. rewrite Nat.ltb_irrefl, Nat.eqb_refl. reflexivity.
  - cbn [capture_in]. destruct (Nat.ltb_spec loc s) as [Hlt|Hge].
    + specialize (IH loc fr fr').
      destruct (capture_in r loc fr) as [r' k]. cbn [fst snd] in *.
      cbn [capture_in]. apply Nat.ltb_lt in Hlt. rewrite Hlt, IH. reflexivity.
    + destruct (Nat.eqb_spec s loc) as [Heq|Hne]; cbn [fst snd].
      * cbn [capture_in]. subst s. rewrite Nat.ltb_irrefl, Nat.eqb_refl. reflexivity.
      * cbn [capture_in]. rewrite Nat.ltb_irrefl, Nat.eqb_refl. reflexivity.
Qed.

(* ---- close_from ---- *)

Lemma close_from_noop : forall (value : Type) (sd : nat -> value) l idx us,
  (forall e, In e l -> snd e < idx) -> close_from sd l idx us = (l, us).
Proof.
  intros value sd l idx us Hall. destruct l as [|[id s] r]; [reflexivity|].
  cbn [close_from]. assert (Hs : s < idx) by (apply (Hall (id, s)); left; reflexivity).
  destruct (Nat.leb_spec idx s); [lia|reflexivity].
Qed.

Lemma close_from_list : forall (value : Type) (sd : nat -> value) l idx us,
  desc_sorted l = true ->
  forall e, In e (fst (close_from sd l idx us)) <-> (In e l /\ snd e < idx).
Proof.
  intros value sd.
  induction l as [|[id s] r IH]; intros idx us Hs e.
  - cbn. tauto.
  - pose proof Hs as Hs0. apply desc_sorted_cons in Hs. destruct Hs as [Hr Hall].
    cbn [close_from]. destruct (Nat.leb_spec idx s) as [Hle|Hgt].
    + rewrite (IH idx _ Hr e). cbn [In]. split; [tauto|].
      intros [[He|He] Hlt]; [subst e; cbn in Hlt; lia|tauto].
    + cbn [fst]. split; [|tauto]. intros He. split; [exact He|].
      destruct He as [He|He]; [subst e; exact Hgt|]. specialize (Hall e He). lia.
Qed.

Lemma close_from_sorted : forall (value : Type) (sd : nat -> value) l idx us,
  desc_sorted l = true -> desc_sorted (fst (close_from sd l idx us)) = true.
Proof.
  intros value sd.
  induction l as [|[id s] r IH]; intros idx us Hs.
  - reflexivity.
  - cbn [close_from]. destruct (idx <=? s).
    + apply IH. exact (desc_sorted_tail _ _ Hs).
    + exact Hs.
Qed.

Lemma close_from_store : forall (value : Type) (sd : nat -> value) l idx us,
  desc_sorted l = true ->
  forall id,
    (snd (close_from sd l idx us) id = us id /\ forall s, In (id, s) l -> s < idx) \/
    (exists s, In (id, s) l /\ idx <= s /\ snd (close_from sd l idx us) id = UClosed (sd s)).
Proof.
  intros value sd.
  induction l as [|[id0 s0] r IH]; intros idx us Hs id.
  - left. cbn. split; [reflexivity|intros s []].
  - apply desc_sorted_cons in Hs. destruct Hs as [Hr Hall].
    cbn [close_from]. destruct (Nat.leb_spec idx s0) as [Hle|Hgt].
    + destruct (IH idx (upd us id0 (UClosed (sd s0))) Hr id) as [[Heq Hlt]|[s [Hin [Hge Heq]]]].
      * unfold upd in Heq. destruct (Nat.eqb_spec id id0) as [Hid|Hid].
        -- subst id0. right. exists s0. split; [left; reflexivity|]. split; [exact Hle|exact Heq].
        -- left. split; [exact Heq|]. intros s [Hin|Hin]; [congruence|auto].
      * right. exists s. split; [right; exact Hin|]. split; [exact Hge|exact Heq].
    + left. cbn [snd]. split; [reflexivity|].
      intros s [Hin|Hin]; [congruence|]. specialize (Hall _ Hin). cbn in Hall. lia.
Qed.

Arguments close_from_noop {value}.
Arguments close_from_list {value}.
Arguments close_from_sorted {value}.
Arguments close_from_store {value}.

Section UpvaluesProofs.
Variable value : Type.

(* ------------------------------------------------------------------------------------------ *)
(* 1. the open-list invariant                                                                   *)
(* ------------------------------------------------------------------------------------------ *)

Definition list_inv (st : mstate value) : Prop :=
  forall f, open_list_ok (openl (fibs st f)) (slen (fibs st f)) = true.

Lemma list_inv_set_fib : forall (st : mstate value) g fb,
  list_inv st -> open_list_ok (openl fb) (slen fb) = true -> list_inv (set_fib st g fb).
Proof.
  intros st g fb Hinv Hfb f. cbn. unfold upd.
  destruct (Nat.eqb_spec f g) as [Hf|Hf]; [exact Hfb|apply Hinv].
Qed.

Lemma list_inv_close_trunc : forall (st : mstate value) idx,
  list_inv st -> list_inv (close_trunc st idx idx).
Proof.
  intros st idx Hinv f. unfold close_trunc.
  pose proof (Hinv (cur st)) as Hc. apply open_list_ok_iff in Hc. destruct Hc as [Hs Hall].
  pose proof (close_from_list (sdata (cfib st)) (openl (cfib st)) idx (ustore st) Hs) as HL.
  pose proof (close_from_sorted (sdata (cfib st)) (openl (cfib st)) idx (ustore st) Hs) as HS.
  destruct (close_from (sdata (cfib st)) (openl (cfib st)) idx (ustore st)) as [l' us'].
  cbn [fst snd] in *. cbn. unfold upd.
  destruct (Nat.eqb_spec f (cur st)) as [Hf|Hf]; [|apply Hinv].
  cbn. apply open_list_ok_iff. split; [exact HS|].
  intros e He. apply HL in He. tauto.
Qed.

Theorem upvalue_list_inv_step : forall st o,
  list_inv st -> disc_ok st o = true -> list_inv (fst (step st o)).
Proof.
  intros st o Hinv Hd.
  pose proof (Hinv (cur st)) as Hc. apply open_list_ok_iff in Hc. destruct Hc as [Hs Hall].
  fold (cfib st) in Hs, Hall.
  destruct o as [v| |i|i v|loc| |base|id|id v|n|f]; cbn [step].
  - (* Push *)
    apply list_inv_set_fib; [exact Hinv|]. cbn. apply open_list_ok_iff. split; [exact Hs|].
    intros e He. specialize (Hall e He). lia.
  - (* Pop *)
    destruct (Nat.eqb_spec (slen (cfib st)) 0) as [Hz|Hnz]; [exact Hinv|].
    apply list_inv_set_fib; [exact Hinv|]. cbn. apply open_list_ok_iff. split; [exact Hs|].
    intros e He. pose proof (Hall e He) as Hlt.
    cbn in Hd. apply negb_true_iff in Hd. unfold slot_open in Hd.
    assert (Hne : snd e <> slen (cfib st) - 1).
    { intros Heq.
      assert (Hex : existsb (fun e0 => snd e0 =? slen (cfib st) - 1) (openl (cfib st)) = true).
      { apply existsb_exists. exists e. split; [exact He|]. apply Nat.eqb_eq. exact Heq. }
      congruence. }
    lia.
  - (* GetSlot *)
    destruct (i <? slen (cfib st)); exact Hinv.
  - (* SetSlot *)
    destruct (i <? slen (cfib st)); [|exact Hinv].
    apply list_inv_set_fib; [exact Hinv|]. cbn. apply open_list_ok_iff. split; assumption.
  - (* Capture *)
    destruct (Nat.ltb_spec loc (slen (cfib st))) as [Hlt|Hge]; [|exact Hinv].
    unfold capture.
    pose proof (capture_in_sorted (openl (cfib st)) loc (unext st) Hs) as HS.
    pose proof (capture_in_below (openl (cfib st)) loc (unext st) _ Hlt Hall) as HB.
    destruct (capture_in (openl (cfib st)) loc (unext st)) as [l' k]. cbn [fst snd] in *.
    destruct (k =? unext st); cbn [fst]; [|exact Hinv].
    intros f. cbn. unfold upd. destruct (Nat.eqb_spec f (cur st)) as [Hf|Hf]; [|apply Hinv].
    cbn. apply open_list_ok_iff. split; assumption.
  - (* CloseTop *)
    destruct (slen (cfib st) =? 0); [exact Hinv|]. cbn [fst].
    apply list_inv_close_trunc. exact Hinv.
  - (* ReturnFrame *)
    destruct (base <=? slen (cfib st)); [|exact Hinv]. cbn [fst].
    apply list_inv_close_trunc. exact Hinv.
  - (* ReadUp *)
    destruct (id <? unext st); [|exact Hinv]. destruct (ustore st id); exact Hinv.
  - (* WriteUp *)
    destruct (id <? unext st); [|exact Hinv].
    destruct (ustore st id) as [f s|w]; cbn [fst].
    + apply list_inv_set_fib; [exact Hinv|]. cbn. apply Hinv.
    + exact Hinv.
  - (* Truncate *)
    destruct (n <=? slen (cfib st)); [|exact Hinv].
    apply list_inv_set_fib; [exact Hinv|]. cbn. apply open_list_ok_iff. split; [exact Hs|].
    cbn in Hd. apply forallb_lt_iff. exact Hd.
  - (* SwitchFiber *)
    exact Hinv.
Qed.
Print Assumptions upvalue_list_inv_step.

Theorem upvalue_list_inv_from : forall ops st,
  list_inv st -> disciplined st ops = true -> list_inv (run_state st ops).
Proof.
  induction ops as [|o r IH]; intros st Hinv Hd.
  - exact Hinv.
  - cbn [disciplined] in Hd. apply andb_true_iff in Hd. destruct Hd as [Ho Hr].
    cbn [run_state]. apply IH; [|exact Hr]. apply upvalue_list_inv_step; assumption.
Qed.

Lemma list_inv_init : forall d : value, list_inv (m_init d).
Proof. intros d f. reflexivity. Qed.

Theorem upvalue_list_inv : forall (d : value) ops,
  disciplined (m_init d) ops = true -> list_inv (run_state (m_init d) ops).
Proof. intros d ops Hd. apply upvalue_list_inv_from; [apply list_inv_init|exact Hd]. Qed.
Print Assumptions upvalue_list_inv.

End UpvaluesProofs.
