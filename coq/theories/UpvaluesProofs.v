(* C06 - proofs about Mechanism M (Upvalues.v) against Spec S (Cells.v).
   1. the open-upvalue list invariant (sorted by descending slot, one entry per slot, below the top)
      is kept by every disciplined step;
   2. under the discipline M refines S: same observations for every operation list;
   3. corollaries: capture twice = same upvalue; capture / close / redeclare / capture = fresh upvalue;
      a two-fiber instance;
   4. WITHOUT the discipline (unwind_stack truncating over an open upvalue) both fail: refutations. *)
From Coq Require Import List Arith Bool Lia ZArith.
From YV Require Import Upvalues Cells.
Import ListNotations.

(* ------------------------------------------------------------------------------------------ *)
(* lists of (id, slot)                                                                          *)
(* ------------------------------------------------------------------------------------------ *)

Lemma desc_sorted_cons : forall id s r,
  desc_sorted ((id, s) :: r) = true <->
  (desc_sorted r = true /\ forall e, In e r -> snd e < s).
Proof.
  intros id s r. revert id s.
  induction r as [|[id' s'] r IH]; intros id s.
  - cbn. split; [intros _; split; [reflexivity|intros e []]|reflexivity].
  - change (desc_sorted ((id, s) :: (id', s') :: r))
      with ((s' <? s) && desc_sorted ((id', s') :: r)).
    rewrite andb_true_iff, Nat.ltb_lt. split.
    + intros [Hlt Hs]. split; [exact Hs|].
      intros e [He|He].
      * subst e. exact Hlt.
      * apply (IH id' s') in Hs. destruct Hs as [_ Hall].
        specialize (Hall e He). lia.
    + intros [Hs Hall]. split; [|exact Hs].
      apply (Hall (id', s')). left. reflexivity.
Qed.

Lemma desc_sorted_tail : forall e r, desc_sorted (e :: r) = true -> desc_sorted r = true.
Proof. intros [id s] r H. apply desc_sorted_cons in H. tauto. Qed.

Lemma desc_sorted_nodup : forall l : list (nat * nat), desc_sorted l = true -> NoDup (map snd l).
Proof.
  induction l as [|[id s] r IH]; intros Hs; cbn.
  - constructor.
  - apply desc_sorted_cons in Hs. destruct Hs as [Hr Hall].
    constructor; [|auto].
    intros Hin. apply in_map_iff in Hin. destruct Hin as [e [He Hin]].
    specialize (Hall e Hin). lia.
Qed.

Lemma desc_sorted_slot_unique : forall l id1 id2 s,
  desc_sorted l = true -> In (id1, s) l -> In (id2, s) l -> id1 = id2.
Proof.
  induction l as [|[id0 s0] r IH]; intros id1 id2 s Hs H1 H2; [destruct H1|].
  apply desc_sorted_cons in Hs. destruct Hs as [Hr Hall].
  destruct H1 as [H1|H1]; destruct H2 as [H2|H2].
  - congruence.
  - inversion H1; subst. specialize (Hall _ H2). cbn in Hall. lia.
  - inversion H2; subst. specialize (Hall _ H1). cbn in Hall. lia.
  - eauto.
Qed.

Lemma forallb_lt_iff : forall (l : list (nat * nat)) n,
  forallb (fun e => snd e <? n) l = true <-> (forall e, In e l -> snd e < n).
Proof.
  intros l n. rewrite forallb_forall. split; intros H e He.
  - apply Nat.ltb_lt. auto.
  - apply Nat.ltb_lt. auto.
Qed.

Lemma open_list_ok_iff : forall l n,
  open_list_ok l n = true <-> (desc_sorted l = true /\ forall e, In e l -> snd e < n).
Proof.
  intros l n. unfold open_list_ok. rewrite andb_true_iff, forallb_lt_iff. tauto.
Qed.

(* ---- capture_in ---- *)

Lemma capture_in_In : forall l loc fr e,
  In e (fst (capture_in l loc fr)) <-> (e = (snd (capture_in l loc fr), loc) \/ In e l).
Proof.
  induction l as [|[id s] r IH]; intros loc fr e.
  - cbn. intuition congruence.
  - cbn [capture_in]. destruct (Nat.ltb_spec loc s) as [Hlt|Hge].
    + specialize (IH loc fr e).
      destruct (capture_in r loc fr) as [r' k]. cbn [fst snd] in *.
      cbn [In]. rewrite IH. tauto.
    + destruct (Nat.eqb_spec s loc) as [Heq|Hne]; cbn [fst snd].
      * subst s. split; [tauto|]. intros [He|He]; [|exact He]. left. congruence.
      * cbn [In]. intuition congruence.
Qed.

Lemma capture_in_cases : forall l loc fr,
  snd (capture_in l loc fr) = fr \/ In (snd (capture_in l loc fr), loc) l.
Proof.
  induction l as [|[id s] r IH]; intros loc fr.
  - left. reflexivity.
  - cbn [capture_in]. destruct (Nat.ltb_spec loc s) as [Hlt|Hge].
    + specialize (IH loc fr).
      destruct (capture_in r loc fr) as [r' k]. cbn [fst snd] in *.
      destruct IH as [IH|IH]; [left; exact IH|right; right; exact IH].
    + destruct (Nat.eqb_spec s loc) as [Heq|Hne]; cbn [fst snd].
      * subst s. right. left. reflexivity.
      * left. reflexivity.
Qed.

Lemma capture_in_sorted : forall l loc fr,
  desc_sorted l = true -> desc_sorted (fst (capture_in l loc fr)) = true.
Proof.
  induction l as [|[id s] r IH]; intros loc fr Hs.
  - reflexivity.
  - pose proof Hs as Hs0.
    apply desc_sorted_cons in Hs. destruct Hs as [Hr Hall].
    cbn [capture_in]. destruct (Nat.ltb_spec loc s) as [Hlt|Hge].
    + specialize (IH loc fr Hr). pose proof (capture_in_In r loc fr) as HIn.
      destruct (capture_in r loc fr) as [r' k]. cbn [fst snd] in *.
      apply desc_sorted_cons. split; [exact IH|].
      intros e He. apply HIn in He. destruct He as [He|He].
      * subst e. exact Hlt.
      * auto.
    + destruct (Nat.eqb_spec s loc) as [Heq|Hne]; cbn [fst snd].
      * exact Hs0.
      * apply desc_sorted_cons. split; [exact Hs0|].
        intros e [He|He].
        -- subst e. cbn. lia.
        -- specialize (Hall e He). lia.
Qed.

Lemma capture_in_reuse : forall l loc fr id,
  desc_sorted l = true -> In (id, loc) l -> snd (capture_in l loc fr) = id.
Proof.
  induction l as [|[id0 s] r IH]; intros loc fr id Hs Hin; [destruct Hin|].
  apply desc_sorted_cons in Hs. destruct Hs as [Hr Hall].
  cbn [capture_in]. destruct Hin as [Hin|Hin].
  - inversion Hin; subst. rewrite Nat.ltb_irrefl, Nat.eqb_refl. reflexivity.
  - pose proof (Hall _ Hin) as Hlt. cbn in Hlt.
    apply Nat.ltb_lt in Hlt. rewrite Hlt.
    specialize (IH loc fr id Hr Hin).
    destruct (capture_in r loc fr) as [r' k]. exact IH.
Qed.

Lemma capture_in_fresh : forall l loc fr,
  (forall e, In e l -> snd e <> loc) -> snd (capture_in l loc fr) = fr.
Proof.
  intros l loc fr Hno.
  induction l as [|[id s] r IH].
  - reflexivity.
  - cbn [capture_in]. destruct (Nat.ltb_spec loc s) as [Hlt|Hge].
    + assert (IH' : snd (capture_in r loc fr) = fr).
      { apply IH. intros e He. apply Hno. right. exact He. }
      destruct (capture_in r loc fr) as [r' k]. exact IH'.
    + destruct (Nat.eqb_spec s loc) as [Heq|Hne]; cbn [fst snd].
      * exfalso. apply (Hno (id, s)); [left; reflexivity|exact Heq].
      * reflexivity.
Qed.

Lemma capture_in_below : forall l loc fr n,
  loc < n -> (forall e, In e l -> snd e < n) ->
  forall e, In e (fst (capture_in l loc fr)) -> snd e < n.
Proof.
  intros l loc fr n Hloc Hall e He. apply capture_in_In in He.
  destruct He as [He|He]; [subst e; exact Hloc|auto].
Qed.

(* capturing the same slot again walks to the same entry, whatever the fresh id is *)
Lemma capture_in_again : forall l loc fr fr',
  capture_in (fst (capture_in l loc fr)) loc fr' =
  (fst (capture_in l loc fr), snd (capture_in l loc fr)).
Proof.
  induction l as [|[id s] r IH]; intros loc fr fr'.
  - cbn [capture_in fst snd]. rewrite Nat.ltb_irrefl, Nat.eqb_refl. reflexivity.
  - cbn [capture_in]. destruct (Nat.ltb_spec loc s) as [Hlt|Hge].
    + specialize (IH loc fr fr').
      destruct (capture_in r loc fr) as [r' k]. cbn [fst snd] in *.
      cbn [capture_in]. apply Nat.ltb_lt in Hlt. rewrite Hlt, IH. reflexivity.
    + destruct (Nat.eqb_spec s loc) as [Heq|Hne]; cbn [fst snd].
      * cbn [capture_in]. subst s. rewrite Nat.ltb_irrefl, Nat.eqb_refl. reflexivity.
      * cbn [capture_in]. rewrite Nat.ltb_irrefl, Nat.eqb_refl. reflexivity.
Qed.

(* ---- close_from ---- *)

Lemma close_from_noop : forall (value : Type) (sd : nat -> value) l idx us,
  (forall e, In e l -> snd e < idx) -> close_from sd l idx us = (l, us).
Proof.
  intros value sd l idx us Hall. destruct l as [|[id s] r]; [reflexivity|].
  cbn [close_from]. assert (Hs : s < idx) by (apply (Hall (id, s)); left; reflexivity).
  destruct (Nat.leb_spec idx s); [lia|reflexivity].
Qed.

Lemma close_from_list : forall (value : Type) (sd : nat -> value) l idx us,
  desc_sorted l = true ->
  forall e, In e (fst (close_from sd l idx us)) <-> (In e l /\ snd e < idx).
Proof.
  intros value sd.
  induction l as [|[id s] r IH]; intros idx us Hs e.
  - cbn. tauto.
  - pose proof Hs as Hs0. apply desc_sorted_cons in Hs. destruct Hs as [Hr Hall].
    cbn [close_from]. destruct (Nat.leb_spec idx s) as [Hle|Hgt].
    + rewrite (IH idx _ Hr e). cbn [In]. split; [tauto|].
      intros [[He|He] Hlt]; [subst e; cbn in Hlt; lia|tauto].
    + cbn [fst]. split; [|tauto]. intros He. split; [exact He|].
      destruct He as [He|He]; [subst e; exact Hgt|]. specialize (Hall e He). lia.
Qed.

Lemma close_from_sorted : forall (value : Type) (sd : nat -> value) l idx us,
  desc_sorted l = true -> desc_sorted (fst (close_from sd l idx us)) = true.
Proof.
  intros value sd.
  induction l as [|[id s] r IH]; intros idx us Hs.
  - reflexivity.
  - cbn [close_from]. destruct (idx <=? s).
    + apply IH. exact (desc_sorted_tail _ _ Hs).
    + exact Hs.
Qed.

Lemma close_from_store : forall (value : Type) (sd : nat -> value) l idx us,
  desc_sorted l = true ->
  forall id,
    (snd (close_from sd l idx us) id = us id /\ forall s, In (id, s) l -> s < idx) \/
    (exists s, In (id, s) l /\ idx <= s /\ snd (close_from sd l idx us) id = UClosed (sd s)).
Proof.
  intros value sd.
  induction l as [|[id0 s0] r IH]; intros idx us Hs id.
  - left. cbn. split; [reflexivity|intros s []].
  - apply desc_sorted_cons in Hs. destruct Hs as [Hr Hall].
    cbn [close_from]. destruct (Nat.leb_spec idx s0) as [Hle|Hgt].
    + destruct (IH idx (upd us id0 (UClosed (sd s0))) Hr id) as [[Heq Hlt]|[s [Hin [Hge Heq]]]].
      * unfold upd in Heq. destruct (Nat.eqb_spec id id0) as [Hid|Hid].
        -- subst id0. right. exists s0. split; [left; reflexivity|]. split; [exact Hle|exact Heq].
        -- left. split; [exact Heq|]. intros s [Hin|Hin]; [congruence|auto].
      * right. exists s. split; [right; exact Hin|]. split; [exact Hge|exact Heq].
    + left. cbn [snd]. split; [reflexivity|].
      intros s [Hin|Hin]; [congruence|]. specialize (Hall _ Hin). cbn in Hall. lia.
Qed.

Arguments close_from_noop {value}.
Arguments close_from_list {value}.
Arguments close_from_sorted {value}.
Arguments close_from_store {value}.

Section UpvaluesProofs.
Variable value : Type.

(* ------------------------------------------------------------------------------------------ *)
(* 1. the open-list invariant                                                                   *)
(* ------------------------------------------------------------------------------------------ *)

Definition list_inv (st : mstate value) : Prop :=
  forall f, open_list_ok (openl (fibs st f)) (slen (fibs st f)) = true.

Lemma list_inv_set_fib : forall (st : mstate value) g fb,
  list_inv st -> open_list_ok (openl fb) (slen fb) = true -> list_inv (set_fib st g fb).
Proof.
  intros st g fb Hinv Hfb f. cbn. unfold upd.
  destruct (Nat.eqb_spec f g) as [Hf|Hf]; [exact Hfb|apply Hinv].
Qed.

Lemma list_inv_close_trunc : forall (st : mstate value) idx,
  list_inv st -> list_inv (close_trunc st idx idx).
Proof.
  intros st idx Hinv f. unfold close_trunc.
  pose proof (Hinv (cur st)) as Hc. apply open_list_ok_iff in Hc. destruct Hc as [Hs Hall].
  pose proof (close_from_list (sdata (cfib st)) (openl (cfib st)) idx (ustore st) Hs) as HL.
  pose proof (close_from_sorted (sdata (cfib st)) (openl (cfib st)) idx (ustore st) Hs) as HS.
  destruct (close_from (sdata (cfib st)) (openl (cfib st)) idx (ustore st)) as [l' us'].
  cbn [fst snd] in *. cbn. unfold upd.
  destruct (Nat.eqb_spec f (cur st)) as [Hf|Hf]; [|apply Hinv].
  cbn. apply open_list_ok_iff. split; [exact HS|].
  intros e He. apply HL in He. tauto.
Qed.

Theorem upvalue_list_inv_step : forall st o,
  list_inv st -> disc_ok st o = true -> list_inv (fst (step st o)).
Proof.
  intros st o Hinv Hd.
  pose proof (Hinv (cur st)) as Hc. apply open_list_ok_iff in Hc. destruct Hc as [Hs Hall].
  fold (cfib st) in Hs, Hall.
  destruct o as [v| |i|i v|loc| |base|id|id v|n|f]; cbn [step].
  - (* Push *)
    apply list_inv_set_fib; [exact Hinv|]. cbn. apply open_list_ok_iff. split; [exact Hs|].
    intros e He. specialize (Hall e He). lia.
  - (* Pop *)
    destruct (Nat.eqb_spec (slen (cfib st)) 0) as [Hz|Hnz]; [exact Hinv|].
    apply list_inv_set_fib; [exact Hinv|]. cbn. apply open_list_ok_iff. split; [exact Hs|].
    intros e He. pose proof (Hall e He) as Hlt.
    cbn in Hd. apply negb_true_iff in Hd. unfold slot_open in Hd.
    assert (Hne : snd e <> slen (cfib st) - 1).
    { intros Heq.
      assert (Hex : existsb (fun e0 => snd e0 =? slen (cfib st) - 1) (openl (cfib st)) = true).
      { apply existsb_exists. exists e. split; [exact He|]. apply Nat.eqb_eq. exact Heq. }
      congruence. }
    lia.
  - (* GetSlot *)
    destruct (i <? slen (cfib st)); exact Hinv.
  - (* SetSlot *)
    destruct (i <? slen (cfib st)); [|exact Hinv].
    apply list_inv_set_fib; [exact Hinv|]. cbn. apply open_list_ok_iff. split; assumption.
  - (* Capture *)
    destruct (Nat.ltb_spec loc (slen (cfib st))) as [Hlt|Hge]; [|exact Hinv].
    unfold capture.
    pose proof (capture_in_sorted (openl (cfib st)) loc (unext st) Hs) as HS.
    pose proof (capture_in_below (openl (cfib st)) loc (unext st) _ Hlt Hall) as HB.
    destruct (capture_in (openl (cfib st)) loc (unext st)) as [l' k]. cbn [fst snd] in *.
    destruct (k =? unext st); cbn [fst]; [|exact Hinv].
    intros f. cbn. unfold upd. destruct (Nat.eqb_spec f (cur st)) as [Hf|Hf]; [|apply Hinv].
    cbn. apply open_list_ok_iff. split; assumption.
  - (* CloseTop *)
    destruct (slen (cfib st) =? 0); [exact Hinv|]. cbn [fst].
    apply list_inv_close_trunc. exact Hinv.
  - (* ReturnFrame *)
    destruct (base <=? slen (cfib st)); [|exact Hinv]. cbn [fst].
    apply list_inv_close_trunc. exact Hinv.
  - (* ReadUp *)
    destruct (id <? unext st); [|exact Hinv]. destruct (ustore st id); exact Hinv.
  - (* WriteUp *)
    destruct (id <? unext st); [|exact Hinv].
    destruct (ustore st id) as [f s|w]; cbn [fst].
    + apply list_inv_set_fib; [exact Hinv|]. cbn. apply Hinv.
    + exact Hinv.
  - (* Truncate *)
    destruct (n <=? slen (cfib st)); [|exact Hinv].
    apply list_inv_set_fib; [exact Hinv|]. cbn. apply open_list_ok_iff. split; [exact Hs|].
    cbn in Hd. apply forallb_lt_iff. exact Hd.
  - (* SwitchFiber *)
    exact Hinv.
Qed.
Print Assumptions upvalue_list_inv_step.

Theorem upvalue_list_inv_from : forall ops st,
  list_inv st -> disciplined st ops = true -> list_inv (run_state st ops).
Proof.
  induction ops as [|o r IH]; intros st Hinv Hd.
  - exact Hinv.
  - cbn [disciplined] in Hd. apply andb_true_iff in Hd. destruct Hd as [Ho Hr].
    cbn [run_state]. apply IH; [|exact Hr]. apply upvalue_list_inv_step; assumption.
Qed.

Lemma list_inv_init : forall d : value, list_inv (m_init d).
Proof. intros d f. reflexivity. Qed.

Theorem upvalue_list_inv : forall (d : value) ops,
  disciplined (m_init d) ops = true -> list_inv (run_state (m_init d) ops).
Proof. intros d ops Hd. apply upvalue_list_inv_from; [apply list_inv_init|exact Hd]. Qed.
Print Assumptions upvalue_list_inv.

(* ------------------------------------------------------------------------------------------ *)
(* 2. refinement: the simulation relation                                                      *)
(* ------------------------------------------------------------------------------------------ *)

Record R (m : mstate value) (s : sstate value) : Prop := {
  R_cur : cur m = scur s;
  R_len : forall f, slen (fibs m f) = sslen (sfibs s f);
  R_val : forall f i, i < slen (fibs m f) -> sdata (fibs m f) i = cellv s (scells (sfibs s f) i);
  R_cell_lt : forall f i, i < sslen (sfibs s f) -> scells (sfibs s f) i < cnext s;
  R_cell_inj : forall f i g j, i < sslen (sfibs s f) -> j < sslen (sfibs s g) ->
               scells (sfibs s f) i = scells (sfibs s g) j -> f = g /\ i = j;
  R_next : unext m = hnext s;
  R_h_lt : forall h, h < hnext s -> handles s h < cnext s;
  R_h_inj : forall h k, h < hnext s -> k < hnext s -> handles s h = handles s k -> h = k;
  R_open : forall id f sl, id < unext m -> ustore m id = UOpen f sl ->
           sl < slen (fibs m f) /\ scells (sfibs s f) sl = handles s id /\
           In (id, sl) (openl (fibs m f));
  R_closed : forall id v, id < unext m -> ustore m id = UClosed v ->
             cellv s (handles s id) = v /\
             (forall f i, i < sslen (sfibs s f) -> scells (sfibs s f) i <> handles s id);
  R_list : forall f id sl, In (id, sl) (openl (fibs m f)) ->
           id < unext m /\ ustore m id = UOpen f sl;
  R_sorted : forall f, desc_sorted (openl (fibs m f)) = true
}.

Local Arguments upd : simpl never.

Ltac projs :=
  cbn [sdata slen openl fibs cur ustore unext scells sslen sfibs scur cellv cnext handles hnext
       fst snd] in *.

Ltac upd_cases :=
  unfold upd in *;
  repeat (match goal with
          | |- context[Nat.eqb ?a ?b] => destruct (Nat.eqb_spec a b)
          | H : context[Nat.eqb ?a ?b] |- _ => destruct (Nat.eqb_spec a b)
          end; projs).

Ltac vsubst :=
  repeat match goal with H : ?x = ?y |- _ => is_var x; is_var y; subst x end.

(* instantiate a hypothesis [H : forall f i, i < _ -> P (scells (sf f) i)] at every cell in sight *)
Ltac inst_cells H :=
  repeat match goal with
         | |- context[scells (?sf ?f) ?i] =>
             lazymatch goal with
             | _ : i < sslen (sf f) -> _ |- _ => fail
             | _ => pose proof (H f i)
             end
         | _ : context[scells (?sf ?f) ?i] |- _ =>
             lazymatch goal with
             | _ : i < sslen (sf f) -> _ |- _ => fail
             | _ => pose proof (H f i)
             end
         end.

Lemma R_init : forall d : value, R (m_init d) (s_init d).
Proof.
  intros d. constructor; cbn; intros; try reflexivity; try lia; try contradiction.
Qed.

Lemma R_list_inv : forall m s, R m s -> list_inv m.
Proof.
  intros m s HR f. apply open_list_ok_iff. split; [apply (R_sorted _ _ HR)|].
  intros [id sl] He. destruct (R_list _ _ HR f id sl He) as [Hid Hu].
  destruct (R_open _ _ HR id f sl Hid Hu) as [Hlt _]. exact Hlt.
Qed.

Lemma R_push : forall m s v, R m s -> R (fst (step m (Push v))) (fst (sstep s (Push v))).
Proof.
  intros [mf mc mu mn] [sf sc cv cn hd hn] v HR.
  destruct HR as [Hcur Hlen Hval Hclt Hcinj Hnext Hhlt Hhinj Hopen Hclosed Hlist Hsorted].
  cbn [step sstep]. unfold cfib, csfib, set_fib. projs. subst sc hn.
  pose proof (Hlen mc) as Hlc.
  constructor; projs.
  - reflexivity.
  - intros f. pose proof (Hlen f) as Hlf. upd_cases; vsubst; lia.
  - intros f i Hi. pose proof (Hlen f) as Hlf.
    upd_cases; vsubst; inst_cells Hclt; try reflexivity; try lia; apply Hval; lia.
  - intros f i Hi. upd_cases; vsubst; inst_cells Hclt; lia.
  - intros f i g j Hi Hj He.
    upd_cases; vsubst; inst_cells Hclt; try lia.
    + destruct (Hcinj mc i mc j) as [_ Hij]; try assumption; lia.
    + destruct (Hcinj mc i g j) as [Hfg _]; try assumption; try lia; try congruence.
    + destruct (Hcinj f i mc j) as [Hfg _]; try assumption; try lia; try congruence.
    + apply Hcinj; assumption.
  - reflexivity.
  - intros h Hh. specialize (Hhlt h Hh). lia.
  - exact Hhinj.
  - intros id f sl Hid Hu. destruct (Hopen id f sl Hid Hu) as (Ha & Hb & Hc).
    pose proof (Hlen f) as Hlf.
    upd_cases; vsubst; repeat split; try assumption; try lia.
  - intros id w Hid Hu. destruct (Hclosed id w Hid Hu) as [Ha Hb].
    specialize (Hhlt id Hid). split.
    + upd_cases; [lia|exact Ha].
    + intros f i Hi. upd_cases; vsubst; try lia; apply Hb; lia.
  - intros f id sl Hin. upd_cases; vsubst; apply Hlist; exact Hin.
  - intros f. upd_cases; vsubst; apply Hsorted.
Qed.

Lemma R_write_slot : forall m s f i v, R m s -> i < slen (fibs m f) ->
  R (set_fib m f (mkFiber (upd (sdata (fibs m f)) i v) (slen (fibs m f)) (openl (fibs m f))))
    (set_cell s (scells (sfibs s f) i) v).
Proof.
  intros [mf mc mu mn] [sf sc cv cn hd hn] f0 i0 v HR Hi0.
  destruct HR as [Hcur Hlen Hval Hclt Hcinj Hnext Hhlt Hhinj Hopen Hclosed Hlist Hsorted].
  unfold set_fib, set_cell. projs. subst sc hn.
  pose proof (Hlen f0) as Hl0.
  constructor; projs.
  - reflexivity.
  - intros f. pose proof (Hlen f) as Hlf. upd_cases; vsubst; lia.
  - intros f i Hi. pose proof (Hlen f) as Hlf.
    upd_cases; vsubst; try reflexivity; try lia; try (apply Hval; lia).
    + destruct (Hcinj f0 i f0 i0) as [_ Hij]; try assumption; lia.
    + destruct (Hcinj f i f0 i0) as [Hfg _]; try assumption; try lia; try congruence.
  - exact Hclt.
  - exact Hcinj.
  - reflexivity.
  - exact Hhlt.
  - exact Hhinj.
  - intros id f sl Hid Hu. destruct (Hopen id f sl Hid Hu) as (Ha & Hb & Hc).
    upd_cases; vsubst; repeat split; assumption.
  - intros id w Hid Hu. destruct (Hclosed id w Hid Hu) as [Ha Hb]. split; [|exact Hb].
    upd_cases; [|exact Ha]. exfalso. apply (Hb f0 i0); [lia|congruence].
  - intros f id sl Hin. upd_cases; vsubst; apply Hlist; exact Hin.
  - intros f. upd_cases; vsubst; apply Hsorted.
Qed.

Lemma R_write_closed : forall m s id v w, R m s -> id < unext m -> ustore m id = UClosed w ->
  R (mkM (fibs m) (cur m) (upd (ustore m) id (UClosed v)) (unext m))
    (set_cell s (handles s id) v).
Proof.
  intros [mf mc mu mn] [sf sc cv cn hd hn] id0 v w HR Hid0 Hu0.
  destruct HR as [Hcur Hlen Hval Hclt Hcinj Hnext Hhlt Hhinj Hopen Hclosed Hlist Hsorted].
  unfold set_cell. projs. subst sc hn.
  destruct (Hclosed id0 w Hid0 Hu0) as [Ha0 Hb0].
  constructor; projs.
  - reflexivity.
  - exact Hlen.
  - intros f i Hi. pose proof (Hlen f) as Hlf. upd_cases; [|apply Hval; exact Hi].
    exfalso. apply (Hb0 f i); [lia|assumption].
  - exact Hclt.
  - exact Hcinj.
  - reflexivity.
  - exact Hhlt.
  - exact Hhinj.
  - intros id f sl Hid Hu. upd_cases; [discriminate|]. apply Hopen; assumption.
  - intros id u Hid Hu. unfold upd in Hu. destruct (Nat.eqb_spec id id0) as [Hidd|Hidd].
    + subst id0. inversion Hu; subst u. split; [|exact Hb0].
      unfold upd. rewrite Nat.eqb_refl. reflexivity.
    + destruct (Hclosed id u Hid Hu) as [Ha Hb]. split; [|exact Hb].
      unfold upd. destruct (Nat.eqb_spec (hd id) (hd id0)) as [Hh|Hh]; [|exact Ha].
      exfalso. apply Hidd. apply Hhinj; assumption.
  - intros f id sl Hin. destruct (Hlist f id sl Hin) as [Ha Hb]. split; [exact Ha|].
    upd_cases; vsubst; [congruence|exact Hb].
  - exact Hsorted.
Qed.

Lemma R_switch : forall m s f, R m s ->
  R (mkM (fibs m) f (ustore m) (unext m))
    (mkS (sfibs s) f (cellv s) (cnext s) (handles s) (hnext s)).
Proof.
  intros m s f HR.
  destruct HR as [Hcur Hlen Hval Hclt Hcinj Hnext Hhlt Hhinj Hopen Hclosed Hlist Hsorted].
  constructor; projs; try assumption; reflexivity.
Qed.

Lemma R_capture_new : forall m s loc, R m s -> loc < slen (cfib m) ->
  snd (capture_in (openl (cfib m)) loc (unext m)) = unext m ->
  (forall h, h < hnext s -> handles s h <> scells (csfib s) loc) ->
  R (mkM (upd (fibs m) (cur m)
              (mkFiber (sdata (cfib m)) (slen (cfib m))
                       (fst (capture_in (openl (cfib m)) loc (unext m)))))
         (cur m) (upd (ustore m) (unext m) (UOpen (cur m) loc)) (S (unext m)))
    (mkS (sfibs s) (scur s) (cellv s) (cnext s)
         (upd (handles s) (hnext s) (scells (csfib s) loc)) (S (hnext s))).
Proof.
  intros [mf mc mu mn] [sf sc cv cn hd hn] loc HR Hloc Hk Hfind.
  destruct HR as [Hcur Hlen Hval Hclt Hcinj Hnext Hhlt Hhinj Hopen Hclosed Hlist Hsorted].
  unfold cfib, csfib in *. projs. subst sc hn.
  pose proof (capture_in_In (openl (mf mc)) loc mn) as HIn.
  pose proof (capture_in_sorted (openl (mf mc)) loc mn (Hsorted mc)) as HS.
  rewrite Hk in HIn.
  set (l' := fst (capture_in (openl (mf mc)) loc mn)) in *.
  pose proof (Hlen mc) as Hlc.
  constructor; projs.
  - reflexivity.
  - intros f. pose proof (Hlen f) as Hlf. upd_cases; vsubst; lia.
  - intros f i Hi. upd_cases; vsubst; apply Hval; exact Hi.
  - exact Hclt.
  - exact Hcinj.
  - reflexivity.
  - intros h Hh. upd_cases; [apply Hclt; lia|apply Hhlt; lia].
  - intros h k Hh Hk' He. upd_cases; vsubst; try lia.
    + exfalso. apply (Hfind k); [lia|congruence].
    + exfalso. apply (Hfind h); [lia|congruence].
    + apply Hhinj; lia.
  - intros id f sl Hid Hu. unfold upd in Hu. destruct (Nat.eqb_spec id mn) as [Hidd|Hidd].
    + subst id. inversion Hu; subst f sl. unfold upd. rewrite !Nat.eqb_refl. projs.
      repeat split; [lia|]. apply HIn. left. reflexivity.
    + destruct (Hopen id f sl) as (Ha & Hb & Hc); [lia|exact Hu|].
      unfold upd. destruct (Nat.eqb_spec id mn) as [Hx|_]; [contradiction|].
      destruct (Nat.eqb_spec f mc) as [Hf|Hf]; projs; vsubst; repeat split; try assumption.
      apply HIn. right. exact Hc.
  - intros id w Hid Hu. upd_cases; vsubst; [discriminate|]. apply Hclosed; [lia|exact Hu].
  - intros f id sl Hin. unfold upd in Hin |- *.
    destruct (Nat.eqb_spec f mc) as [Hf|Hf]; projs.
    + subst f. apply HIn in Hin. destruct Hin as [He|Hin].
      * inversion He; subst id sl. rewrite Nat.eqb_refl. split; [lia|reflexivity].
      * destruct (Hlist mc id sl Hin) as [Ha Hb].
        destruct (Nat.eqb_spec id mn) as [Hx|_]; [lia|]. split; [lia|exact Hb].
    + destruct (Hlist f id sl Hin) as [Ha Hb].
      destruct (Nat.eqb_spec id mn) as [Hx|_]; [lia|]. split; [lia|exact Hb].
  - intros f. upd_cases; vsubst; [exact HS|apply Hsorted].
Qed.

Lemma R_close_trunc : forall m s idx, R m s -> idx <= slen (cfib m) ->
  R (close_trunc m idx idx) (set_sfib s (mkSF (scells (csfib s)) idx)).
Proof.
  intros [mf mc mu mn] [sf sc cv cn hd hn] idx HR Hidx.
  destruct HR as [Hcur Hlen Hval Hclt Hcinj Hnext Hhlt Hhinj Hopen Hclosed Hlist Hsorted].
  unfold close_trunc, set_sfib, cfib, csfib in *. projs. subst sc hn.
  pose proof (close_from_list (sdata (mf mc)) (openl (mf mc)) idx mu (Hsorted mc)) as HL.
  pose proof (close_from_sorted (sdata (mf mc)) (openl (mf mc)) idx mu (Hsorted mc)) as HS.
  pose proof (close_from_store (sdata (mf mc)) (openl (mf mc)) idx mu (Hsorted mc)) as HU.
  destruct (close_from (sdata (mf mc)) (openl (mf mc)) idx mu) as [l' us']. projs.
  pose proof (Hlen mc) as Hlc.
  (* the new fibers: same cells / data, shorter or equal *)
  set (mf' := upd mf mc (mkFiber (sdata (mf mc)) idx l')).
  set (sf' := upd sf mc (mkSF (scells (sf mc)) idx)).
  assert (Hsd : forall f, sdata (mf' f) = sdata (mf f)).
  { intros f. unfold mf'. upd_cases; vsubst; reflexivity. }
  assert (Hsc : forall f, scells (sf' f) = scells (sf f)).
  { intros f. unfold sf'. upd_cases; vsubst; reflexivity. }
  assert (Hle : forall f, sslen (sf' f) <= sslen (sf f)).
  { intros f. unfold sf'. upd_cases; vsubst; lia. }
  assert (Hlen' : forall f, slen (mf' f) = sslen (sf' f)).
  { intros f. unfold mf', sf'. pose proof (Hlen f). upd_cases; vsubst; lia. }
  assert (Hmc : sslen (sf' mc) = idx).
  { unfold sf'. unfold upd. rewrite Nat.eqb_refl. reflexivity. }
  assert (Hol_c : openl (mf' mc) = l').
  { unfold mf'. unfold upd. rewrite Nat.eqb_refl. reflexivity. }
  assert (Hol_o : forall f, f <> mc -> openl (mf' f) = openl (mf f)).
  { intros f Hf. unfold mf'. unfold upd. destruct (Nat.eqb_spec f mc); [contradiction|reflexivity]. }
  assert (Hslen_o : forall f, f <> mc -> slen (mf' f) = slen (mf f)).
  { intros f Hf. unfold mf'. unfold upd. destruct (Nat.eqb_spec f mc); [contradiction|reflexivity]. }
  clearbody mf' sf'.
  constructor; projs.
  - reflexivity.
  - exact Hlen'.
  - intros f i Hi. rewrite Hsd, Hsc. apply Hval.
    specialize (Hle f). specialize (Hlen f). specialize (Hlen' f). lia.
  - intros f i Hi. rewrite Hsc. apply Hclt. specialize (Hle f). lia.
  - intros f i g j Hi Hj He. rewrite !Hsc in He.
    apply Hcinj; [specialize (Hle f); lia|specialize (Hle g); lia|exact He].
  - reflexivity.
  - exact Hhlt.
  - exact Hhinj.
  - intros id f sl Hid Hu.
    destruct (HU id) as [[Heq Hlt]|[s0 [Hin0 [Hge0 Heq]]]]; [|congruence].
    rewrite Heq in Hu. destruct (Hopen id f sl Hid Hu) as (Ha & Hb & Hc).
    rewrite Hsc. destruct (Nat.eq_dec f mc) as [Hf|Hf].
    + subst f. specialize (Hlt sl Hc). rewrite Hol_c.
      split; [rewrite Hlen', Hmc; exact Hlt|]. split; [exact Hb|].
      apply HL. split; [exact Hc|exact Hlt].
    + rewrite (Hol_o f Hf), (Hslen_o f Hf). repeat split; assumption.
  - intros id w Hid Hu.
    destruct (HU id) as [[Heq Hlt]|[s0 [Hin0 [Hge0 Heq]]]].
    + rewrite Heq in Hu. destruct (Hclosed id w Hid Hu) as [Ha Hb]. split; [exact Ha|].
      intros f i Hi. rewrite Hsc. apply Hb. specialize (Hle f). lia.
    + rewrite Heq in Hu. inversion Hu; subst w.
      destruct (Hlist mc id s0 Hin0) as [_ Hu0].
      destruct (Hopen id mc s0 Hid Hu0) as (Ha & Hb & Hc).
      split.
      * rewrite <- Hb. symmetry. apply Hval. exact Ha.
      * intros f i Hi He. rewrite Hsc in He. rewrite <- Hb in He.
        destruct (Hcinj f i mc s0) as [Hf Hi0];
          [specialize (Hle f); lia|lia|exact He|].
        subst f i. lia.
  - intros f id sl Hin. destruct (Nat.eq_dec f mc) as [Hf|Hf].
    + subst f. rewrite Hol_c in Hin. apply HL in Hin. destruct Hin as [Hin Hlt]. cbn [snd] in Hlt.
      destruct (Hlist mc id sl Hin) as [Ha Hb]. split; [exact Ha|].
      destruct (HU id) as [[Heq _]|[s0 [Hin0 [Hge0 _]]]]; [congruence|].
      destruct (Hlist mc id s0 Hin0) as [_ Hb0]. rewrite Hb in Hb0. inversion Hb0. lia.
    + rewrite (Hol_o f Hf) in Hin.
      destruct (Hlist f id sl Hin) as [Ha Hb]. split; [exact Ha|].
      destruct (HU id) as [[Heq _]|[s0 [Hin0 [Hge0 _]]]]; [congruence|].
      destruct (Hlist mc id s0 Hin0) as [_ Hb0]. rewrite Hb in Hb0. inversion Hb0. contradiction.
  - intros f. destruct (Nat.eq_dec f mc) as [Hf|Hf].
    + subst f. rewrite Hol_c. exact HS.
    + rewrite (Hol_o f Hf). apply Hsorted.
Qed.

Lemma shrink_is_close_trunc : forall (m : mstate value) n,
  (forall e, In e (openl (cfib m)) -> snd e < n) ->
  set_fib m (cur m) (mkFiber (sdata (cfib m)) n (openl (cfib m))) = close_trunc m n n.
Proof.
  intros m n Hall. unfold close_trunc. rewrite (close_from_noop _ _ _ _ Hall). reflexivity.
Qed.

(* ---- find_handle ---- *)
Lemma find_handle_some : forall h n c k, find_handle h n c = Some k -> k < n /\ h k = c.
Proof.
  intros h n c k. induction n as [|n IH]; cbn [find_handle]; [discriminate|].
  destruct (Nat.eqb_spec (h n) c) as [He|Hne].
  - intros Hs. inversion Hs; subst k. split; [lia|exact He].
  - intros Hs. destruct (IH Hs) as [Ha Hb]. split; [lia|exact Hb].
Qed.

Lemma find_handle_none : forall h n c, find_handle h n c = None -> forall k, k < n -> h k <> c.
Proof.
  intros h n c. induction n as [|n IH]; cbn [find_handle]; intros Hn k Hk; [lia|].
  destruct (Nat.eqb_spec (h n) c) as [He|Hne]; [discriminate|].
  destruct (Nat.eq_dec k n) as [Hkn|Hkn]; [subst k; exact Hne|]. apply IH; [exact Hn|lia].
Qed.

Lemma find_handle_none_intro : forall h n c,
  (forall k, k < n -> h k <> c) -> find_handle h n c = None.
Proof.
  intros h n c Hno. destruct (find_handle h n c) as [k|] eqn:E; [|reflexivity].
  apply find_handle_some in E. destruct E as [Ha Hb]. exfalso. exact (Hno k Ha Hb).
Qed.

Lemma find_handle_unique : forall h n c k,
  (forall a b, a < n -> b < n -> h a = h b -> a = b) ->
  k < n -> h k = c -> find_handle h n c = Some k.
Proof.
  intros h n c k Hinj Hk Hc. destruct (find_handle h n c) as [k'|] eqn:E.
  - apply find_handle_some in E. destruct E as [Ha Hb]. f_equal. apply Hinj; congruence.
  - exfalso. exact (find_handle_none _ _ _ E k Hk Hc).
Qed.

(* the discipline, read as a fact about the open list *)
Lemma disc_pop_below : forall m s, R m s -> disc_ok m (@Pop value) = true ->
  forall e, In e (openl (cfib m)) -> snd e < slen (cfib m) - 1.
Proof.
  intros m s HR Hd [id sl] He. cbn [snd].
  destruct (R_list _ _ HR (cur m) id sl He) as [Hid Hu].
  destruct (R_open _ _ HR id (cur m) sl Hid Hu) as [Hlt _]. fold (cfib m) in Hlt.
  cbn in Hd. apply negb_true_iff in Hd. unfold slot_open in Hd.
  assert (Hne : sl <> slen (cfib m) - 1).
  { intros Heq.
    assert (Hex : existsb (fun e0 => snd e0 =? slen (cfib m) - 1) (openl (cfib m)) = true).
    { apply existsb_exists. exists (id, sl). split; [exact He|]. apply Nat.eqb_eq. exact Heq. }
    congruence. }
  lia.
Qed.

(* ---- the key lemma: one step ---- *)
Lemma step_sim : forall m s o, R m s -> disc_ok m o = true ->
  snd (step m o) = snd (sstep s o) /\ R (fst (step m o)) (fst (sstep s o)).
Proof.
  intros m s o HR Hd.
  pose proof (R_cur _ _ HR) as Hc.
  pose proof (R_len _ _ HR (cur m)) as Hl.
  pose proof (R_next _ _ HR) as Hn.
  destruct o as [v| |i|i v|loc| |base|id|id v|n|f].
  - (* Push *)
    split; [reflexivity|]. apply R_push. exact HR.
  - (* Pop *)
    cbn [step sstep]. unfold csfib. rewrite <- Hc, <- Hl. fold (cfib m).
    destruct (Nat.eqb_spec (slen (cfib m)) 0) as [Hz|Hnz]; cbn [fst snd]; [split; [reflexivity|exact HR]|].
    split; [reflexivity|].
    rewrite (shrink_is_close_trunc m _ (disc_pop_below _ _ HR Hd)).
    replace (sfibs s (cur m)) with (csfib s) by (unfold csfib; rewrite Hc; reflexivity).
    apply R_close_trunc; [exact HR|lia].
  - (* GetSlot *)
    cbn [step sstep]. unfold csfib. rewrite <- Hc, <- Hl. fold (cfib m).
    destruct (Nat.ltb_spec i (slen (cfib m))) as [Hlt|Hge]; cbn [fst snd]; (split; [|exact HR]); [|reflexivity].
    f_equal. apply (R_val _ _ HR). exact Hlt.
  - (* SetSlot *)
    cbn [step sstep]. unfold csfib. rewrite <- Hc, <- Hl. fold (cfib m).
    destruct (Nat.ltb_spec i (slen (cfib m))) as [Hlt|Hge]; cbn [fst snd]; (split; [reflexivity|]); [|exact HR].
    apply (R_write_slot _ _ (cur m) i v HR Hlt).
  - (* Capture *)
    cbn [step sstep]. unfold csfib. rewrite <- Hc, <- Hl. fold (cfib m).
    destruct (Nat.ltb_spec loc (slen (cfib m))) as [Hlt|Hge]; cbn [fst snd]; [|split; [reflexivity|exact HR]].
    unfold capture.
    pose proof (capture_in_cases (openl (cfib m)) loc (unext m)) as Hcases.
    pose proof (capture_in_reuse (openl (cfib m)) loc (unext m)) as Hreuse.
    pose proof (R_capture_new _ _ loc HR Hlt) as Hnew. rewrite <- Hc in Hnew.
    destruct (capture_in (openl (cfib m)) loc (unext m)) as [l' k]. cbn [fst snd] in *.
    destruct Hcases as [Hk|Hin].
    + (* a new upvalue *)
      subst k. rewrite Nat.eqb_refl. cbn [fst snd].
      assert (Hno : forall id, ~ In (id, loc) (openl (cfib m))).
      { intros id Hin. pose proof (Hreuse id (R_sorted _ _ HR (cur m)) Hin) as Hid.
        destruct (R_list _ _ HR (cur m) id loc Hin) as [Hlt' _]. lia. }
      assert (Hfind : forall h, h < hnext s -> handles s h <> scells (sfibs s (cur m)) loc).
      { intros h Hh Heq. rewrite <- Hn in Hh.
        destruct (ustore m h) as [g sl|w] eqn:Eu.
        - destruct (R_open _ _ HR h g sl Hh Eu) as (Ha & Hb & Hin).
          rewrite <- Hb in Heq.
          destruct (R_cell_inj _ _ HR g sl (cur m) loc) as [Hg Hsl];
            [rewrite <- (R_len _ _ HR); exact Ha|rewrite <- Hl; exact Hlt|exact Heq|].
          subst g sl. exact (Hno h Hin).
        - destruct (R_closed _ _ HR h w Hh Eu) as [_ Hb].
          apply (Hb (cur m) loc); [rewrite <- Hl; exact Hlt|symmetry; exact Heq]. }
      rewrite (find_handle_none_intro _ _ _ Hfind). cbn [fst snd].
      split; [rewrite Hn; reflexivity|].
      replace (sfibs s (cur m)) with (csfib s) in * by (unfold csfib; rewrite Hc; reflexivity).
      apply Hnew; [reflexivity|exact Hfind].
    + (* an existing one *)
      destruct (R_list _ _ HR (cur m) k loc Hin) as [Hk Hu].
      destruct (Nat.eqb_spec k (unext m)) as [Hx|_]; [lia|]. cbn [fst snd].
      destruct (R_open _ _ HR k (cur m) loc Hk Hu) as (_ & Hb & _).
      rewrite (find_handle_unique (handles s) (hnext s) _ k (R_h_inj _ _ HR)); [|lia|symmetry; exact Hb].
      cbn [fst snd]. split; [reflexivity|exact HR].
  - (* CloseTop *)
    cbn [step sstep]. unfold csfib. rewrite <- Hc, <- Hl. fold (cfib m).
    destruct (Nat.eqb_spec (slen (cfib m)) 0) as [Hz|Hnz]; cbn [fst snd]; [split; [reflexivity|exact HR]|].
    split; [reflexivity|].
    replace (sfibs s (cur m)) with (csfib s) by (unfold csfib; rewrite Hc; reflexivity).
    apply R_close_trunc; [exact HR|lia].
  - (* ReturnFrame *)
    cbn [step sstep]. unfold csfib. rewrite <- Hc, <- Hl. fold (cfib m).
    destruct (Nat.leb_spec base (slen (cfib m))) as [Hle|Hgt]; cbn [fst snd]; [|split; [reflexivity|exact HR]].
    split; [reflexivity|].
    replace (sfibs s (cur m)) with (csfib s) by (unfold csfib; rewrite Hc; reflexivity).
    apply R_close_trunc; [exact HR|exact Hle].
  - (* ReadUp *)
    cbn [step sstep]. rewrite <- Hn.
    destruct (Nat.ltb_spec id (unext m)) as [Hlt|Hge]; cbn [fst snd]; [|split; [reflexivity|exact HR]].
    destruct (ustore m id) as [g sl|w] eqn:Eu; cbn [fst snd]; (split; [|exact HR]); f_equal.
    + destruct (R_open _ _ HR id g sl Hlt Eu) as (Ha & Hb & _).
      rewrite <- Hb. apply (R_val _ _ HR). exact Ha.
    + destruct (R_closed _ _ HR id w Hlt Eu) as [Ha _]. symmetry. exact Ha.
  - (* WriteUp *)
    cbn [step sstep]. rewrite <- Hn.
    destruct (Nat.ltb_spec id (unext m)) as [Hlt|Hge]; cbn [fst snd]; [|split; [reflexivity|exact HR]].
    destruct (ustore m id) as [g sl|w] eqn:Eu; cbn [fst snd]; (split; [reflexivity|]).
    + destruct (R_open _ _ HR id g sl Hlt Eu) as (Ha & Hb & _).
      rewrite <- Hb. apply (R_write_slot _ _ g sl v HR Ha).
    + apply (R_write_closed _ _ id v w HR Hlt Eu).
  - (* Truncate *)
    cbn [step sstep]. unfold csfib. rewrite <- Hc, <- Hl. fold (cfib m).
    destruct (Nat.leb_spec n (slen (cfib m))) as [Hle|Hgt]; cbn [fst snd]; [|split; [reflexivity|exact HR]].
    split; [reflexivity|].
    unfold disc_ok in Hd. pose proof (proj1 (forallb_lt_iff _ _) Hd) as Hd'.
    rewrite (shrink_is_close_trunc m _ Hd').
    replace (sfibs s (cur m)) with (csfib s) by (unfold csfib; rewrite Hc; reflexivity).
    apply R_close_trunc; [exact HR|exact Hle].
  - (* SwitchFiber *)
    cbn [step sstep fst snd]. split; [reflexivity|]. apply R_switch. exact HR.
Qed.

Theorem upvalues_refine_cells_from : forall ops m s,
  R m s -> disciplined m ops = true -> run m ops = srun s ops.
Proof.
  induction ops as [|o r IH]; intros m s HR Hd; [reflexivity|].
  cbn [disciplined] in Hd. apply andb_true_iff in Hd. destruct Hd as [Ho Hr].
  destruct (step_sim m s o HR Ho) as [Hobs HR'].
  cbn [run srun]. destruct (step m o) as [m' b]. destruct (sstep s o) as [s' b'].
  cbn [fst snd] in *. subst b'. f_equal. apply IH; assumption.
Qed.
Print Assumptions upvalues_refine_cells_from.

Theorem upvalues_refine_cells : forall (d : value) ops,
  disciplined (m_init d) ops = true -> run (m_init d) ops = srun (s_init d) ops.
Proof. intros d ops Hd. apply upvalues_refine_cells_from; [apply R_init|exact Hd]. Qed.
Print Assumptions upvalues_refine_cells.

(* the Spec state reached, to speak about R after a run *)
Fixpoint srun_state (s : sstate value) (ops : list (op value)) : sstate value :=
  match ops with
  | [] => s
  | o :: r => srun_state (fst (sstep s o)) r
  end.

Lemma R_run : forall ops m s,
  R m s -> disciplined m ops = true -> R (run_state m ops) (srun_state s ops).
Proof.
  induction ops as [|o r IH]; intros m s HR Hd; [exact HR|].
  cbn [disciplined] in Hd. apply andb_true_iff in Hd. destruct Hd as [Ho Hr].
  destruct (step_sim m s o HR Ho) as [_ HR'].
  cbn [run_state srun_state]. apply IH; assumption.
Qed.

(* ------------------------------------------------------------------------------------------ *)
(* 3. corollaries at the level of M                                                             *)
(* ------------------------------------------------------------------------------------------ *)

Lemma capture_snd : forall (st : mstate value) loc,
  snd (capture st loc) = snd (capture_in (openl (cfib st)) loc (unext st)).
Proof.
  intros st loc. unfold capture.
  destruct (capture_in (openl (cfib st)) loc (unext st)) as [l' k].
  destruct (k =? unext st); reflexivity.
Qed.

Lemma capture_facts : forall (st : mstate value) loc,
  cur (fst (capture st loc)) = cur st /\
  slen (cfib (fst (capture st loc))) = slen (cfib st) /\
  In (snd (capture st loc), loc) (openl (cfib (fst (capture st loc)))).
Proof.
  intros st loc. unfold capture.
  pose proof (capture_in_cases (openl (cfib st)) loc (unext st)) as Hcases.
  pose proof (capture_in_In (openl (cfib st)) loc (unext st)) as HIn.
  destruct (capture_in (openl (cfib st)) loc (unext st)) as [l' k]. cbn [fst snd] in *.
  destruct (Nat.eqb_spec k (unext st)) as [Hk|Hk]; cbn [fst snd].
  - unfold cfib. cbn [fibs cur]. unfold upd. rewrite Nat.eqb_refl. cbn [slen openl].
    split; [reflexivity|]. split; [reflexivity|]. apply HIn. left. reflexivity.
  - split; [reflexivity|]. split; [reflexivity|].
    destruct Hcases as [Hx|Hin]; [contradiction|exact Hin].
Qed.

Lemma close_trunc_facts : forall (st : mstate value) idx n,
  cur (close_trunc st idx n) = cur st /\
  unext (close_trunc st idx n) = unext st /\
  slen (cfib (close_trunc st idx n)) = n /\
  openl (cfib (close_trunc st idx n)) =
    fst (close_from (sdata (cfib st)) (openl (cfib st)) idx (ustore st)).
Proof.
  intros st idx n. unfold close_trunc.
  destruct (close_from (sdata (cfib st)) (openl (cfib st)) idx (ustore st)) as [l' us'].
  unfold cfib. cbn [fibs cur unext fst]. unfold upd. rewrite Nat.eqb_refl. cbn [slen openl].
  repeat split; reflexivity.
Qed.

Theorem capture_twice_same : forall (st : mstate value) loc,
  let '(st1, id1) := capture st loc in
  let '(_, id2) := capture st1 loc in id1 = id2.
Proof.
  intros st loc.
  destruct (capture st loc) as [st1 id1] eqn:E1.
  destruct (capture st1 loc) as [st2 id2] eqn:E2.
  assert (H2 : id2 = snd (capture st1 loc)) by (rewrite E2; reflexivity).
  rewrite capture_snd in H2. subst id2.
  unfold capture in E1.
  pose proof (capture_in_again (openl (cfib st)) loc (unext st)) as Hag.
  destruct (capture_in (openl (cfib st)) loc (unext st)) as [l' k] eqn:Ek. cbn [fst snd] in Hag.
  destruct (Nat.eqb_spec k (unext st)) as [Hk|Hk]; inversion E1; subst st1 id1.
  - unfold cfib. cbn [fibs cur unext]. unfold upd. rewrite Nat.eqb_refl. cbn [openl].
    rewrite Hag. reflexivity.
  - rewrite Ek. reflexivity.
Qed.
Print Assumptions capture_twice_same.

Theorem capture_after_close_fresh : forall m s loc v,
  R m s -> slen (cfib m) = S loc ->
  let '(m1, id1) := capture m loc in
  let m2 := fst (step m1 CloseTop) in
  let m3 := fst (step m2 (Push v)) in
  snd (capture m3 loc) = unext m1 /\ snd (capture m3 loc) <> id1.
Proof.
  intros m s loc v HR Hlen.
  assert (Hlt : loc <? slen (cfib m) = true) by (apply Nat.ltb_lt; lia).
  destruct (step_sim m s (Capture loc) HR eq_refl) as [_ HR1].
  pose proof (capture_facts m loc) as (Hcur1 & Hlen1 & Hin1).
  cbn [step] in HR1. rewrite Hlt in HR1.
  destruct (capture m loc) as [m1 id1]. cbn [fst snd] in *.
  set (s1 := fst (sstep s (Capture loc))) in *.
  set (m2 := fst (step m1 CloseTop)). set (m3 := fst (step m2 (Push v))).
  destruct (R_list _ _ HR1 (cur m1) id1 loc Hin1) as [Hid1 _].
  rewrite Hlen in Hlen1.
  assert (Hm2 : m2 = close_trunc m1 loc loc).
  { unfold m2. cbn [step]. rewrite Hlen1. cbn [Nat.eqb fst]. replace (S loc - 1) with loc by lia. reflexivity. }
  destruct (close_trunc_facts m1 loc loc) as (Hc2 & Hn2 & Hl2 & Ho2). rewrite <- Hm2 in *.
  assert (Hall : forall e, In e (openl (cfib m2)) -> snd e <> loc).
  { intros e He. rewrite Ho2 in He.
    apply (close_from_list _ _ _ _ (R_sorted _ _ HR1 (cur m1))) in He. lia. }
  assert (Hfresh : snd (capture m3 loc) = unext m1).
  { rewrite capture_snd. unfold m3. cbn [step fst]. unfold set_fib, cfib at 1 2.
    cbn [fibs cur unext]. unfold upd at 1. rewrite Nat.eqb_refl. cbn [openl].
    rewrite Hn2. apply capture_in_fresh. exact Hall. }
  split; [exact Hfresh|]. rewrite Hfresh. lia.
Qed.
Print Assumptions capture_after_close_fresh.

End UpvaluesProofs.

Arguments list_inv {value} st.
Arguments R {value} m s.
Arguments srun_state {value} s ops.

(* Inside the section `Print Assumptions` lists the section variable `value`; after `End` the
   theorems are closed under the global context: *)
Print Assumptions desc_sorted_nodup.
Print Assumptions upvalue_list_inv_step.
Print Assumptions upvalue_list_inv.
Print Assumptions upvalues_refine_cells_from.
Print Assumptions upvalues_refine_cells.
Print Assumptions capture_twice_same.
Print Assumptions capture_after_close_fresh.

(* ------------------------------------------------------------------------------------------ *)
(* concrete instances over Z                                                                    *)
(* ------------------------------------------------------------------------------------------ *)
Local Open Scope Z_scope.

(* a disciplined program: two variables, three captures (one a reuse), a write through the upvalue,
   a close, the slot redeclared and captured again (fresh upvalue), Pop / Truncate of uncaptured
   slots, ReturnFrame closing the rest *)
Definition ex_ops : list (op Z) :=
  [Push 1; Push 2; Capture 0; Capture 1; Capture 1; WriteUp 1 7; CloseTop; Push 3; Capture 1;
   ReadUp 1; ReadUp 2; CloseTop; Push 4; Pop; Truncate 1; ReturnFrame 0; ReadUp 0; ReadUp 2].

Example ex_ops_disciplined : disciplined (m_init 0) ex_ops = true.
Proof. vm_compute. reflexivity. Qed.

Example ex_ops_obs :
  run (m_init 0) ex_ops =
  [ONone; ONone; OId 0%nat; OId 1%nat; OId 1%nat; ONone; ONone; ONone; OId 2%nat;
   OVal 7; OVal 3; ONone; ONone; ONone; ONone; ONone; OVal 1; OVal 3].
Proof. vm_compute. reflexivity. Qed.

Example ex_ops_refine : run (m_init 0) ex_ops = srun (s_init 0) ex_ops.
Proof. apply upvalues_refine_cells. exact ex_ops_disciplined. Qed.

(* hypotheses of upvalue_list_inv_step / step_sim / upvalues_refine_cells_from are satisfiable by a
   non-trivial state: the state after the first nine operations (two open upvalues, one closed) *)
Definition ex_prefix : list (op Z) := firstn 9 ex_ops.

Example ex_list_inv_hyp :
  list_inv (run_state (m_init 0) ex_prefix) /\
  disc_ok (run_state (m_init 0) ex_prefix) CloseTop = true /\
  openl (fibs (run_state (m_init 0) ex_prefix) 0%nat) = [(2, 1); (0, 0)]%nat.
Proof.
  split; [apply upvalue_list_inv; vm_compute; reflexivity|].
  split; vm_compute; reflexivity.
Qed.

Example ex_R_hyp :
  R (run_state (m_init 0) ex_prefix) (srun_state (s_init 0) ex_prefix) /\
  disciplined (run_state (m_init 0) ex_prefix) (skipn 9 ex_ops) = true.
Proof.
  split; [apply R_run; [apply R_init|vm_compute; reflexivity]|vm_compute; reflexivity].
Qed.

(* capture twice: concrete *)
Example ex_capture_twice :
  run (m_init 0) [Push 5; Capture 0%nat; Capture 0%nat] = [ONone; OId 0%nat; OId 0%nat].
Proof. vm_compute. reflexivity. Qed.

(* hypotheses of capture_after_close_fresh: the state after two pushes and a capture of slot 0 *)
Example ex_capture_after_close_hyp :
  let m := run_state (m_init 0) [Push 1; Push 2; Capture 0%nat] in
  let s := srun_state (s_init 0) [Push 1; Push 2; Capture 0%nat] in
  R m s /\ slen (cfib m) = 2%nat.
Proof.
  split; [apply R_run; [apply R_init|vm_compute; reflexivity]|vm_compute; reflexivity].
Qed.

Example ex_capture_after_close :
  run (m_init 0) [Push 1; Capture 0%nat; CloseTop; Push 2; Capture 0%nat; ReadUp 0%nat; ReadUp 1%nat]
  = [ONone; OId 0%nat; ONone; ONone; OId 1%nat; OVal 1; OVal 2].
Proof. vm_compute. reflexivity. Qed.

(* SwitchFiber is one of the operations of upvalues_refine_cells: an upvalue opened on fiber 0 is
   written from fiber 1 (it still points INTO fiber 0's stack), fiber 0 sees the write in its slot,
   and after the close the upvalue keeps the value. *)
Definition switch_ops : list (op Z) :=
  [Push 10; Capture 0%nat; SwitchFiber 1; WriteUp 0%nat 42; SwitchFiber 0; GetSlot 0%nat;
   CloseTop; ReadUp 0%nat].

Example refine_across_switch :
  disciplined (m_init 0) switch_ops = true /\
  run (m_init 0) switch_ops = srun (s_init 0) switch_ops /\
  run (m_init 0) switch_ops =
    [ONone; OId 0%nat; ONone; ONone; ONone; OVal 42; ONone; OVal 42].
Proof. vm_compute. repeat split; reflexivity. Qed.

(* ------------------------------------------------------------------------------------------ *)
(* 4. without the discipline: unwind_stack truncates over an open upvalue                       *)
(* ------------------------------------------------------------------------------------------ *)

(* M reads the reused slot (2), S reads the cell of the captured variable (1) *)
Theorem discipline_refuted_unwind : exists ops : list (op Z),
  disciplined (m_init 0) ops = false /\ run (m_init 0) ops <> srun (s_init 0) ops.
Proof.
  exists [Push 1; Capture 0%nat; Truncate 0%nat; Push 2; ReadUp 0%nat].
  split; [vm_compute; reflexivity|]. vm_compute. intros H. discriminate H.
Qed.
Print Assumptions discipline_refuted_unwind.

Example discipline_unwind_obs :
  run (m_init 0) [Push 1; Capture 0%nat; Truncate 0%nat; Push 2; ReadUp 0%nat]
    = [ONone; OId 0%nat; ONone; ONone; OVal 2] /\
  srun (s_init 0) [Push 1; Capture 0%nat; Truncate 0%nat; Push 2; ReadUp 0%nat]
    = [ONone; OId 0%nat; ONone; ONone; OVal 1].
Proof. vm_compute. split; reflexivity. Qed.

Example discipline_pop_refuted : exists ops : list (op Z),
  disciplined (m_init 0) ops = false /\ run (m_init 0) ops <> srun (s_init 0) ops.
Proof.
  exists [Push 1; Capture 0%nat; Pop; Push 2; ReadUp 0%nat].
  split; [vm_compute; reflexivity|]. vm_compute. intros H. discriminate H.
Qed.

(* the open list keeps an entry at / above the stack top *)
Theorem list_inv_refuted_unwind :
  ~ list_inv (run_state (m_init 0) [Push 1; Capture 0%nat; Truncate 0%nat]).
Proof.
  intros H. specialize (H 0%nat). vm_compute in H. discriminate H.
Qed.
Print Assumptions list_inv_refuted_unwind.

Example list_inv_unwind_state :
  let st := run_state (m_init 0) [Push 1; Capture 0%nat; Truncate 0%nat] in
  openl (fibs st 0%nat) = [(0, 0)]%nat /\ slen (fibs st 0%nat) = 0%nat /\
  disciplined (m_init 0) [Push 1; Capture 0%nat; Truncate 0%nat] = false.
Proof. vm_compute. repeat split; reflexivity. Qed.
