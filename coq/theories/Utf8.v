(* UTF-8 reference model over byte lists.  Definitions only (proofs: Utf8Proofs.v).
   Strings are [list byte]; code points are [N].
   - [encode_cp]  = Rust [char::from_u32] followed by [char::encode_utf8]
   - [decode]     = Rust [String::from_utf8] + [str::chars] (strict: rejects overlong forms,
                    surrogates, > 10FFFF, truncated sequences, stray continuation bytes)
   - [is_char_boundary] = Rust [str::is_char_boundary]
   - [valid_up_to] = Rust [Utf8Error::valid_up_to] *)
From Coq Require Import List NArith Bool Arith.
From Coq Require Import Strings.Byte.
Import ListNotations.

Definition codepoint := N.
Local Open Scope N_scope.

Definition bN (b : byte) : N := Byte.to_N b.
Definition Nb (n : N) : byte := match Byte.of_N n with Some b => b | None => x00 end.

(* continuation byte 10xxxxxx *)
Definition is_cont (b : byte) : bool := (N.leb 128 (bN b)) && (N.ltb (bN b) 192).
Definition cont_val (b : byte) : N := N.sub (bN b) 128.

Definition is_surrogate (c : N) : bool := N.leb 55296 c && N.leb c 57343.   (* D800..DFFF *)

(* ---------- encoding ---------- *)
Definition encode_cp (c : N) : option (list byte) :=
  if N.ltb c 128 then Some [Nb c]
  else if N.ltb c 2048 then
    Some [Nb (192 + N.div c 64); Nb (128 + N.modulo c 64)]
  else if N.ltb c 65536 then
    if is_surrogate c then None
    else Some [Nb (224 + N.div c 4096); Nb (128 + N.modulo (N.div c 64) 64); Nb (128 + N.modulo c 64)]
  else if N.ltb c 1114112 then
    Some [Nb (240 + N.div c 262144); Nb (128 + N.modulo (N.div c 4096) 64);
          Nb (128 + N.modulo (N.div c 64) 64); Nb (128 + N.modulo c 64)]
  else None.

Fixpoint encode (cps : list N) : option (list byte) :=
  match cps with
  | [] => Some []
  | c :: r =>
    match encode_cp c, encode r with
    | Some b, Some br => Some (b ++ br)
    | _, _ => None
    end
  end.

(* total version used to build [chars]: the encoding of a code point, [] if it has none *)
Definition enc1 (c : N) : list byte := match encode_cp c with Some b => b | None => [] end.

(* ---------- decoding ---------- *)
(* number of bytes announced by a leading byte; 0 = not a legal leading byte *)
Definition char_width (b : byte) : nat :=
  let n := bN b in
  if N.ltb n 128 then 1%nat
  else if N.ltb n 194 then 0%nat   (* 80..BF continuation, C0/C1 always overlong *)
  else if N.ltb n 224 then 2%nat
  else if N.ltb n 240 then 3%nat
  else if N.ltb n 245 then 4%nat
  else 0%nat.

(* decode the first character: code point and the remaining bytes *)
Definition next_char (s : list byte) : option (N * list byte) :=
  match s with
  | [] => None
  | b0 :: r0 =>
    let n0 := bN b0 in
    match char_width b0 with
    | 1%nat => Some (n0, r0)
    | 2%nat =>
      match r0 with
      | b1 :: r1 =>
        if is_cont b1 then Some ((n0 - 192) * 64 + cont_val b1, r1) else None
      | _ => None
      end
    | 3%nat =>
      match r0 with
      | b1 :: b2 :: r2 =>
        let c := (n0 - 224) * 4096 + cont_val b1 * 64 + cont_val b2 in
        if is_cont b1 && is_cont b2 && N.leb 2048 c && negb (is_surrogate c)
        then Some (c, r2) else None
      | _ => None
      end
    | 4%nat =>
      match r0 with
      | b1 :: b2 :: b3 :: r3 =>
        let c := (n0 - 240) * 262144 + cont_val b1 * 4096 + cont_val b2 * 64 + cont_val b3 in
        if is_cont b1 && is_cont b2 && is_cont b3 && N.leb 65536 c && N.ltb c 1114112
        then Some (c, r3) else None
      | _ => None
      end
    | _ => None
    end
  end.

Fixpoint decode_fuel (fuel : nat) (s : list byte) : option (list N) :=
  match s with
  | [] => Some []
  | _ :: _ =>
    match fuel with
    | O => None
    | S f =>
      match next_char s with
      | None => None
      | Some (c, r) => option_map (cons c) (decode_fuel f r)
      end
    end
  end.

Definition decode (s : list byte) : option (list N) := decode_fuel (length s) s.

Definition isSome {A} (o : option A) : bool := match o with Some _ => true | None => false end.

Definition valid_utf8 (s : list byte) : bool := isSome (decode s).

(* Rust [Utf8Error::valid_up_to]: offset of the first byte of the first ill-formed sequence;
   [None] when the whole string is valid. *)
Fixpoint valid_up_to_fuel (fuel : nat) (s : list byte) (pos : nat) : option nat :=
  match s with
  | [] => None
  | _ :: _ =>
    match fuel with
    | O => Some pos
    | S f =>
      match next_char s with
      | None => Some pos
      | Some (_, r) => valid_up_to_fuel f r (pos + (length s - length r))%nat
      end
    end
  end.

Definition valid_up_to (s : list byte) : option nat := valid_up_to_fuel (length s) s 0%nat.

(* ---------- characters ---------- *)
(* the characters of a valid string, each as its own byte sequence; [] for an invalid string *)
Definition chars (s : list byte) : list (list byte) :=
  match decode s with
  | Some cps => map enc1 cps
  | None => []
  end.

Definition char_len (s : list byte) : nat := length (chars s).

(* the code points of a valid string ([str::chars]); [] for an invalid string *)
Definition code_points (s : list byte) : list N :=
  match decode s with Some cps => cps | None => [] end.

(* byte offsets at which characters start, plus the total length:
   [0; |c0|; |c0|+|c1|; ...; length s] *)
Fixpoint offsets_from (pos : nat) (cs : list (list byte)) : list nat :=
  match cs with
  | [] => [pos]
  | c :: r => pos :: offsets_from (pos + length c)%nat r
  end.

Definition boundaries (s : list byte) : list nat := offsets_from 0%nat (chars s).

(* ---------- Rust str::is_char_boundary ---------- *)
Definition is_char_boundary (s : list byte) (i : nat) : bool :=
  match i with
  | O => true
  | _ =>
    match nth_error s i with
    | None => Nat.eqb i (length s)
    | Some b => negb (is_cont b)          (* (b as i8) >= -0x40 *)
    end
  end.

(* byte-list equality *)
Definition byte_eqb (a b : byte) : bool := Byte.eqb a b.

Fixpoint bytes_eqb (a b : list byte) : bool :=
  match a, b with
  | [], [] => true
  | x :: a', y :: b' => Byte.eqb x y && bytes_eqb a' b'
  | _, _ => false
  end.
