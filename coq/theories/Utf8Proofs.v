(* Proofs about the UTF-8 reference model (Utf8.v). *)
From Coq Require Import List NArith ZArith Bool Arith Lia.
From Coq Require Import Strings.Byte.
From YV Require Import Utf8.
Import ListNotations.

Ltac Zify.zify_post_hook ::= Z.to_euclidean_division_equations.
Arguments N.add : simpl never.
Arguments N.sub : simpl never.
Arguments N.mul : simpl never.
Arguments N.div : simpl never.
Arguments N.modulo : simpl never.
Arguments N.ltb : simpl never.
Arguments N.leb : simpl never.

(* ------------------------------------------------------------------ *)
(* bytes <-> N                                                          *)
(* ------------------------------------------------------------------ *)
Lemma bN_lt : forall b, (bN b < 256)%N.
Proof. intros b. unfold bN. pose proof (Byte.to_N_bounded b). lia. Qed.

Lemma Nb_bN : forall b, Nb (bN b) = b.
Proof. intros b. unfold Nb, bN. rewrite Byte.of_to_N. reflexivity. Qed.

Lemma bN_Nb : forall n, (n < 256)%N -> bN (Nb n) = n.
Proof.
  intros n Hn. unfold Nb, bN.
  destruct (Byte.of_N n) as [b|] eqn:E.
  - apply Byte.to_of_N; exact E.
  - apply Byte.of_N_None_iff in E. lia.
Qed.

Lemma bN_inj : forall a b, bN a = bN b -> a = b.
Proof. intros a b H. rewrite <- (Nb_bN a), <- (Nb_bN b), H. reflexivity. Qed.

Lemma bytes_eqb_eq : forall a b, bytes_eqb a b = true <-> a = b.
Proof.
  induction a as [|x a IH]; destruct b as [|y b]; cbn; split; intros H; try congruence; try reflexivity.
  - apply andb_true_iff in H. destruct H as [H1 H2].
    apply Byte.byte_dec_bl in H1. apply IH in H2. congruence.
  - inversion H; subst. apply andb_true_iff. split.
    + apply Byte.byte_dec_lb; reflexivity.
    + apply IH; reflexivity.
Qed.

Lemma bytes_eqb_refl : forall a, bytes_eqb a a = true.
Proof. intros a. apply bytes_eqb_eq. reflexivity. Qed.

(* ------------------------------------------------------------------ *)
(* one character: next_char <-> encode_cp                               *)
(* ------------------------------------------------------------------ *)
Lemma is_cont_spec : forall b, is_cont b = true <-> (128 <= bN b < 192)%N.
Proof.
  intros b. unfold is_cont. rewrite andb_true_iff, N.leb_le, N.ltb_lt. tauto.
Qed.

Lemma is_cont_Nb : forall n, (n < 256)%N -> is_cont (Nb n) = ((128 <=? n) && (n <? 192))%N.
Proof. intros n Hn. unfold is_cont. rewrite bN_Nb by exact Hn. reflexivity. Qed.

Ltac nbool :=
  repeat match goal with
  | H : (_ <? _)%N = true |- _ => apply N.ltb_lt in H
  | H : (_ <? _)%N = false |- _ => apply N.ltb_ge in H
  | H : (_ <=? _)%N = true |- _ => apply N.leb_le in H
  | H : (_ <=? _)%N = false |- _ => apply N.leb_gt in H
  | H : (_ && _) = true |- _ => apply andb_true_iff in H; destruct H
  | H : negb _ = true |- _ => apply negb_true_iff in H
  | H : is_cont _ = true |- _ => apply is_cont_spec in H
  end.

Ltac dec_ltb :=
  match goal with
  | |- context [(?a <? ?b)%N] =>
    first [ replace (a <? b)%N with true by (symmetry; apply N.ltb_lt; lia)
          | replace (a <? b)%N with false by (symmetry; apply N.ltb_ge; lia) ]
  | |- context [(?a <=? ?b)%N] =>
    first [ replace (a <=? b)%N with true by (symmetry; apply N.leb_le; lia)
          | replace (a <=? b)%N with false by (symmetry; apply N.leb_gt; lia) ]
  end.

Lemma next_char_encode : forall c bs r,
  encode_cp c = Some bs -> next_char (bs ++ r) = Some (c, r).
Proof.
  intros c bs r H. unfold encode_cp in H.
  destruct (c <? 128)%N eqn:E1.
  { inversion H; subst; clear H. nbool. cbn [app next_char].
    unfold char_width. rewrite bN_Nb by lia. repeat dec_ltb. reflexivity. }
  destruct (c <? 2048)%N eqn:E2.
  { inversion H; subst; clear H. nbool. cbn [app next_char].
    unfold char_width, cont_val. rewrite !is_cont_Nb by lia. rewrite !bN_Nb by lia.
    repeat dec_ltb. cbn [andb]. f_equal. f_equal. lia. }
  destruct (c <? 65536)%N eqn:E3.
  { destruct (is_surrogate c) eqn:Es; [discriminate|].
    inversion H; subst; clear H. nbool. cbn [app next_char].
    unfold char_width, cont_val. rewrite !is_cont_Nb by lia. rewrite !bN_Nb by lia.
    repeat dec_ltb. cbn [andb].
    replace ((224 + c / 4096 - 224) * 4096 + (128 + (c / 64) mod 64 - 128) * 64
             + (128 + c mod 64 - 128))%N with c by lia.
    rewrite Es. repeat dec_ltb. reflexivity. }
  destruct (c <? 1114112)%N eqn:E4; [|discriminate].
  inversion H; subst; clear H. nbool. cbn [app next_char].
  unfold char_width, cont_val. rewrite !is_cont_Nb by lia. rewrite !bN_Nb by lia.
  repeat dec_ltb. cbn [andb].
  replace ((240 + c / 262144 - 240) * 262144 + (128 + (c / 4096) mod 64 - 128) * 4096
           + (128 + (c / 64) mod 64 - 128) * 64 + (128 + c mod 64 - 128))%N with c by lia.
  repeat dec_ltb. reflexivity.
Qed.

Lemma Nb_eq : forall n b, n = bN b -> Nb n = b.
Proof. intros n b H. subst n. apply Nb_bN. Qed.

Lemma next_char_inv : forall s c r,
  next_char s = Some (c, r) -> exists bs, encode_cp c = Some bs /\ s = bs ++ r.
Proof.
  intros s c r H. destruct s as [|b0 r0]; [discriminate|].
  unfold next_char in H. unfold char_width in H.
  pose proof (bN_lt b0) as Hb0.
  destruct (bN b0 <? 128)%N eqn:E1.
  { inversion H; subst; clear H. nbool. exists [b0]. split; [|reflexivity].
    unfold encode_cp. repeat dec_ltb. rewrite Nb_bN. reflexivity. }
  destruct (bN b0 <? 194)%N eqn:E2; [discriminate|].
  destruct (bN b0 <? 224)%N eqn:E3.
  { destruct r0 as [|b1 r1]; [discriminate|].
    destruct (is_cont b1) eqn:C1; [|discriminate].
    inversion H; subst; clear H. unfold cont_val. nbool.
    exists [b0; b1]. split; [|reflexivity].
    unfold encode_cp. repeat dec_ltb.
    f_equal. f_equal; [|f_equal]; apply Nb_eq; lia. }
  destruct (bN b0 <? 240)%N eqn:E4.
  { destruct r0 as [|b1 [|b2 r2]]; try discriminate.
    match type of H with (if ?c then _ else _) = _ => destruct c eqn:C end; [|discriminate].
    inversion H; subst; clear H. unfold cont_val in *. nbool.
    pose proof (bN_lt b1). pose proof (bN_lt b2).
    exists [b0; b1; b2]. split; [|reflexivity].
    unfold encode_cp.
    match goal with Hs : is_surrogate ?x = false |- _ => set (c := x) in * end.
    assert (Hc : c = ((bN b0 - 224) * 4096 + (bN b1 - 128) * 64 + (bN b2 - 128))%N) by reflexivity.
    clearbody c.
    repeat dec_ltb.
    match goal with Hs : is_surrogate c = false |- _ => rewrite Hs end.
    f_equal. f_equal; [|f_equal; [|f_equal]]; apply Nb_eq; lia. }
  destruct (bN b0 <? 245)%N eqn:E5; [|discriminate].
  destruct r0 as [|b1 [|b2 [|b3 r3]]]; try discriminate.
  match type of H with (if ?c then _ else _) = _ => destruct c eqn:C end; [|discriminate].
  inversion H; subst; clear H. unfold cont_val in *. nbool.
  pose proof (bN_lt b1). pose proof (bN_lt b2). pose proof (bN_lt b3).
  exists [b0; b1; b2; b3]. split; [|reflexivity].
  unfold encode_cp.
  match goal with Hs : (65536 <= ?x)%N |- _ => set (c := x) in * end.
  assert (Hc : c = ((bN b0 - 240) * 262144 + (bN b1 - 128) * 4096 + (bN b2 - 128) * 64 + (bN b3 - 128))%N)
    by reflexivity.
  clearbody c.
  repeat dec_ltb.
  f_equal. f_equal; [|f_equal; [|f_equal; [|f_equal]]]; apply Nb_eq; lia.
Qed.

(* ------------------------------------------------------------------ *)
(* shape of one encoded character                                       *)
(* ------------------------------------------------------------------ *)
(* lead byte (not a continuation byte) followed by continuation bytes only *)
Definition shaped (c : list byte) : Prop :=
  exists l t, c = l :: t /\ is_cont l = false /\ forallb is_cont t = true.

Definition is_char (c : list byte) : Prop := exists cp, encode_cp cp = Some c.

Lemma encode_cp_shape : forall c bs, encode_cp c = Some bs ->
  shaped bs /\ 1 <= length bs <= 4.
Proof.
  intros c bs H. unfold encode_cp in H.
  destruct (c <? 128)%N eqn:E1.
  { inversion H; subst; clear H. nbool. split; [|cbn; lia].
    exists (Nb c), []. repeat split. rewrite is_cont_Nb by lia. repeat dec_ltb. reflexivity. }
  destruct (c <? 2048)%N eqn:E2.
  { inversion H; subst; clear H. nbool. split; [|cbn; lia].
    eexists _, _. split; [reflexivity|]. cbn [forallb].
    rewrite !is_cont_Nb by lia. repeat dec_ltb. split; reflexivity. }
  destruct (c <? 65536)%N eqn:E3.
  { destruct (is_surrogate c) eqn:Es; [discriminate|].
    inversion H; subst; clear H. nbool. split; [|cbn; lia].
    eexists _, _. split; [reflexivity|]. cbn [forallb].
    rewrite !is_cont_Nb by lia. repeat dec_ltb. split; reflexivity. }
  destruct (c <? 1114112)%N eqn:E4; [|discriminate].
  inversion H; subst; clear H. nbool. split; [|cbn; lia].
  eexists _, _. split; [reflexivity|]. cbn [forallb].
  rewrite !is_cont_Nb by lia. repeat dec_ltb. split; reflexivity.
Qed.

Lemma is_char_shaped : forall c, is_char c -> shaped c.
Proof. intros c [cp H]. apply (encode_cp_shape cp c H). Qed.

Lemma is_char_length : forall c, is_char c -> 1 <= length c <= 4.
Proof. intros c [cp H]. apply (encode_cp_shape cp c H). Qed.

Lemma next_char_length : forall s c r, next_char s = Some (c, r) -> length r < length s.
Proof.
  intros s c r H. apply next_char_inv in H. destruct H as [bs [He Hs]].
  apply encode_cp_shape in He. destruct He as [_ Hl]. subst s. rewrite app_length. lia.
Qed.

(* ------------------------------------------------------------------ *)
(* decode: fuel irrelevance and unfolding                               *)
(* ------------------------------------------------------------------ *)
Lemma decode_fuel_indep : forall f1 f2 s, length s <= f1 -> length s <= f2 ->
  decode_fuel f1 s = decode_fuel f2 s.
Proof.
  induction f1 as [|f1 IH]; intros f2 s H1 H2.
  - destruct s; [destruct f2; reflexivity|cbn in H1; lia].
  - destruct s as [|b r]; [destruct f2; reflexivity|].
    destruct f2 as [|f2]; [cbn in H2; lia|].
    cbn [decode_fuel].
    destruct (next_char (b :: r)) as [[c r']|] eqn:E; [|reflexivity].
    apply next_char_length in E. cbn [length] in *.
    rewrite (IH f2 r') by lia. reflexivity.
Qed.

Lemma decode_fuel_enough : forall f s, length s <= f -> decode_fuel f s = decode s.
Proof. intros f s H. unfold decode. apply decode_fuel_indep; lia. Qed.

Lemma decode_nil : decode [] = Some [].
Proof. reflexivity. Qed.

Lemma decode_step : forall s c r, next_char s = Some (c, r) ->
  decode s = option_map (cons c) (decode r).
Proof.
  intros s c r H. destruct s as [|b s']; [discriminate|].
  unfold decode at 1. cbn [length decode_fuel]. rewrite H.
  apply next_char_length in H. cbn [length] in H.
  rewrite decode_fuel_enough by lia. reflexivity.
Qed.

Lemma decode_step_none : forall s, s <> [] -> next_char s = None -> decode s = None.
Proof.
  intros s Hs H. destruct s as [|b s']; [congruence|].
  unfold decode. cbn [length decode_fuel]. rewrite H. reflexivity.
Qed.

(* ------------------------------------------------------------------ *)
(* Theorem 1: decode / encode are mutually inverse                      *)
(* ------------------------------------------------------------------ *)
Lemma decode_encode_app : forall cps bs r,
  encode cps = Some bs -> decode (bs ++ r) = option_map (app cps) (decode r).
Proof.
  induction cps as [|c cps IH]; intros bs r H.
  - inversion H; subst. cbn [app]. destruct (decode r); reflexivity.
  - cbn [encode] in H.
    destruct (encode_cp c) as [b|] eqn:Ec; [|discriminate].
    destruct (encode cps) as [br|] eqn:Er; [|discriminate].
    inversion H; subst; clear H.
    rewrite <- app_assoc.
    rewrite (decode_step _ c (br ++ r)) by (apply next_char_encode; exact Ec).
    rewrite (IH br r eq_refl). destruct (decode r); reflexivity.
Qed.

Theorem decode_encode : forall cps bs, encode cps = Some bs -> decode bs = Some cps.
Proof.
  intros cps bs H. pose proof (decode_encode_app cps bs [] H) as D.
  rewrite app_nil_r in D. rewrite D. cbn. rewrite app_nil_r. reflexivity.
Qed.
Print Assumptions decode_encode.

Theorem encode_decode : forall bs cps, decode bs = Some cps -> encode cps = Some bs.
Proof.
  intros bs. remember (length bs) as n eqn:Hn. revert bs Hn.
  induction n as [n IH] using lt_wf_ind. intros bs Hn cps H.
  destruct bs as [|b0 r0].
  - inversion H; subst. reflexivity.
  - destruct (next_char (b0 :: r0)) as [[c r]|] eqn:E.
    + rewrite (decode_step _ _ _ E) in H.
      destruct (decode r) as [cr|] eqn:Dr; [|discriminate].
      inversion H; subst cps; clear H.
      pose proof (next_char_length _ _ _ E) as Hl.
      apply next_char_inv in E. destruct E as [bs [He Hs]].
      cbn [encode]. rewrite He.
      rewrite (IH (length r)) with (bs := r) (cps := cr); try reflexivity; try lia; try exact Dr.
      rewrite Hs. reflexivity.
    + rewrite decode_step_none in H by (congruence || exact E). discriminate.
Qed.
Print Assumptions encode_decode.

(* the hypotheses are satisfiable: "a e-acute euro grinning-face b" *)
Example decode_encode_ex :
  encode [97; 233; 8364; 128512; 98]%N
  = Some (map Nb [97;195;169;226;130;172;240;159;152;128;98]%N)
  /\ decode (map Nb [97;195;169;226;130;172;240;159;152;128;98]%N)
     = Some [97; 233; 8364; 128512; 98]%N.
Proof. vm_compute. split; reflexivity. Qed.

(* strictness examples: overlong, surrogate, too large, truncated, stray continuation *)
Example decode_rejects :
  map (fun l => decode (map Nb l))
      [[192;128]; [224;128;128]; [237;160;128]; [244;144;128;128]; [240;128;128;128];
       [226;130]; [128]; [245;128;128;128]; [255]]%N
  = [None; None; None; None; None; None; None; None; None].
Proof. vm_compute. reflexivity. Qed.

(* ------------------------------------------------------------------ *)
(* characters                                                           *)
(* ------------------------------------------------------------------ *)
Lemma encode_enc1 : forall cps bs, encode cps = Some bs ->
  concat (map enc1 cps) = bs /\ Forall is_char (map enc1 cps).
Proof.
  induction cps as [|c cps IH]; intros bs H.
  - inversion H; subst. split; [reflexivity|constructor].
  - cbn [encode] in H.
    destruct (encode_cp c) as [b|] eqn:Ec; [|discriminate].
    destruct (encode cps) as [br|] eqn:Er; [|discriminate].
    inversion H; subst; clear H. destruct (IH br eq_refl) as [IH1 IH2].
    cbn [map concat]. unfold enc1 at 1 3. rewrite Ec. rewrite IH1. split; [reflexivity|].
    constructor; [exists c; exact Ec|exact IH2].
Qed.

Lemma valid_decode : forall s, valid_utf8 s = true -> exists cps, decode s = Some cps.
Proof.
  intros s H. unfold valid_utf8 in H. destruct (decode s) as [cps|]; [eauto|discriminate].
Qed.

Lemma decode_valid : forall s cps, decode s = Some cps -> valid_utf8 s = true.
Proof. intros s cps H. unfold valid_utf8. rewrite H. reflexivity. Qed.

(* Theorem 2a *)
Theorem chars_concat : forall s, valid_utf8 s = true -> concat (chars s) = s.
Proof.
  intros s H. apply valid_decode in H. destruct H as [cps H].
  unfold chars. rewrite H. apply encode_decode in H. apply encode_enc1 in H. apply H.
Qed.
Print Assumptions chars_concat.

Lemma chars_is_char : forall s, Forall is_char (chars s).
Proof.
  intros s. unfold chars. destruct (decode s) as [cps|] eqn:H; [|constructor].
  apply encode_decode in H. apply encode_enc1 in H. apply H.
Qed.

Lemma is_char_decode : forall c, is_char c -> exists cp, decode c = Some [cp] /\ encode_cp cp = Some c.
Proof.
  intros c [cp H]. exists cp. split; [|exact H].
  apply decode_encode. cbn [encode]. rewrite H. rewrite app_nil_r. reflexivity.
Qed.

(* Theorem 2b: every element of [chars s] is one valid character of 1..4 bytes *)
Theorem chars_single : forall s c, In c (chars s) ->
  1 <= length c <= 4 /\ exists cp, decode c = Some [cp] /\ encode_cp cp = Some c.
Proof.
  intros s c Hin. pose proof (chars_is_char s) as F. rewrite Forall_forall in F.
  specialize (F c Hin). split; [apply is_char_length; exact F|apply is_char_decode; exact F].
Qed.
Print Assumptions chars_single.

Lemma is_chars_encode : forall cs, Forall is_char cs ->
  exists cps, encode cps = Some (concat cs) /\ map enc1 cps = cs.
Proof.
  induction cs as [|c cs IH]; intros F.
  - exists []. split; reflexivity.
  - inversion F as [|? ? [cp Hc] F']; subst. destruct (IH F') as [cps [He Hm]].
    exists (cp :: cps). cbn [encode map concat]. rewrite Hc, He. split; [reflexivity|].
    unfold enc1 at 1. rewrite Hc, Hm. reflexivity.
Qed.

Lemma chars_of_concat : forall cs, Forall is_char cs ->
  valid_utf8 (concat cs) = true /\ chars (concat cs) = cs.
Proof.
  intros cs F. destruct (is_chars_encode cs F) as [cps [He Hm]].
  apply decode_encode in He. split.
  - eapply decode_valid; exact He.
  - unfold chars. rewrite He. exact Hm.
Qed.

Lemma valid_iff : forall s, valid_utf8 s = true <-> exists cs, s = concat cs /\ Forall is_char cs.
Proof.
  intros s. split.
  - intros H. exists (chars s). split; [symmetry; apply chars_concat; exact H|apply chars_is_char].
  - intros [cs [Hs F]]. subst s. apply chars_of_concat; exact F.
Qed.

Lemma valid_app : forall a b, valid_utf8 a = true -> valid_utf8 b = true ->
  valid_utf8 (a ++ b) = true /\ chars (a ++ b) = chars a ++ chars b.
Proof.
  intros a b Ha Hb.
  pose proof (chars_concat a Ha) as Ca. pose proof (chars_concat b Hb) as Cb.
  assert (F : Forall is_char (chars a ++ chars b)).
  { apply Forall_app. split; apply chars_is_char. }
  apply chars_of_concat in F. rewrite concat_app, Ca, Cb in F. exact F.
Qed.

Lemma decode_app_l : forall a b cps, decode a = Some cps ->
  decode (a ++ b) = option_map (app cps) (decode b).
Proof.
  intros a b cps H. apply encode_decode in H. apply decode_encode_app. exact H.
Qed.

(* prefix-code property: removing a valid prefix from a valid string leaves a valid string *)
Lemma valid_app_inv : forall a b, valid_utf8 a = true -> valid_utf8 (a ++ b) = true ->
  valid_utf8 b = true.
Proof.
  intros a b Ha Hab. apply valid_decode in Ha. destruct Ha as [cps Ha].
  unfold valid_utf8 in *. rewrite (decode_app_l a b cps Ha) in Hab.
  destruct (decode b); [reflexivity|discriminate].
Qed.

Lemma valid_nil : valid_utf8 [] = true.
Proof. reflexivity. Qed.

Lemma chars_nil : chars [] = [].
Proof. reflexivity. Qed.

Lemma is_char_valid : forall c, is_char c -> valid_utf8 c = true /\ chars c = [c].
Proof.
  intros c H. assert (F : Forall is_char [c]) by (constructor; [exact H|constructor]).
  apply chars_of_concat in F. cbn [concat] in F. rewrite app_nil_r in F. exact F.
Qed.

(* ------------------------------------------------------------------ *)
(* char boundaries                                                      *)
(* ------------------------------------------------------------------ *)
(* empty, or starting with a non-continuation byte *)
Definition head_ok (s : list byte) : bool :=
  match s with [] => true | b :: _ => negb (is_cont b) end.

Lemma shaped_head_ok : forall c r, shaped c -> head_ok (c ++ r) = true.
Proof. intros c r [l [t [Hc [Hl _]]]]. subst c. cbn. rewrite Hl. reflexivity. Qed.

Lemma concat_head_ok : forall cs, Forall shaped cs -> head_ok (concat cs) = true.
Proof.
  intros cs F. destruct F as [|c cs Hc F]; [reflexivity|].
  cbn [concat]. apply shaped_head_ok; exact Hc.
Qed.

Lemma valid_head_ok : forall s, valid_utf8 s = true -> head_ok s = true.
Proof.
  intros s H. rewrite <- (chars_concat s H). apply concat_head_ok.
  eapply Forall_impl; [|apply chars_is_char]. apply is_char_shaped.
Qed.

(* index shift across a non-empty prefix *)
Lemma boundary_shift : forall p s i, p <> [] -> head_ok s = true ->
  is_char_boundary (p ++ s) (length p + i) = is_char_boundary s i.
Proof.
  intros p s i Hp Hs.
  assert (Hlp : 0 < length p) by (destruct p; [congruence|cbn; lia]).
  unfold is_char_boundary.
  destruct (length p + i) as [|k] eqn:Ek; [lia|]. rewrite <- Ek. clear k Ek.
  rewrite nth_error_app2 by lia. replace (length p + i - length p) with i by lia.
  rewrite app_length.
  destruct i as [|i].
  - destruct s as [|b s']; cbn [nth_error length].
    + apply Nat.eqb_eq. lia.
    + cbn in Hs. exact Hs.
  - destruct (nth_error s (S i)); [reflexivity|].
    destruct (Nat.eqb_spec (length p + S i) (length p + length s));
    destruct (Nat.eqb_spec (S i) (length s)); try reflexivity; lia.
Qed.

(* strictly inside a character: not a boundary *)
Lemma boundary_inside : forall c r j, shaped c -> 0 < j < length c ->
  is_char_boundary (c ++ r) j = false.
Proof.
  intros c r j [l [t [Hc [Hl Ht]]]] Hj. subst c.
  destruct j as [|j]; [lia|]. cbn [is_char_boundary app nth_error length] in *.
  rewrite nth_error_app1 by lia.
  destruct (nth_error t j) as [b|] eqn:E.
  - rewrite forallb_forall in Ht. rewrite (Ht b); [reflexivity|]. eapply nth_error_In; exact E.
  - apply nth_error_None in E. lia.
Qed.

Lemma boundary_zero : forall s, is_char_boundary s 0 = true.
Proof. reflexivity. Qed.

Lemma boundary_len : forall s, is_char_boundary s (length s) = true.
Proof.
  intros s. unfold is_char_boundary. destruct (length s) eqn:E; [reflexivity|]. rewrite <- E.
  replace (nth_error s (length s)) with (@None byte) by (symmetry; apply nth_error_None; lia).
  apply Nat.eqb_refl.
Qed.

Lemma boundary_beyond : forall s i, length s < i -> is_char_boundary s i = false.
Proof.
  intros s i H. unfold is_char_boundary. destruct i; [lia|].
  replace (nth_error s (S i)) with (@None byte) by (symmetry; apply nth_error_None; lia).
  apply Nat.eqb_neq. lia.
Qed.

Lemma offsets_from_shift : forall cs p, offsets_from p cs = map (Nat.add p) (offsets_from 0 cs).
Proof.
  induction cs as [|c cs IH]; intros p.
  - cbn. f_equal. lia.
  - cbn [offsets_from map]. f_equal; [lia|].
    rewrite (IH (p + length c)), (IH (0 + length c)). rewrite map_map.
    apply map_ext. intros x. lia.
Qed.

Lemma boundary_iff_shaped : forall cs i, Forall shaped cs ->
  (is_char_boundary (concat cs) i = true <-> In i (offsets_from 0 cs)).
Proof.
  induction cs as [|c cs IH]; intros i F.
  - cbn [concat offsets_from]. destruct i.
    + split; [intros _; left; reflexivity|reflexivity].
    + rewrite boundary_beyond by (cbn; lia). split; [discriminate|].
      intros [H|[]]. discriminate.
  - inversion F as [|? ? Hc F']; subst. cbn [concat offsets_from].
    assert (Hlen : 1 <= length c) by (destruct Hc as [l [t [-> _]]]; cbn; lia).
    rewrite offsets_from_shift. cbn [Nat.add].
    destruct (Nat.eq_dec i 0) as [->|Hi0].
    { split; [intros _; left; reflexivity|reflexivity]. }
    destruct (lt_dec i (length c)) as [Hlt|Hge].
    { rewrite boundary_inside by (exact Hc || lia). split; [discriminate|].
      intros [H|H]; [lia|]. apply in_map_iff in H. destruct H as [x [Hx _]]. lia. }
    replace i with (length c + (i - length c)) at 1 by lia.
    rewrite boundary_shift.
    + rewrite (IH (i - length c) F'). split.
      * intros H. right. apply in_map_iff. exists (i - length c). split; [lia|exact H].
      * intros [H|H]; [lia|]. apply in_map_iff in H. destruct H as [x [Hx Hin]].
        replace (i - length c) with x by lia. exact Hin.
    + destruct Hc as [l [t [-> _]]]. discriminate.
    + apply concat_head_ok; exact F'.
Qed.

(* Theorem 2c: for a valid string, the char boundaries are exactly the start offsets of its
   characters, plus the total length (the last element of [boundaries s]). *)
Theorem boundary_iff : forall s i, valid_utf8 s = true ->
  (is_char_boundary s i = true <-> In i (boundaries s)).
Proof.
  intros s i H. unfold boundaries. rewrite <- (chars_concat s H) at 1.
  apply boundary_iff_shaped. eapply Forall_impl; [|apply chars_is_char]. apply is_char_shaped.
Qed.
Print Assumptions boundary_iff.

(* [boundaries]: In i <-> i is the total length of a prefix of the character list *)
Lemma offsets_from_prefix : forall cs i,
  In i (offsets_from 0 cs) <-> exists k, k <= length cs /\ i = length (concat (firstn k cs)).
Proof.
  induction cs as [|c cs IH]; intros i.
  - cbn. split.
    + intros [H|[]]. exists 0. split; [lia|]. cbn. lia.
    + intros [k [_ Hk]]. left. destruct k; cbn in Hk; lia.
  - cbn [offsets_from]. rewrite offsets_from_shift. cbn [Nat.add]. split.
    + intros [H|H].
      * exists 0. split; [lia|]. cbn. lia.
      * apply in_map_iff in H. destruct H as [x [Hx Hin]]. apply IH in Hin.
        destruct Hin as [k [Hk Hxk]]. exists (S k). split; [cbn; lia|].
        cbn [firstn concat]. rewrite app_length. lia.
    + intros [k [Hk Hi]]. destruct k as [|k].
      * left. cbn in Hi. lia.
      * right. cbn [firstn concat] in Hi. rewrite app_length in Hi.
        apply in_map_iff. exists (length (concat (firstn k cs))). split; [lia|].
        apply IH. exists k. split; [cbn in Hk; lia|reflexivity].
Qed.

Corollary boundary_iff_offset : forall s i, valid_utf8 s = true ->
  (is_char_boundary s i = true <->
   exists k, k <= length (chars s) /\ i = length (concat (firstn k (chars s)))).
Proof. intros s i H. rewrite boundary_iff by exact H. apply offsets_from_prefix. Qed.

Example boundary_ex :
  let s := map Nb [97;195;169;226;130;172;240;159;152;128;98]%N in
  valid_utf8 s = true /\ boundaries s = [0; 1; 3; 6; 10; 11]
  /\ map (is_char_boundary s) (seq 0 13)
     = [true; true; false; true; false; false; true; false; false; false; true; true; false].
Proof. vm_compute. repeat split. Qed.

(* splitting at a boundary gives two valid strings; and conversely *)
Lemma boundary_split : forall s i, valid_utf8 s = true -> is_char_boundary s i = true ->
  i <= length s /\ valid_utf8 (firstn i s) = true /\ valid_utf8 (skipn i s) = true
  /\ chars s = chars (firstn i s) ++ chars (skipn i s).
Proof.
  intros s i H Hb. apply boundary_iff_offset in Hb; [|exact H]. destruct Hb as [k [Hk Hi]].
  pose proof (chars_concat s H) as Hc. pose proof (chars_is_char s) as F.
  rewrite <- (firstn_skipn k (chars s)) in Hc, F. rewrite concat_app in Hc.
  apply Forall_app in F. destruct F as [F1 F2].
  apply chars_of_concat in F1. apply chars_of_concat in F2.
  remember (concat (firstn k (chars s))) as A eqn:HA.
  remember (concat (skipn k (chars s))) as B eqn:HB.
  assert (E1 : firstn i s = A).
  { rewrite <- Hc, Hi. rewrite firstn_app, Nat.sub_diag, firstn_all. cbn. apply app_nil_r. }
  assert (E2 : skipn i s = B).
  { rewrite <- Hc, Hi. rewrite skipn_app, Nat.sub_diag, skipn_all. reflexivity. }
  rewrite E1, E2. destruct F1 as [V1 C1]. destruct F2 as [V2 C2]. rewrite C1, C2, firstn_skipn.
  repeat split; try assumption.
  rewrite <- Hc, Hi, app_length. lia.
Qed.

Lemma split_boundary : forall a b, valid_utf8 b = true ->
  is_char_boundary (a ++ b) (length a) = true.
Proof.
  intros a b Hb. destruct a as [|x a]; [reflexivity|].
  replace (length (x :: a)) with (length (x :: a) + 0) by lia.
  rewrite boundary_shift; [reflexivity|discriminate|apply valid_head_ok; exact Hb].
Qed.

(* ------------------------------------------------------------------ *)
(* valid_up_to                                                          *)
(* ------------------------------------------------------------------ *)
Lemma valid_up_to_fuel_spec : forall f s pos, length s <= f ->
  match valid_up_to_fuel f s pos with
  | None => valid_utf8 s = true
  | Some i => pos <= i < pos + length s /\ valid_utf8 (firstn (i - pos) s) = true
              /\ valid_utf8 s = false
  end.
Proof.
  induction f as [|f IH]; intros s pos Hl.
  - destruct s; [reflexivity|cbn in Hl; lia].
  - destruct s as [|b r]; [reflexivity|].
    cbn [valid_up_to_fuel].
    destruct (next_char (b :: r)) as [[c r']|] eqn:E.
    + pose proof (next_char_length _ _ _ E) as Hlt.
      pose proof (decode_step _ _ _ E) as Hd.
      pose proof E as E'. apply next_char_inv in E'. destruct E' as [bs [He Hs]].
      assert (Hbl : length (b :: r) - length r' = length bs).
      { rewrite Hs, app_length. lia. }
      rewrite Hbl.
      specialize (IH r' (pos + length bs) ltac:(cbn [length] in *; lia)).
      destruct (valid_up_to_fuel f r' (pos + length bs)) as [i|].
      * destruct IH as [Hi [Hv Hn]]. rewrite Hs. rewrite app_length. split; [lia|]. split.
        -- replace (i - pos) with (length bs + (i - (pos + length bs))) by lia.
           rewrite firstn_app_2.
           assert (Vb : valid_utf8 bs = true) by (apply is_char_valid; exists c; exact He).
           apply valid_app; assumption.
        -- rewrite <- Hs. unfold valid_utf8 in *. rewrite Hd. destruct (decode r'); [discriminate|reflexivity].
      * unfold valid_utf8 in *. rewrite Hd. destruct (decode r'); [reflexivity|discriminate].
    + split; [cbn [length]; lia|]. rewrite Nat.sub_diag. split; [reflexivity|].
      unfold valid_utf8. rewrite decode_step_none; [reflexivity|discriminate|exact E].
Qed.

Lemma valid_up_to_none : forall s, valid_up_to s = None <-> valid_utf8 s = true.
Proof.
  intros s. unfold valid_up_to. pose proof (valid_up_to_fuel_spec (length s) s 0 (le_n _)) as H.
  destruct (valid_up_to_fuel (length s) s 0).
  - destruct H as [_ [_ H]]. split; [discriminate|congruence].
  - split; [intros _; exact H|reflexivity].
Qed.

(* the error position is a valid index into the bytes, and everything before it is valid *)
Lemma valid_up_to_some : forall s i, valid_up_to s = Some i ->
  i < length s /\ valid_utf8 (firstn i s) = true /\ valid_utf8 s = false.
Proof.
  intros s i. unfold valid_up_to. pose proof (valid_up_to_fuel_spec (length s) s 0 (le_n _)) as H.
  intros E. rewrite E in H. rewrite Nat.sub_0_r in H. destruct H as [H1 [H2 H3]].
  repeat split; try assumption; lia.
Qed.
