(* ValueEq.v -- equality, hashability and hash of yarel values as far as HashMap keys are concerned (C12).
   Definitions only.  Code modelled (yarel/src):
     value.rs   `Value::has_hash`, `impl PartialEq for Value`, `impl Hash for Value`
     object.rs  `ObjTuple::has_hash`, `impl PartialEq for ObjTuple`, `impl Hash for Gc<ObjTuple>`, `ObjRange`
     memory.rs  `impl PartialEq for Gc<T>` (address equality)
     utils.rs   `hash_number`            hash.rs `PassThroughHasher`

   Identity.  `Gc<T> == Gc<T>` compares addresses.  An object is modelled by a number `id` plus its (immutable)
   content; "same address" is modelled as "same id AND same content" -- two descriptions of one object cannot
   disagree on the content, so nothing is lost, and no well-formedness side condition is needed.
     strings : interned (C11): address equality = content equality, no id needed;
     classes : `*first == *second` on Gc<ObjClass>: identity;      hash = hash of the NAME string;
     ranges  : `*first == *second` on Gc<ObjRange>: identity (see RangeCacheModel.v for who shares a box);
     tuples  : `**first == **second` = ObjTuple::eq = (same address) || elements == elements (Vec<Value> ==);
               the address shortcut makes `t == t` true even when t contains NaN;
     numbers : IEEE ==  (`feqb`).
   `KUnhashable tag` stands for every value for which `has_hash` is false at the top (vectors, maps, instances,
   closures, ...; `tag` = identity).  Their `==` is irrelevant here: the natives reject them before any
   comparison; `veq` compares tags.  A tuple containing one is a `KTuple`.

   Parameters regenerated from the source by translator/translate_c12.py (gen/ValueArms.v):
     norm_neg_zero : does utils::hash_number map -0.0 to +0.0 before hashing?
     hconsts       : the constants of the Boolean / None arms, the seed and the combining operator of the tuple
                     fold.  NOTE the seed: the code says `.fold(0_64, |a, b| a ^ b)`; `0_64` is the integer
                     literal 64 (an underscore inside a literal is a separator), NOT `0_u64`. *)
From Coq Require Import List ZArith NArith Bool String.
From Coq Require Import Strings.Byte Floats.SpecFloat.
From YV Require Import Num.
Import ListNotations.

Inductive kv : Type :=
| KNil
| KBool (b : bool)
| KNum (x : f64)
| KStr (s : list byte)
| KClass (id : N) (name : list byte)
| KRange (id : N) (b e : Z)
| KTuple (id : N) (l : list kv)
| KUnhashable (tag : N).

Fixpoint bytes_eqb (a b : list byte) : bool :=
  match a, b with
  | [], [] => true
  | x :: a', y :: b' => Byte.eqb x y && bytes_eqb a' b'
  | _, _ => false
  end.

(* syntactic identity of two descriptions (f64 compared structurally: NaN = NaN, +0 <> -0) *)
Fixpoint kv_same (a b : kv) : bool :=
  match a, b with
  | KNil, KNil => true
  | KBool x, KBool y => Bool.eqb x y
  | KNum x, KNum y => f64_eq_exact x y
  | KStr s, KStr t => bytes_eqb s t
  | KClass i n, KClass j m => N.eqb i j && bytes_eqb n m
  | KRange i b e, KRange j b' e' => N.eqb i j && Z.eqb b b' && Z.eqb e e'
  | KTuple i l, KTuple j m =>
      N.eqb i j &&
      (fix go (l m : list kv) : bool :=
         match l, m with
         | [], [] => true
         | x :: l', y :: m' => kv_same x y && go l' m'
         | _, _ => false
         end) l m
  | KUnhashable t, KUnhashable u => N.eqb t u
  | _, _ => false
  end.

(* impl PartialEq for Value, restricted to these kinds; any two different kinds: `_ => false` *)
Fixpoint veq (a b : kv) : bool :=
  match a, b with
  | KNil, KNil => true
  | KBool x, KBool y => Bool.eqb x y
  | KNum x, KNum y => feqb x y
  | KStr s, KStr t => bytes_eqb s t
  | KClass i n, KClass j m => N.eqb i j && bytes_eqb n m
  | KRange i b e, KRange j b' e' => N.eqb i j && Z.eqb b b' && Z.eqb e e'
  | KTuple i l, KTuple j m =>
      (* ObjTuple::eq: `if self as *const _ == other as *const _ { return true; } self.elements == other.elements` *)
      kv_same (KTuple i l) (KTuple j m) ||
      (fix go (l m : list kv) : bool :=
         match l, m with
         | [], [] => true
         | x :: l', y :: m' => veq x y && go l' m'
         | _, _ => false
         end) l m
  | KUnhashable t, KUnhashable u => N.eqb t u
  | _, _ => false
  end.

Fixpoint veq_list (l m : list kv) : bool :=
  match l, m with
  | [], [] => true
  | x :: l', y :: m' => veq x y && veq_list l' m'
  | _, _ => false
  end.

Fixpoint kv_same_list (l m : list kv) : bool :=
  match l, m with
  | [], [] => true
  | x :: l', y :: m' => kv_same x y && kv_same_list l' m'
  | _, _ => false
  end.

(* Value::has_hash / ObjTuple::has_hash (`fold(true, |a, b| a && b)` over the elements; the self_lock guard
   concerns cyclic tuples, which cannot be built: tuples are immutable and a vector inside is unhashable) *)
Fixpoint has_hash (a : kv) : bool :=
  match a with
  | KUnhashable _ => false
  | KTuple _ l => forallb has_hash l
  | _ => true
  end.

Record hconsts : Type := mkH {
  h_true : Z;           (* Value::Boolean(true)  => 1_u64 *)
  h_false : Z;          (* Value::Boolean(false) => 0_u64 *)
  h_nil : Z;            (* Value::None => 2_u64 *)
  t_seed : Z;           (* `.fold(0_64, ..)` = 64 *)
  t_add : bool          (* false: `a ^ b` ; true: `a.wrapping_add(b)` *)
}.

Definition hconsts_today : hconsts := mkH 1 0 2 64 false.

Section Hash.
  Variable norm_neg_zero : bool.
  Variable hc : hconsts.

  (* utils::hash_number, with the pending repair (negative zero hashed as positive zero) as an option *)
  Definition hash_number' (x : f64) : Z :=
    if norm_neg_zero then
      match x with
      | S754_zero _ => hash_number f64_zero
      | _ => hash_number x
      end
    else hash_number x.

  Definition t_comb (a b : Z) : Z := if t_add hc then (a + b) mod two64 else Z.lxor a b.

  (* impl Hash for Value: the u64 handed to `state.write_u64`; the PassThroughHasher returns it unchanged.
     (There is also an arm for ObjFunction, unreachable through the map since has_hash is false for functions;
     the `_ => panic!` arm is KUnhashable: the value 0 below is never used, every caller checks has_hash.) *)
  Fixpoint vhash (a : kv) : Z :=
    match a with
    | KNil => h_nil hc
    | KBool b => if b then h_true hc else h_false hc
    | KNum x => hash_number' x
    | KStr s => fnv_hash s                       (* s.hash: cached at creation, FNV-1a of bytes ++ 0xff (C11) *)
    | KClass _ n => fnv_hash n                   (* c.name.hash *)
    | KRange _ b e => Z.lxor (hash_number' (f64_of_Z b)) (hash_number' (f64_of_Z e))
    | KTuple _ l => fold_left t_comb (map vhash l) (t_seed hc)
    | KUnhashable _ => 0
    end.
End Hash.

(* --- the tables of the source that this file hard-wires; gen/ValueArms.v must reproduce them (props/C12.v) --- *)
Open Scope string_scope.

(* Value::has_hash: arms in source order; everything else `_ => false` *)
Definition model_has_hash_arms : list (string * string) :=
  [("Boolean", "true"); ("Number", "true"); ("ObjString", "true"); ("ObjClass", "true");
   ("ObjTuple", "delegate:has_hash"); ("ObjRange", "true"); ("None", "true"); ("_", "false")].

(* ObjTuple::has_hash: all elements *)
Definition model_tuple_has_hash : string := "elements.iter.map(has_hash).fold(true,&&)".

(* impl Hash for Value: variant -> structural summary *)
Definition model_hash_arms : list (string * string) :=
  [("Boolean", "if-const"); ("Number", "hash_number(*n)"); ("ObjString", "s.hash"); ("ObjClass", "c.name.hash");
   ("ObjFunction", "other"); ("ObjTuple", "passthrough(t.hash)");
   ("ObjRange", "hash_number(r.begin as f64)^hash_number(r.end as f64)"); ("None", "const"); ("_", "panic")].

(* impl Hash for Gc<ObjTuple>: elements hashed with a fresh PassThroughHasher each, folded *)
Definition model_tuple_hash : string := "elements.iter.map(passthrough(v.hash)).fold".

(* impl PartialEq for Value: variant -> how the payloads are compared
   ptr = `*first == *second` on Gc (address), val = `first == second` on the payload,
   deref = `**first == **second` (the object's own PartialEq), borrow = `*first.borrow() == *second.borrow()` *)
Definition model_eq_arms : list (string * string) :=
  [("Boolean", "val"); ("Number", "val"); ("ObjString", "ptr"); ("ObjStringIter", "ptr"); ("ObjFunction", "ptr");
   ("ObjNative", "ptr"); ("ObjClosure", "ptr"); ("ObjClass", "ptr"); ("ObjInstance", "ptr");
   ("ObjBoundMethod", "ptr"); ("ObjTuple", "deref"); ("ObjTupleIter", "ptr"); ("ObjVec", "borrow");
   ("ObjVecIter", "ptr"); ("ObjRange", "ptr"); ("ObjRangeIter", "ptr"); ("ObjHashMap", "borrow");
   ("ObjModule", "ptr"); ("ObjFiber", "ptr"); ("None", "true"); ("_", "false")].

(* impl PartialEq for ObjTuple *)
Definition model_tuple_eq : string := "ptr-shortcut;elements==elements".

(* impl PartialEq for Gc<T> *)
Definition model_gc_eq : string := "as_ptr==as_ptr".

(* the ValueError raised by validate_hash_map_key (core.rs) and build_hash_map (vm.rs): prefix ++ display ++ suffix *)
Definition err_prefix : string := "Cannot use unhashable value '".
Definition err_suffix : string := "' as HashMap key.".
