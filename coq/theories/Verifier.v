(* Bytecode verifier = (untrusted) inference of an annotation + (proved) checker that the
   annotation is an inductive invariant of the skeleton semantics.  Definitions only. *)
From Coq Require Import List NArith Bool String FMapPositive.
From YV Require Import Show Bytecode Skeleton.
Import ListNotations.
Open Scope N_scope.

(* ---------- decidable equality on abstract states ---------- *)

Definition handler_eqb (a b : handler) : bool :=
  (catch_pc a =? catch_pc b) && (finally_pc a =? finally_pc b) && (hheight a =? hheight b).

Fixpoint list_eqb {A} (eqb : A -> A -> bool) (l1 l2 : list A) : bool :=
  match l1, l2 with
  | [], [] => true
  | x :: r1, y :: r2 => eqb x y && list_eqb eqb r1 r2
  | _, _ => false
  end.

Definition optN_eqb (a b : option N) : bool :=
  match a, b with
  | None, None => true
  | Some x, Some y => x =? y
  | _, _ => false
  end.

Definition xflag_eqb (a b : xflag) : bool :=
  match a, b with
  | XUnknown, XUnknown | XTrue, XTrue | XFalse, XFalse => true
  | _, _ => false
  end.

Definition fstate_eqb (a b : fstate) : bool :=
  (pc a =? pc b) && (h a =? h b) && list_eqb handler_eqb (handlers a) (handlers b)
  && list_eqb N.eqb (captured a) (captured b) && optN_eqb (pending a) (pending b)
  && xflag_eqb (exc a) (exc b).

(* ---------- O(log n) byte fetch ---------- *)

Definition key (n : N) : positive := N.succ_pos n.

Fixpoint build_code_map (c : list N) (i : N) (m : PositiveMap.t N) : PositiveMap.t N :=
  match c with
  | [] => m
  | b :: r => build_code_map r (N.succ i) (PositiveMap.add (key i) b m)
  end.

Definition code_map (f : fn) : PositiveMap.t N := build_code_map (code f) 0 (PositiveMap.empty N).

Definition map_get (m : PositiveMap.t N) (i : N) : option N :=
  match PositiveMap.find (key i) m with
  | Some b => if b <? 256 then Some b else None
  | None => None
  end.

(* ---------- annotations ---------- *)

Definition annot : Type := PositiveMap.t (list fstate).   (* key (pc) |-> states at pc *)

Definition states_at (a : annot) (n : N) : list fstate :=
  match PositiveMap.find (key n) a with Some l => l | None => [] end.

Definition in_annot (a : annot) (s : fstate) : bool :=
  existsb (fstate_eqb s) (states_at a (pc s)).

Definition add_state (a : annot) (s : fstate) : annot :=
  PositiveMap.add (key (pc s)) (s :: states_at a (pc s)) a.

Definition all_states (a : annot) : list fstate :=
  flat_map snd (PositiveMap.elements a).

(* ---------- (a) the checker ---------- *)

(* no annotated pc lies strictly inside the instruction at an annotated pc: every reached pc is
   an instruction boundary of the one decoding that starts at the entry *)
Fixpoint range_empty (a : annot) (n : nat) (q : N) : bool :=
  match n with
  | O => true
  | S n' => match states_at a q with
            | [] => range_empty a n' (q + 1)
            | _ :: _ => false
            end
  end.

Definition no_overlap_state (get : N -> option N) (p : program) (f : fn) (a : annot)
           (s : fstate) : bool :=
  match decode_at get p f (pc s) with
  | Some (_, nx) => range_empty a (N.to_nat (nx - pc s - 1)) (pc s + 1)
  | None => false
  end.

Definition check_state (get : N -> option N) (lenient : bool) (p : program) (f : fn)
           (a : annot) (s : fstate) : bool :=
  match succs_at get lenient p f s with
  | Some l => forallb (in_annot a) l && no_overlap_state get p f a s
  | None => false
  end.

Definition check_fn (lenient : bool) (p : program) (f : fn) (a : annot) : bool :=
  let get := map_get (code_map f) in
  in_annot a (entry_state f) && forallb (check_state get lenient p f a) (all_states a).

Fixpoint check_program_aux (lenient : bool) (p : program) (fs : list fn) (anns : list annot)
  : bool :=
  match fs, anns with
  | [], [] => true
  | f :: r, a :: ra => check_fn lenient p f a && check_program_aux lenient p r ra
  | _, _ => false
  end.

Definition check_program (lenient : bool) (p : program) (anns : list annot) : bool :=
  check_program_aux lenient p p anns.

(* ---------- (b) untrusted inference: worklist exploration ---------- *)

Inductive infer_result : Type := IOk (a : annot) | IStuck (at_pc : N) (r : reason).

Definition MAX_STATES_PER_PC : nat := 24.

Section Infer.
  Variable get : N -> option N.
  Variable lenient : bool.
  Variable p : program.
  Variable f : fn.

  Fixpoint explore (fuel : nat) (work : list fstate) (a : annot) : infer_result :=
    match work with
    | [] => IOk a
    | s :: w =>
      match fuel with
      | O => IStuck (pc s) RFuelExhausted
      | S fuel' =>
        if in_annot a s then explore fuel' w a
        else if Nat.leb MAX_STATES_PER_PC (List.length (states_at a (pc s)))
        then IStuck (pc s) RTooManyStates
        else
          match step_at get lenient p f s with
          | Stuck r => IStuck (pc s) r
          | Next l => explore fuel' (l ++ w) (add_state a s)
          end
      end
    end.
End Infer.

Definition infer_fn_result (lenient : bool) (p : program) (f : fn) (fuel : nat) : infer_result :=
  explore (map_get (code_map f)) lenient p f fuel [entry_state f] (PositiveMap.empty _).

Definition infer_fn (lenient : bool) (p : program) (f : fn) (fuel : nat) : option annot :=
  match infer_fn_result lenient p f fuel with IOk a => Some a | IStuck _ _ => None end.

Definition default_fuel (f : fn) : nat := N.to_nat (16 * code_len f + 64).

(* ---------- (c) reports ---------- *)

Definition same_shape (a b : fstate) : bool :=
  (h a =? h b) && list_eqb handler_eqb (handlers a) (handlers b).

Definition unique_list (l : list fstate) : bool :=
  match l with
  | [] => true
  | s :: r => forallb (same_shape s) r
  end.

Definition unique_height (a : annot) : bool :=
  forallb (fun kl => unique_list (snd kl)) (PositiveMap.elements a).

Definition optN_min (a : option N) (b : N) : option N :=
  match a with None => Some b | Some x => Some (N.min x b) end.

(* smallest pc carrying two different (height, handlers) shapes *)
Definition first_nonunique (a : annot) : option N :=
  fold_right (fun kl acc =>
                match snd kl with
                | s :: _ => if unique_list (snd kl) then acc else optN_min acc (pc s)
                | [] => acc
                end) None (PositiveMap.elements a).

Definition max_height (a : annot) : N :=
  fold_right (fun s m => N.max (h s) m) 0 (all_states a).

Definition count_states (a : annot) : nat := List.length (all_states a).

Inductive fn_verdict : Type := FOk (a : annot) | FReject (at_pc : N) (r : reason).

Definition verify_fn (lenient : bool) (p : program) (f : fn) : fn_verdict :=
  match infer_fn_result lenient p f (default_fuel f) with
  | IStuck q r => FReject q r
  | IOk a =>
    if check_fn lenient p f a then FOk a
    else
      match find (fun s => negb (no_overlap_state (map_get (code_map f)) p f a s))
                 (all_states a) with
      | Some s => FReject (pc s) ROverlap
      | None => FReject 0 RNotInductive
      end
  end.

Inductive verdict : Set :=
| VOk (fns : nat) (maxh : N)
| VNonUnique (fns : nat) (maxh : N) (fn_idx : nat) (at_pc : N)
| VReject (fn_idx : nat) (at_pc : N) (r : reason).

Fixpoint verify_fns (lenient : bool) (p : program) (fs : list fn) (idx : nat) (maxh : N)
         (nu : option (nat * N)) : verdict :=
  match fs with
  | [] =>
    match nu with
    | None => VOk idx maxh
    | Some (i, q) => VNonUnique idx maxh i q
    end
  | f :: r =>
    match verify_fn lenient p f with
    | FReject q rs => VReject idx q rs
    | FOk a =>
      verify_fns lenient p r (S idx) (N.max maxh (max_height a))
                 (match nu with
                  | Some _ => nu
                  | None => match first_nonunique a with
                            | Some q => Some (idx, q)
                            | None => None
                            end
                  end)
    end
  end.

Definition verify_program_with (lenient : bool) (p : program) : verdict :=
  verify_fns lenient p p 0%nat 0 None.

(* default: the strict semantics (PopExcHandler on an empty frame-local list is stuck) *)
Definition verify_program (p : program) : verdict := verify_program_with false p.

Definition verdict_accepts (v : verdict) : bool :=
  match v with VReject _ _ _ => false | _ => true end.

(* ---------- rendering ---------- *)
Open Scope string_scope.

Definition show_reason (r : reason) : string :=
  match r with
  | RUndecodable => "Undecodable"
  | RStackOverflow => "StackOverflow"
  | RStackUnderflow => "StackUnderflow"
  | RPopBelowLocals => "PopBelowLocals"
  | RPopCaptured => "PopCaptured"
  | RConstOutOfRange => "ConstOutOfRange"
  | RConstKind => "ConstKind"
  | RLocalOutOfRange => "LocalOutOfRange"
  | RUpvalueOutOfRange => "UpvalueOutOfRange"
  | RJumpOutOfRange => "JumpOutOfRange"
  | RNoHandler => "NoHandler"
  | RHandlerAboveStack => "HandlerAboveStack"
  | RJumpFinallyNoReturn => "JumpFinallyNoReturn"
  | RReturnWithHandlers => "ReturnWithHandlers"
  | RReturnPending => "ReturnPending"
  | RNotInductive => "NotInductive"
  | ROverlap => "Overlap"
  | RFuelExhausted => "FuelExhausted"
  | RTooManyStates => "TooManyStates"
  end.

Definition show_verdict (v : verdict) : string :=
  match v with
  | VOk n m => "OK fns=" ++ show_nat n ++ " maxh=" ++ show_N m ++ " unique=T"
  | VNonUnique _ _ i q => "NONUNIQUE fn=" ++ show_nat i ++ " pc=" ++ show_N q
  | VReject i q r =>
    "REJECT fn=" ++ show_nat i ++ " pc=" ++ show_N q ++ " reason=" ++ show_reason r
  end.

Definition verify_report_with (lenient : bool) (p : program) : string :=
  show_verdict (verify_program_with lenient p).

Definition verify_report (p : program) : string := verify_report_with false p.

(* one entry per function: "OK maxh=3" / "NONUNIQUE pc=17 maxh=4" / "REJECT pc=42 reason=.." *)
Definition show_fn_verdict (v : fn_verdict) : string :=
  match v with
  | FReject q r => "REJECT pc=" ++ show_N q ++ " reason=" ++ show_reason r
  | FOk a =>
    match first_nonunique a with
    | None => "OK maxh=" ++ show_N (max_height a)
    | Some q => "NONUNIQUE pc=" ++ show_N q ++ " maxh=" ++ show_N (max_height a)
    end
  end.

Definition fn_reports (lenient : bool) (p : program) : string :=
  show_list (fun f => show_fn_verdict (verify_fn lenient p f)) p.

(* "fns=5 ok=3 nonunique=1 reject=1" *)
Definition count_verdicts (lenient : bool) (p : program) : nat * nat * nat :=
  fold_right (fun f acc =>
                let '(o, n, r) := acc in
                match verify_fn lenient p f with
                | FReject _ _ => (o, n, S r)
                | FOk a => if unique_height a then (S o, n, r) else (o, S n, r)
                end) (0, 0, 0)%nat p.

Definition verify_summary (lenient : bool) (p : program) : string :=
  let '(o, n, r) := count_verdicts lenient p in
  "fns=" ++ show_nat (List.length p) ++ " ok=" ++ show_nat o ++ " nonunique=" ++ show_nat n
  ++ " reject=" ++ show_nat r.

(* Per-frame heights are relative to slot_base; with at most FRAMES_MAX frames per fiber a
   per-function bound of STACK_MAX / FRAMES_MAX = 256 excludes overflow of the shared array. *)
Definition stack_safe (maxh : N) : bool := (maxh * FRAMES_MAX <=? STACK_MAX)%N.
