(* Hand-assembled programs run through the verifier by vm_compute, and concrete instances
   showing that the hypotheses of the soundness theorems are satisfiable. *)
From Coq Require Import List NArith Bool String FMapPositive Lia.
From YV Require Import Show Bytecode Skeleton Verifier VerifierProofs.
Import ListNotations.
Open Scope N_scope.

(* 1. `var a = 1; print(a + 2);`  -- the bytes the real compiler emits:
      Constant 1; DefineGlobal 0; GetGlobal 2; GetGlobal 0; Constant 3; Add; Call 1; Pop;
      Nil; Return *)
Definition f_ok : fn :=
  mkFn [0;1;0; 9;0;0; 8;2;0; 8;0;0; 0;3;0; 20; 51;1; 4; 1; 57] [CStr; CNum; CStr; CNum] 1 0.
Definition p_ok : program := [f_ok].

Example ex_ok : verify_report p_ok = "OK fns=1 maxh=4 unique=T"%string.
Proof. vm_compute. reflexivity. Qed.

(* 2. Nil; Jump +100; Return  -- jump target outside the code *)
Definition p_jump : program := [mkFn [1; 42;100;0; 57] [] 1 0].
Example ex_jump : verify_report p_jump = "REJECT fn=0 pc=1 reason=JumpOutOfRange"%string.
Proof. vm_compute. reflexivity. Qed.

(* 3. GetLocal 3; Return  -- local slot past the height (h = arity = 1) *)
Definition p_local : program := [mkFn [6;3; 57] [] 1 0].
Example ex_local : verify_report p_local = "REJECT fn=0 pc=0 reason=LocalOutOfRange"%string.
Proof. vm_compute. reflexivity. Qed.

(* 4. try { print(1); } finally { print(1); }   (no catch clause: catch_pc = finally_pc)
       0: PushExcHandler t=13 c=0
       5: GetGlobal 0; 8: Constant 1; 11: Call 1; 13: Pop
      14: PopExcHandler; 15: Jump +0
      18: GetGlobal 0; 21: Constant 1; 24: Call 1; 26: Pop; 27: EndFinally
      28: Nil; 29: Return
   The finally block at pc 18 is entered at height 1 normally and 2 by exception. *)
Definition f_fin : fn :=
  mkFn [48;13;0;0;0; 8;0;0; 0;1;0; 51;1; 4; 49; 42;0;0;
        8;0;0; 0;1;0; 51;1; 4; 47; 1; 57] [CStr; CNum] 1 0.
Definition p_fin : program := [f_fin].
Example ex_fin : verify_report p_fin = "NONUNIQUE fn=0 pc=18"%string.
Proof. vm_compute. reflexivity. Qed.

(* 5. try { print(1); } catch e { }  -- the compiler's spurious PopExcHandler at catch_pc
       0: PushExcHandler t=13 c=2
       5: GetGlobal 0; 8: Constant 1; 11: Call 1; 13: Pop
      14: PopExcHandler; 15: Jump +2
      18: PopExcHandler (!)  -- unwind_stack has already popped the handler
      19: Pop (e)
      20: Nil; 21: Return *)
Definition f_catch2 : fn :=
  mkFn [48;13;0;2;0; 8;0;0; 0;1;0; 51;1; 4; 49; 42;2;0;
        49; 4; 1; 57] [CStr; CNum] 1 0.
Example ex_catch2_strict :
  verify_report [f_catch2] = "REJECT fn=0 pc=18 reason=NoHandler"%string.
Proof. vm_compute. reflexivity. Qed.
Example ex_catch2_lenient :
  verify_report_with true [f_catch2] = "OK fns=1 maxh=3 unique=T"%string.
Proof. vm_compute. reflexivity. Qed.

(* 6. two functions; the inner one is a recursive LOCAL function capturing its own slot:
      fn outer() { fn rec(n) { return rec(n); } return rec(3); }
      outer:  Closure c0 [(local,1)]; GetLocal 1; Constant c1; Call 1; Return
      rec  :  GetUpvalue 0; GetLocal 1; Call 1; Return
   The descriptor (is_local=1, index=1) names slot 1 = the height BEFORE the closure is
   pushed (Appendix A's "s < h" is off by one; the VM pushes the closure first). *)
Definition f_outer : fn := mkFn [55;0;0;1;1; 6;1; 0;1;0; 51;1; 57] [CFunc 1; CNum] 1 0.
Definition f_rec : fn := mkFn [11;0; 6;1; 51;1; 57] [] 2 1.
Definition p_rec : program := [f_outer; f_rec].
Example ex_rec : verify_report p_rec = "OK fns=2 maxh=4 unique=T"%string.
Proof. vm_compute. reflexivity. Qed.
Example ex_rec_fns : fn_reports false p_rec = "[OK maxh=4,OK maxh=4]"%string.
Proof. vm_compute. reflexivity. Qed.

(* 7. assorted stuck reasons *)
Example ex_const_kind :   (* GetGlobal naming a number constant: read_string's expect *)
  verify_report [mkFn [8;0;0; 57] [CNum] 1 0] = "REJECT fn=0 pc=0 reason=ConstKind"%string.
Proof. vm_compute. reflexivity. Qed.
Example ex_const_range :
  verify_report [mkFn [0;7;0; 57] [CNum] 1 0] = "REJECT fn=0 pc=0 reason=ConstOutOfRange"%string.
Proof. vm_compute. reflexivity. Qed.
Example ex_underflow :    (* BuildVec 3 with one slot *)
  verify_report [mkFn [40;3; 57] [] 1 0] = "REJECT fn=0 pc=0 reason=StackUnderflow"%string.
Proof. vm_compute. reflexivity. Qed.
Example ex_truncated :    (* Constant with a missing operand byte *)
  verify_report [mkFn [1; 0;0] [CNum] 1 0] = "REJECT fn=0 pc=1 reason=Undecodable"%string.
Proof. vm_compute. reflexivity. Qed.
Example ex_falls_off :    (* no Return: the fetch would leave the code *)
  verify_report [mkFn [1; 4] [] 1 0] = "REJECT fn=0 pc=2 reason=Undecodable"%string.
Proof. vm_compute. reflexivity. Qed.
Example ex_upvalue :
  verify_report [mkFn [11;0; 57] [] 1 0] = "REJECT fn=0 pc=0 reason=UpvalueOutOfRange"%string.
Proof. vm_compute. reflexivity. Qed.
Example ex_pop_param :    (* popping slot 0 *)
  verify_report [mkFn [4; 1; 57] [] 1 0] = "REJECT fn=0 pc=0 reason=PopBelowLocals"%string.
Proof. vm_compute. reflexivity. Qed.
Example ex_overlap :      (* JumpIfFalse into the operand of GetLocal 1 (which decodes as Nil): boundary check *)
  verify_report [mkFn [43;1;0; 6;1; 57] [] 2 0]
  = "REJECT fn=0 pc=3 reason=Overlap"%string.
Proof. vm_compute. reflexivity. Qed.
Example ex_arg_sizes :    (* the table the VM does not use *)
  (arg_sizes_claim OpPopExcHandler, layout_of OpPopExcHandler) = ([2; 2], L0).
Proof. reflexivity. Qed.

(* ---------- the hypotheses of the theorems are satisfiable ---------- *)

Definition annot_of (lenient : bool) (p : program) (f : fn) : annot :=
  match infer_fn lenient p f (default_fuel f) with
  | Some a => a
  | None => PositiveMap.empty _
  end.

Example ex_check_ok : check_fn false p_ok f_ok (annot_of false p_ok f_ok) = true.
Proof. vm_compute. reflexivity. Qed.

(* check_sound instantiated: no reachable state of f_ok is stuck *)
Example ex_check_sound_inst :
  forall s, reachable false p_ok f_ok s -> succs false p_ok f_ok s <> None.
Proof. intros s Hr. exact (proj1 (check_sound _ _ _ _ ex_check_ok s Hr)). Qed.

(* a non-trivial reachable state: after Constant; DefineGlobal; GetGlobal; GetGlobal *)
Example ex_reachable : reachable false p_ok f_ok (mkS 12 3 [] [] None XUnknown).
Proof.
  eapply reach_step with (s := mkS 9 2 [] [] None XUnknown);
    [ eapply reach_step with (s := mkS 6 1 [] [] None XUnknown);
      [ eapply reach_step with (s := mkS 3 2 [] [] None XUnknown);
        [ eapply reach_step with (s := entry_state f_ok);
          [ apply reach_entry | vm_compute; reflexivity | left; reflexivity ]
        | vm_compute; reflexivity | left; reflexivity ]
      | vm_compute; reflexivity | left; reflexivity ]
    | vm_compute; reflexivity | left; reflexivity ].
Qed.

(* unique_height_sound / height_bounded / decode_in_bounds: hypotheses hold for f_ok *)
Example ex_unique_ok : unique_height (annot_of false p_ok f_ok) = true.
Proof. vm_compute. reflexivity. Qed.
Example ex_height_inst : forall s, reachable false p_ok f_ok s -> h s <= 4.
Proof.
  intros s Hr. pose proof (height_bounded _ _ _ _ ex_check_ok s Hr) as [H _].
  vm_compute in H. exact H.
Qed.
Example ex_decode_inst : forall s, reachable false p_ok f_ok s ->
  exists i nx, decode p_ok f_ok (pc s) = Some (i, nx) /\ pc s < nx /\ nx <= 21.
Proof. intros s Hr. exact (decode_in_bounds _ _ _ _ ex_check_ok s Hr). Qed.

(* unique_height is not vacuous: it fails on the try/finally example, whose annotation is
   nevertheless an inductive invariant *)
Example ex_fin_checked : check_fn false p_fin f_fin (annot_of false p_fin f_fin) = true
                         /\ unique_height (annot_of false p_fin f_fin) = false.
Proof. vm_compute. split; reflexivity. Qed.

(* verify_sound / verified_program_safe: premises hold for the two-function program *)
Example ex_verify_rec : verify_program p_rec = VOk 2 4 /\ stack_safe 4 = true.
Proof. vm_compute. split; reflexivity. Qed.

Example ex_rec_safe : forall ms, mreachable false p_rec ms ->
  Forall (fun fr => frame_ok false p_rec fr /\ ~ frame_stuck false p_rec fr) ms.
Proof.
  intros ms Hr.
  exact (proj1 (verified_program_safe p_rec 2 4 (proj1 ex_verify_rec) (proj2 ex_verify_rec) ms Hr)).
Qed.

(* a reachable two-frame state: outer has executed Closure, GetLocal, Constant and calls rec *)
Example ex_mreachable :
  mreachable false p_rec
    [mkFr 1 2 (entry_state f_rec); mkFr 0 0 (mkS 10 4 [] [1] None XUnknown)].
Proof.
  eapply mr_step.
  - eapply mr_step with (ms := [mkFr 0 0 (mkS 7 3 [] [1] None XUnknown)]).
    + eapply mr_step with (ms := [mkFr 0 0 (mkS 5 2 [] [1] None XUnknown)]).
      * eapply mr_step; [apply (mr_init false p_rec f_outer); reflexivity|].
        eapply ms_local; [reflexivity | vm_compute; reflexivity | left; reflexivity].
      * eapply ms_local; [reflexivity | vm_compute; reflexivity | left; reflexivity].
    + eapply ms_local; [reflexivity | vm_compute; reflexivity | left; reflexivity].
  - change 2 with (0 + h (mkS 12 3 [] [1] None XUnknown) - 1).
    eapply ms_call with (f := f_outer) (g := f_rec) (n := 1);
      try reflexivity. vm_compute. lia.
Qed.

(* timing probe: a long straight-line function (2000 x [Nil; Pop]) *)
Fixpoint rep (n : nat) (l : list N) : list N :=
  match n with O => [1; 57] | S n' => l ++ rep n' l end.
Example ex_long : verify_report [mkFn (rep 2000 [1; 4]) [] 1 0] = "OK fns=1 maxh=2 unique=T"%string.
Proof. vm_compute. reflexivity. Qed.
