(* Soundness of the bytecode checker (translation validation): an accepted annotation is an
   inductive invariant of the skeleton semantics, hence verified code never gets stuck, for
   all bytecode and unbounded executions.  The inference is untrusted. *)
From Coq Require Import List NArith Bool Lia String FMapPositive.
From YV Require Import Show Bytecode Skeleton Verifier.
Import ListNotations.
Open Scope N_scope.

(* ------------------------------------------------------------------ *)
(** * Reachability in the skeleton semantics *)

Inductive reachable (b : bool) (p : program) (f : fn) : fstate -> Prop :=
| reach_entry : reachable b p f (entry_state f)
| reach_step : forall s l s',
    reachable b p f s -> succs b p f s = Some l -> In s' l -> reachable b p f s'.

Definition In_annot (a : annot) (s : fstate) : Prop := in_annot a s = true.

(* ------------------------------------------------------------------ *)
(** * Boolean equalities reflect Leibniz equality *)

Lemma list_eqb_eq : forall {A} (eqb : A -> A -> bool),
    (forall x y, eqb x y = true -> x = y) ->
    forall l1 l2, list_eqb eqb l1 l2 = true -> l1 = l2.
Proof.
  intros A eqb Heq l1; induction l1 as [|x r1 IH]; intros [|y r2] H; cbn in H;
    try reflexivity; try discriminate.
  apply andb_true_iff in H as [Hxy Hr].
  f_equal; [apply Heq; exact Hxy | apply IH; exact Hr].
Qed.

Lemma handler_eqb_eq : forall a b, handler_eqb a b = true -> a = b.
Proof.
  intros [c1 f1 h1] [c2 f2 h2] H; unfold handler_eqb in H; cbn in H.
  apply andb_true_iff in H as [H H3]. apply andb_true_iff in H as [H1 H2].
  apply N.eqb_eq in H1, H2, H3. subst; reflexivity.
Qed.

Lemma optN_eqb_eq : forall a b, optN_eqb a b = true -> a = b.
Proof.
  intros [x|] [y|] H; cbn in H; try discriminate; try reflexivity.
  apply N.eqb_eq in H; subst; reflexivity.
Qed.

Lemma xflag_eqb_eq : forall a b, xflag_eqb a b = true -> a = b.
Proof. intros [] [] H; cbn in H; try discriminate; reflexivity. Qed.

Lemma fstate_eqb_eq : forall a b, fstate_eqb a b = true -> a = b.
Proof.
  intros [p1 h1 hs1 c1 pd1 e1] [p2 h2 hs2 c2 pd2 e2] H; unfold fstate_eqb in H; cbn in H.
  repeat (apply andb_true_iff in H as [H ?]).
  apply N.eqb_eq in H.
  match goal with X : (h1 =? h2) = true |- _ => apply N.eqb_eq in X end.
  match goal with X : list_eqb handler_eqb _ _ = true |- _ =>
                  apply (list_eqb_eq _ handler_eqb_eq) in X end.
  match goal with X : list_eqb N.eqb _ _ = true |- _ =>
                  apply (list_eqb_eq N.eqb (fun x y => proj1 (N.eqb_eq x y))) in X end.
  match goal with X : optN_eqb _ _ = true |- _ => apply optN_eqb_eq in X end.
  match goal with X : xflag_eqb _ _ = true |- _ => apply xflag_eqb_eq in X end.
  subst; reflexivity.
Qed.

(* ------------------------------------------------------------------ *)
(** * The positive-map byte fetch agrees with the list fetch *)

Lemma key_inj : forall i j, key i = key j -> i = j.
Proof.
  intros i j H. unfold key in H.
  assert (E : N.pos (N.succ_pos i) = N.pos (N.succ_pos j)) by (rewrite H; reflexivity).
  rewrite !N.succ_pos_spec in E. lia.
Qed.

Lemma build_code_map_find : forall c i m j,
    PositiveMap.find (key j) (build_code_map c i m) =
    if j <? i then PositiveMap.find (key j) m
    else match nth_error c (N.to_nat (j - i)) with
         | Some b => Some b
         | None => PositiveMap.find (key j) m
         end.
Proof.
  induction c as [|b r IH]; intros i m j; cbn [build_code_map].
  - destruct (j <? i); [reflexivity|]. destruct (N.to_nat (j - i)); reflexivity.
  - rewrite IH.
    destruct (j <? N.succ i) eqn:E1; destruct (j <? i) eqn:E2;
      try apply N.ltb_lt in E1; try apply N.ltb_ge in E1;
      try apply N.ltb_lt in E2; try apply N.ltb_ge in E2.
    + rewrite PositiveMap.gso; [reflexivity|]. intro K; apply key_inj in K; lia.
    + assert (j = i) by lia; subst j.
      rewrite PositiveMap.gss. replace (N.to_nat (i - i)) with 0%nat by lia. reflexivity.
    + lia.
    + replace (N.to_nat (j - i)) with (S (N.to_nat (j - N.succ i))) by lia.
      cbn [nth_error].
      destruct (nth_error r (N.to_nat (j - N.succ i))); [reflexivity|].
      rewrite PositiveMap.gso; [reflexivity|]. intro K; apply key_inj in K; lia.
Qed.

Lemma map_get_code_map : forall f i, map_get (code_map f) i = byte_at (code f) i.
Proof.
  intros f i. unfold map_get, code_map, byte_at.
  rewrite build_code_map_find.
  assert (E : (i <? 0) = false) by (apply N.ltb_ge; lia). rewrite E.
  rewrite N.sub_0_r.
  destruct (nth_error (code f) (N.to_nat i)); [reflexivity|].
  rewrite PositiveMap.gempty. reflexivity.
Qed.

(* ------------------------------------------------------------------ *)
(** * The step function only depends on the byte fetch extensionally *)

Section Ext.
  Variables g1 g2 : N -> option N.
  Hypothesis Hg : forall i, g1 i = g2 i.

  Lemma get16_ext : forall q, get16 g1 q = get16 g2 q.
  Proof. intros q; unfold get16; rewrite !Hg; reflexivity. Qed.

  Lemma read_uvs_ext : forall k q, read_uvs g1 k q = read_uvs g2 k q.
  Proof.
    induction k as [|k IH]; intros q; cbn [read_uvs]; [reflexivity|].
    rewrite !Hg, IH. reflexivity.
  Qed.

  Lemma decode_at_ext : forall p f q, decode_at g1 p f q = decode_at g2 p f q.
  Proof.
    intros p f q. unfold decode_at. rewrite Hg.
    destruct (g2 q) as [b|]; [|reflexivity].
    destruct (opcode_of_N b) as [o|]; [|reflexivity].
    destruct (layout_of o); rewrite ?get16_ext, ?Hg; try reflexivity.
    destruct (get16 g2 (q + 1)) as [c|]; [|reflexivity].
    destruct (closure_arity p f c) as [k|]; [|reflexivity].
    rewrite read_uvs_ext. reflexivity.
  Qed.

  Lemma step_at_ext : forall b p f s, step_at g1 b p f s = step_at g2 b p f s.
  Proof.
    intros b p f s. unfold step_at. rewrite decode_at_ext.
    destruct (STACK_MAX <? h s); [reflexivity|].
    destruct (decode_at g2 p f (pc s)) as [[i nx]|]; [|reflexivity].
    destruct (simple_effect f i (h s)); [reflexivity|].
    unfold in_code.
    destruct (iop i); try reflexivity; rewrite ?Hg; try reflexivity.
    destruct (handlers s) as [|hd tl]; rewrite ?Hg; reflexivity.
  Qed.

  Lemma succs_at_ext : forall b p f s, succs_at g1 b p f s = succs_at g2 b p f s.
  Proof. intros; unfold succs_at; rewrite step_at_ext; reflexivity. Qed.
End Ext.

Lemma succs_at_code_map : forall b p f s,
    succs_at (map_get (code_map f)) b p f s = succs b p f s.
Proof. intros; unfold succs; apply succs_at_ext; intro i; apply map_get_code_map. Qed.

(* ------------------------------------------------------------------ *)
(** * Annotation membership *)

Lemma in_annot_states_at : forall a s, In_annot a s -> In s (states_at a (pc s)).
Proof.
  intros a s H. unfold In_annot, in_annot in H.
  apply existsb_exists in H as [x [Hin Heq]].
  apply fstate_eqb_eq in Heq; subst x; exact Hin.
Qed.

Lemma states_at_elements : forall a q s,
    In s (states_at a q) -> exists l, In (key q, l) (PositiveMap.elements a) /\ In s l.
Proof.
  intros a q s H. unfold states_at in H.
  destruct (PositiveMap.find (key q) a) as [l|] eqn:E; [|contradiction].
  exists l; split; [apply PositiveMap.elements_correct; exact E | exact H].
Qed.

Lemma in_annot_all_states : forall a s, In_annot a s -> In s (all_states a).
Proof.
  intros a s H. apply in_annot_states_at in H.
  apply states_at_elements in H as [l [Hel Hin]].
  unfold all_states. apply in_flat_map. exists (key (pc s), l); split; assumption.
Qed.

(* ------------------------------------------------------------------ *)
(** * 1. check_sound (verifier_sound) *)

Theorem check_sound : forall b p f a,
    check_fn b p f a = true ->
    forall s, reachable b p f s -> succs b p f s <> None /\ In_annot a s.
Proof.
  intros b p f a Hc. unfold check_fn in Hc.
  apply andb_true_iff in Hc as [Hentry Hall].
  rewrite forallb_forall in Hall.
  assert (Hstep : forall s, In_annot a s ->
                            exists l, succs b p f s = Some l /\ forall s', In s' l -> In_annot a s').
  { intros s Hs. apply in_annot_all_states in Hs. specialize (Hall s Hs).
    unfold check_state in Hall. rewrite succs_at_code_map in Hall.
    destruct (succs b p f s) as [l|]; [|discriminate].
    apply andb_true_iff in Hall as [Hall _].
    exists l; split; [reflexivity|]. rewrite forallb_forall in Hall. exact Hall. }
  assert (Hinv : forall s, reachable b p f s -> In_annot a s).
  { intros s Hr; induction Hr as [|s l s' Hr IH Hs Hin]; [exact Hentry|].
    destruct (Hstep s IH) as [l' [E Hl']]. rewrite Hs in E; injection E as <-.
    apply Hl'; exact Hin. }
  intros s Hr; split; [|apply Hinv; exact Hr].
  destruct (Hstep s (Hinv s Hr)) as [l [E _]]. rewrite E; discriminate.
Qed.
Print Assumptions check_sound.

(* ------------------------------------------------------------------ *)
(** * 2. verify_sound: only the checker matters *)

Definition fn_safe (b : bool) (p : program) (f : fn) : Prop :=
  exists a, forall s, reachable b p f s -> succs b p f s <> None /\ In_annot a s.

Lemma verify_fn_ok : forall b p f a, verify_fn b p f = FOk a -> check_fn b p f a = true.
Proof.
  intros b p f a H. unfold verify_fn in H.
  destruct (infer_fn_result b p f (default_fuel f)) as [a'|q r]; [|discriminate].
  destruct (check_fn b p f a') eqn:E.
  - injection H as <-; exact E.
  - destruct (find _ _); discriminate.
Qed.

Lemma verify_fns_checked : forall b p fs idx maxh nu,
    verdict_accepts (verify_fns b p fs idx maxh nu) = true ->
    Forall (fun f => exists a, check_fn b p f a = true) fs.
Proof.
  intros b p fs; induction fs as [|f r IH]; intros idx maxh nu H; [constructor|].
  cbn [verify_fns] in H.
  destruct (verify_fn b p f) as [a|q rs] eqn:E; [|discriminate].
  constructor; [exists a; apply verify_fn_ok; exact E | eapply IH; exact H].
Qed.

Theorem verify_sound_with : forall b p,
    verdict_accepts (verify_program_with b p) = true ->
    forall f, In f p -> fn_safe b p f.
Proof.
  intros b p H f Hin. unfold verify_program_with in H.
  apply verify_fns_checked in H. rewrite Forall_forall in H.
  destruct (H f Hin) as [a Ha]. exists a. apply check_sound; exact Ha.
Qed.

(* the form asked for: strict semantics, verdict OK *)
Theorem verify_sound : forall p n m,
    verify_program p = VOk n m ->
    forall f, In f p ->
    forall s, reachable false p f s -> succs false p f s <> None.
Proof.
  intros p n m H f Hin s Hr.
  assert (A : verdict_accepts (verify_program_with false p) = true).
  { unfold verify_program in H. rewrite H. reflexivity. }
  destruct (verify_sound_with false p A f Hin) as [a Ha]. apply Ha; exact Hr.
Qed.
Print Assumptions verify_sound.

Lemma check_program_aux_sound : forall b p fs anns,
    check_program_aux b p fs anns = true -> forall f, In f fs -> fn_safe b p f.
Proof.
  intros b p fs; induction fs as [|g r IH]; intros [|a ra] H f Hin; cbn in H;
    try discriminate; try contradiction.
  apply andb_true_iff in H as [H1 H2]. destruct Hin as [<-|Hin].
  - exists a. apply check_sound; exact H1.
  - eapply IH; eassumption.
Qed.

Theorem check_program_sound : forall b p anns,
    check_program b p anns = true -> forall f, In f p -> fn_safe b p f.
Proof. intros b p anns H; exact (check_program_aux_sound b p p anns H). Qed.

(* ------------------------------------------------------------------ *)
(** * 3. unique_height_sound *)

Lemma same_shape_eq : forall x y,
    same_shape x y = true -> h x = h y /\ handlers x = handlers y.
Proof.
  intros x y H. unfold same_shape in H. apply andb_true_iff in H as [H1 H2].
  apply N.eqb_eq in H1. apply (list_eqb_eq _ handler_eqb_eq) in H2. split; assumption.
Qed.

Lemma unique_list_sound : forall l s1 s2,
    unique_list l = true -> In s1 l -> In s2 l ->
    h s1 = h s2 /\ handlers s1 = handlers s2.
Proof.
  intros [|s0 r] s1 s2 H H1 H2; [contradiction|].
  cbn [unique_list] in H. rewrite forallb_forall in H.
  assert (K : forall x, In x (s0 :: r) -> h s0 = h x /\ handlers s0 = handlers x).
  { intros x [<-|Hx]; [split; reflexivity | apply same_shape_eq, H, Hx]. }
  destruct (K s1 H1) as [A1 B1], (K s2 H2) as [A2 B2].
  split; congruence.
Qed.

Lemma unique_height_annot : forall a s1 s2,
    unique_height a = true -> In_annot a s1 -> In_annot a s2 -> pc s1 = pc s2 ->
    h s1 = h s2 /\ handlers s1 = handlers s2.
Proof.
  intros a s1 s2 Hu H1 H2 Hpc.
  apply in_annot_states_at in H1, H2. rewrite <- Hpc in H2.
  unfold states_at in H1, H2.
  destruct (PositiveMap.find (key (pc s1)) a) as [l|] eqn:E; [|contradiction].
  apply PositiveMap.elements_correct in E.
  unfold unique_height in Hu. rewrite forallb_forall in Hu.
  specialize (Hu _ E). cbn [snd] in Hu.
  eapply unique_list_sound; eassumption.
Qed.

Theorem unique_height_sound : forall b p f a,
    check_fn b p f a = true -> unique_height a = true ->
    forall s1 s2, reachable b p f s1 -> reachable b p f s2 -> pc s1 = pc s2 ->
    h s1 = h s2 /\ handlers s1 = handlers s2.
Proof.
  intros b p f a Hc Hu s1 s2 R1 R2 Hpc.
  eapply unique_height_annot; try eassumption;
    [apply (check_sound b p f a Hc s1 R1) | apply (check_sound b p f a Hc s2 R2)].
Qed.
Print Assumptions unique_height_sound.

(* ------------------------------------------------------------------ *)
(** * 4. height_bounded *)

Lemma max_height_ge : forall l s,
    In s l -> h s <= fold_right (fun s m => N.max (h s) m) 0 l.
Proof.
  induction l as [|x r IH]; intros s Hin; [contradiction|].
  cbn [fold_right]. destruct Hin as [<-|Hin]; [lia|].
  specialize (IH s Hin). lia.
Qed.

Theorem height_bounded : forall b p f a,
    check_fn b p f a = true ->
    forall s, reachable b p f s -> h s <= max_height a /\ h s <= STACK_MAX.
Proof.
  intros b p f a Hc s Hr.
  destruct (check_sound b p f a Hc s Hr) as [Hns Hin]. split.
  - unfold max_height. apply max_height_ge. apply in_annot_all_states; exact Hin.
  - unfold succs, succs_at, step_at in Hns.
    destruct (STACK_MAX <? h s) eqn:E; [exfalso; apply Hns; reflexivity|].
    apply N.ltb_ge in E; exact E.
Qed.
Print Assumptions height_bounded.

(* ------------------------------------------------------------------ *)
(** * 5. decode_in_bounds: the fetch never leaves the function's code *)

Lemma byte_at_lt : forall c i b, byte_at c i = Some b -> i < N.of_nat (List.length c).
Proof.
  intros c i b H. unfold byte_at in H.
  destruct (nth_error c (N.to_nat i)) as [x|] eqn:E; [|discriminate].
  assert (K : (N.to_nat i < List.length c)%nat) by (apply nth_error_Some; rewrite E; discriminate).
  lia.
Qed.

Lemma get16_lt : forall c q v,
    get16 (byte_at c) q = Some v -> q + 1 < N.of_nat (List.length c).
Proof.
  intros c q v H. unfold get16 in H.
  destruct (byte_at c q); [|discriminate].
  destruct (byte_at c (q + 1)) eqn:E; [|discriminate].
  apply byte_at_lt in E; exact E.
Qed.

Lemma read_uvs_bound : forall c k q r,
    read_uvs (byte_at c) k q = Some r -> q <= N.of_nat (List.length c) ->
    q + 2 * N.of_nat k <= N.of_nat (List.length c).
Proof.
  induction k as [|k IH]; intros q r H Hq; [lia|].
  cbn [read_uvs] in H.
  destruct (byte_at c q); [|discriminate].
  destruct (byte_at c (q + 1)) eqn:E; [|discriminate].
  destruct (read_uvs (byte_at c) k (q + 2)) as [r'|] eqn:E2; [|discriminate].
  apply byte_at_lt in E. apply IH in E2; lia.
Qed.

Lemma decode_bounds : forall p f q i nx,
    decode p f q = Some (i, nx) -> q < nx /\ nx <= code_len f.
Proof.
  intros p f q i nx H. unfold decode, decode_at, code_len in *.
  destruct (byte_at (code f) q) as [b|] eqn:E0; [|discriminate].
  apply byte_at_lt in E0.
  destruct (opcode_of_N b) as [o|]; [|discriminate].
  destruct (layout_of o).
  - injection H as _ <-. lia.
  - destruct (byte_at (code f) (q + 1)) eqn:E1; [|discriminate].
    apply byte_at_lt in E1. injection H as _ <-. lia.
  - destruct (get16 (byte_at (code f)) (q + 1)) eqn:E1; [|discriminate].
    apply get16_lt in E1. injection H as _ <-. lia.
  - destruct (get16 (byte_at (code f)) (q + 1)) eqn:E1; [|discriminate].
    destruct (get16 (byte_at (code f)) (q + 3)) eqn:E2; [|discriminate].
    apply get16_lt in E2. injection H as _ <-. lia.
  - destruct (get16 (byte_at (code f)) (q + 1)) eqn:E1; [|discriminate].
    destruct (byte_at (code f) (q + 3)) eqn:E2; [|discriminate].
    apply byte_at_lt in E2. injection H as _ <-. lia.
  - destruct (get16 (byte_at (code f)) (q + 1)) as [c|] eqn:E1; [|discriminate].
    destruct (closure_arity p f c) as [k|]; [|discriminate].
    destruct (read_uvs (byte_at (code f)) (N.to_nat k) (q + 3)) as [uvs|] eqn:E2; [|discriminate].
    apply get16_lt in E1. apply read_uvs_bound in E2; [|lia].
    injection H as _ <-. rewrite N2Nat.id in E2.
    change (q < q + 3 + 2 * k <= N.of_nat (List.length (code f))). lia.
Qed.

Lemma succs_decodes : forall b p f s,
    succs b p f s <> None -> exists i nx, decode p f (pc s) = Some (i, nx).
Proof.
  intros b p f s H. unfold succs, succs_at, step_at in H. fold (decode p f (pc s)) in H.
  destruct (STACK_MAX <? h s); [exfalso; apply H; reflexivity|].
  destruct (decode p f (pc s)) as [[i nx]|]; [|exfalso; apply H; reflexivity].
  exists i, nx; reflexivity.
Qed.

Theorem decode_in_bounds : forall b p f a,
    check_fn b p f a = true ->
    forall s, reachable b p f s ->
    exists i nx, decode p f (pc s) = Some (i, nx) /\ pc s < nx /\ nx <= code_len f.
Proof.
  intros b p f a Hc s Hr.
  destruct (check_sound b p f a Hc s Hr) as [Hns _].
  destruct (succs_decodes b p f s Hns) as [i [nx E]].
  exists i, nx; split; [exact E | eapply decode_bounds; exact E].
Qed.
Print Assumptions decode_in_bounds.

(* 5b. no reachable pc lies strictly inside a reachable instruction: all reached pcs are
   boundaries of one and the same decoding *)
Lemma range_empty_spec : forall a n q,
    range_empty a n q = true -> forall j, q <= j < q + N.of_nat n -> states_at a j = [].
Proof.
  induction n as [|n IH]; intros q H j Hj; [lia|].
  cbn [range_empty] in H. destruct (states_at a q) eqn:E; [|discriminate].
  destruct (N.eq_dec j q) as [->|Hne]; [exact E|].
  apply (IH (q + 1) H). lia.
Qed.

Theorem no_overlap_sound : forall b p f a,
    check_fn b p f a = true ->
    forall s1 s2 i nx, reachable b p f s1 -> reachable b p f s2 ->
    decode p f (pc s1) = Some (i, nx) -> ~ (pc s1 < pc s2 < nx).
Proof.
  intros b p f a Hc s1 s2 i nx R1 R2 Hd Hlt.
  destruct (check_sound b p f a Hc s1 R1) as [_ A1].
  destruct (check_sound b p f a Hc s2 R2) as [_ A2].
  unfold check_fn in Hc. apply andb_true_iff in Hc as [_ Hall].
  rewrite forallb_forall in Hall.
  specialize (Hall s1 (in_annot_all_states a s1 A1)). unfold check_state in Hall.
  destruct (succs_at (map_get (code_map f)) b p f s1); [|discriminate].
  apply andb_true_iff in Hall as [_ Hno]. unfold no_overlap_state in Hno.
  rewrite (decode_at_ext _ _ (map_get_code_map f)) in Hno.
  fold (decode p f (pc s1)) in Hno. rewrite Hd in Hno.
  pose proof (range_empty_spec _ _ _ Hno (pc s2)) as K.
  apply in_annot_states_at in A2. rewrite K in A2; [contradiction | lia].
Qed.
Print Assumptions no_overlap_sound.

(* every byte of a decoded instruction is a byte of the code *)
Corollary decode_bytes_in_code : forall p f q i nx,
    decode p f q = Some (i, nx) -> forall j, q <= j < nx -> j < code_len f.
Proof. intros p f q i nx H j Hj. apply decode_bounds in H. lia. Qed.

(* ------------------------------------------------------------------ *)
(** * 6. Stretch: a multi-frame machine and [program_sound]

   Frames are stacked; a call-like instruction of the top frame may enter ANY function of the
   program whose arity is argc+1 (values are forgotten), at its entry state, with
   slot_base = caller's base + (height after the call) - 1 (vm.rs call_closure:
   slot_base = len - arg_count - 1).  [Return] pops the frame and the caller takes the normal
   successor of its call instruction (return_impl truncates to slot_base and pushes the result:
   the net effect -n assumed by the per-frame view).  An exception leaving a frame (no
   frame-local handler) pops frames until one has a handler; that frame takes the exceptional
   successor of its call instruction.  Everything else is a per-frame step. *)

Section Multi.
  Variable b : bool.
  Variable p : program.

  Inductive catch_in : list frame -> list frame -> Prop :=
  | catch_here : forall fi base s f s0 l' s' rest,
      nth_error p fi = Some f ->
      succs b p f s = Some (s0 :: l') -> In s' l' ->
      catch_in (mkFr fi base s :: rest) (mkFr fi base s' :: rest)
  | catch_pass : forall fr rest ms',
      handlers (fr_st fr) = [] -> catch_in rest ms' -> catch_in (fr :: rest) ms'.

  Inductive mstep : list frame -> list frame -> Prop :=
  | ms_local : forall fi base s f l s' rest,
      nth_error p fi = Some f -> succs b p f s = Some l -> In s' l ->
      mstep (mkFr fi base s :: rest) (mkFr fi base s' :: rest)
  | ms_call : forall fi base s f n s1 gi g rest,
      nth_error p fi = Some f -> is_call p f s = Some n ->
      normal_succ b p f s = Some s1 ->
      nth_error p gi = Some g -> arity g = n + 1 ->
      (List.length (mkFr fi base s :: rest) < N.to_nat FRAMES_MAX)%nat ->
      mstep (mkFr fi base s :: rest)
            (mkFr gi (base + h s1 - 1) (entry_state g) :: mkFr fi base s :: rest)
  | ms_return : forall gi gbase t g fi base s f s1 rest,
      nth_error p gi = Some g -> is_return p g t = true -> succs b p g t = Some [] ->
      nth_error p fi = Some f -> normal_succ b p f s = Some s1 ->
      mstep (mkFr gi gbase t :: mkFr fi base s :: rest) (mkFr fi base s1 :: rest)
  | ms_unwind : forall gi gbase t g rest ms',
      nth_error p gi = Some g -> may_throw p g t = true -> handlers t = [] ->
      succs b p g t <> None ->
      catch_in rest ms' ->
      mstep (mkFr gi gbase t :: rest) ms'.

  Inductive mreachable : list frame -> Prop :=
  | mr_init : forall f0, nth_error p 0 = Some f0 -> mreachable [mkFr 0 0 (entry_state f0)]
  | mr_step : forall ms ms', mreachable ms -> mstep ms ms' -> mreachable ms'.

  (* "frame-local handler lists are what the per-frame view says": every frame of a reachable
     machine state is in a state the per-frame semantics reaches *)
  Definition frame_ok (fr : frame) : Prop :=
    exists f, nth_error p (fr_fn fr) = Some f /\ reachable b p f (fr_st fr).

  Definition frame_stuck (fr : frame) : Prop :=
    match nth_error p (fr_fn fr) with
    | None => True
    | Some f => succs b p f (fr_st fr) = None
    end.

  Lemma normal_succ_reach : forall f s s1,
      reachable b p f s -> normal_succ b p f s = Some s1 -> reachable b p f s1.
  Proof.
    intros f s s1 Hr H. unfold normal_succ in H.
    destruct (succs b p f s) as [[|x l]|] eqn:E; try discriminate.
    injection H as ->. eapply reach_step; [exact Hr | exact E | left; reflexivity].
  Qed.

  Lemma catch_in_ok : forall ms ms',
      catch_in ms ms' -> Forall frame_ok ms ->
      Forall frame_ok ms' /\ (List.length ms' <= List.length ms)%nat.
  Proof.
    intros ms ms' H; induction H as [fi base s f s0 l' s' rest Hf Hs Hin | fr rest ms' Hh Hc IH];
      intros Hok.
    - inversion Hok as [|x y [f' [Hf' Hr]] Hrest]; subst. cbn [fr_fn fr_st] in *.
      rewrite Hf in Hf'; injection Hf' as <-.
      split; [|cbn; lia]. constructor; [|exact Hrest].
      exists f; split; [exact Hf|]. cbn [fr_st].
      eapply reach_step; [exact Hr | exact Hs | right; exact Hin].
    - inversion Hok; subst. destruct IH as [A B]; [assumption|]. split; [exact A | cbn; lia].
  Qed.

  Lemma mstep_ok : forall ms ms',
      mstep ms ms' -> Forall frame_ok ms -> (List.length ms <= N.to_nat FRAMES_MAX)%nat ->
      Forall frame_ok ms' /\ (List.length ms' <= N.to_nat FRAMES_MAX)%nat.
  Proof.
    intros ms ms' H Hok Hlen; destruct H.
    - inversion Hok as [|x y [f' [Hf' Hr]] Hrest]; subst. cbn [fr_fn fr_st] in *.
      rewrite H in Hf'; injection Hf' as <-.
      split; [|exact Hlen]. constructor; [|exact Hrest].
      exists f; split; [exact H|]. cbn [fr_st]. eapply reach_step; eassumption.
    - split; [|cbn in *; lia]. constructor; [|exact Hok].
      exists g; split; [assumption | apply reach_entry].
    - inversion Hok as [|x y _ Hrest]; subst.
      inversion Hrest as [|x y [f' [Hf' Hr]] Hrest']; subst. cbn [fr_fn fr_st] in *.
      rewrite H2 in Hf'; injection Hf' as <-.
      split; [|cbn in *; lia]. constructor; [|exact Hrest'].
      exists f; split; [exact H2|]. cbn [fr_st]. eapply normal_succ_reach; eassumption.
    - inversion Hok; subst.
      destruct (catch_in_ok _ _ H3) as [A B]; [assumption|]. split; [exact A | cbn in *; lia].
  Qed.

  Lemma mreachable_ok : forall ms,
      mreachable ms -> Forall frame_ok ms /\ (List.length ms <= N.to_nat FRAMES_MAX)%nat.
  Proof.
    intros ms H; induction H as [f0 Hf0 | ms ms' Hr [IH1 IH2] Hs].
    - split; [|cbn; lia]. constructor; [|constructor].
      exists f0; split; [exact Hf0 | apply reach_entry].
    - eapply mstep_ok; eassumption.
  Qed.

  (* program_sound: if every function has an accepted annotation, no frame of any reachable
     multi-frame state is stuck, every frame is in a per-frame-reachable state (so its
     handler list, height and captured set are the ones the annotation records), and the
     frame count respects FRAMES_MAX. *)
  Theorem program_sound :
    (forall f, In f p -> exists a, check_fn b p f a = true) ->
    forall ms, mreachable ms ->
      Forall (fun fr => frame_ok fr /\ ~ frame_stuck fr) ms
      /\ (List.length ms <= N.to_nat FRAMES_MAX)%nat.
  Proof.
    intros Hc ms Hr. destruct (mreachable_ok ms Hr) as [Hok Hlen]. split; [|exact Hlen].
    rewrite Forall_forall in *. intros fr Hin. specialize (Hok fr Hin).
    split; [exact Hok|]. destruct Hok as [f [Hf Hreach]].
    unfold frame_stuck; rewrite Hf.
    destruct (Hc f (nth_error_In _ _ Hf)) as [a Ha].
    apply (check_sound b p f a Ha (fr_st fr) Hreach).
  Qed.

  (* ---- absolute stack bound ---- *)
  Variable M : N.
  Hypothesis HM : forall f s, In f p -> reachable b p f s -> h s <= M.

  Fixpoint bases_ok (ms : list frame) : Prop :=
    match ms with
    | [] => True
    | fr :: rest => fr_base fr <= M * N.of_nat (List.length rest) /\ bases_ok rest
    end.

  Lemma catch_in_bases : forall ms ms', catch_in ms ms' -> bases_ok ms -> bases_ok ms'.
  Proof.
    intros ms ms' H; induction H; intros Hb; cbn [bases_ok] in *.
    - exact Hb.
    - apply IHcatch_in. apply Hb.
  Qed.

  Lemma mstep_bases : forall ms ms',
      mstep ms ms' -> Forall frame_ok ms -> bases_ok ms -> bases_ok ms'.
  Proof.
    intros ms ms' H Hok Hb; destruct H; cbn [bases_ok fr_base] in *.
    - exact Hb.
    - split; [|exact Hb]. destruct Hb as [Hb _].
      inversion Hok as [|x y [f' [Hf' Hr]] _]; subst. cbn [fr_fn fr_st] in *.
      rewrite H in Hf'; injection Hf' as <-.
      assert (Hh : h s1 <= M).
      { apply (HM f); [eapply nth_error_In; exact H | eapply normal_succ_reach; eassumption]. }
      cbn [List.length]. rewrite Nat2N.inj_succ, N.mul_succ_r. lia.
    - apply Hb.
    - eapply catch_in_bases; [eassumption | apply Hb].
  Qed.

  Lemma mreachable_bases : forall ms, mreachable ms -> bases_ok ms.
  Proof.
    intros ms H; induction H as [f0 Hf0 | ms ms' Hr IH Hs].
    - cbn. split; [lia | exact I].
    - eapply mstep_bases; [exact Hs | apply mreachable_ok; exact Hr | exact IH].
  Qed.

  (* the absolute top of the fiber's value stack: slot_base + height of the top frame *)
  Theorem stack_top_bounded : forall fr rest,
      mreachable (fr :: rest) ->
      fr_base fr + h (fr_st fr) <= M * FRAMES_MAX.
  Proof.
    intros fr rest Hr.
    destruct (mreachable_ok _ Hr) as [Hok Hlen].
    pose proof (mreachable_bases _ Hr) as Hb. cbn [bases_ok] in Hb. destruct Hb as [Hb _].
    inversion Hok as [|x y [f [Hf Hreach]] _]; subst.
    assert (Hh : h (fr_st fr) <= M) by (apply (HM f); [eapply nth_error_In; exact Hf | exact Hreach]).
    cbn [List.length] in Hlen.
    assert (L : N.of_nat (List.length rest) + 1 <= FRAMES_MAX) by lia.
    assert (K : M * (N.of_nat (List.length rest) + 1) <= M * FRAMES_MAX)
      by (apply N.mul_le_mono_l; exact L).
    rewrite N.mul_add_distr_l, N.mul_1_r in K. lia.
  Qed.
End Multi.
Print Assumptions program_sound.
Print Assumptions stack_top_bounded.

(* verify_program's reported maxh bounds every function's annotation *)
Lemma verify_fns_maxh : forall b p fs idx maxh nu n m,
    verify_fns b p fs idx maxh nu = VOk n m ->
    maxh <= m /\ Forall (fun f => exists a, check_fn b p f a = true /\ max_height a <= m) fs.
Proof.
  intros b p fs; induction fs as [|f r IH]; intros idx maxh nu n m H; cbn [verify_fns] in H.
  - destruct nu as [[i q]|]; [discriminate|]. injection H as _ <-. split; [lia | constructor].
  - destruct (verify_fn b p f) as [a|q rs] eqn:E; [|discriminate].
    apply IH in H as [H1 H2]. split; [lia|].
    constructor; [|exact H2]. exists a; split; [apply verify_fn_ok; exact E | lia].
Qed.

(* End-to-end: OK verdict with maxh <= 256 ==> no frame ever stuck and the shared value stack
   (STACK_MAX slots, at most FRAMES_MAX frames per fiber) never overflows. *)
Theorem verified_program_safe : forall p n m,
    verify_program p = VOk n m -> stack_safe m = true ->
    forall ms, mreachable false p ms ->
      Forall (fun fr => frame_ok false p fr /\ ~ frame_stuck false p fr) ms
      /\ match ms with
         | [] => True
         | fr :: _ => fr_base fr + h (fr_st fr) <= STACK_MAX
         end.
Proof.
  intros p n m Hv Hs ms Hr. unfold verify_program, verify_program_with in Hv.
  apply verify_fns_maxh in Hv as [_ Hall]. rewrite Forall_forall in Hall.
  split.
  - apply program_sound; [|exact Hr].
    intros f Hin. destruct (Hall f Hin) as [a [Ha _]]. exists a; exact Ha.
  - destruct ms as [|fr rest]; [exact I|].
    assert (HM : forall f s, In f p -> reachable false p f s -> h s <= m).
    { intros f s Hin Hreach. destruct (Hall f Hin) as [a [Ha Hm]].
      pose proof (height_bounded false p f a Ha s Hreach) as [Hb _]. lia. }
    pose proof (stack_top_bounded false p m HM fr rest Hr) as Hb.
    unfold stack_safe in Hs. apply N.leb_le in Hs. lia.
Qed.
Print Assumptions verified_program_safe.
