(* C04 run interface of the proved bytecode verifier: a compact WIRE string (what the harness
   `compile` command dumped, re-encoded by tools/props/C04.py) is parsed into a [program] and every
   function is verified ONCE in strict mode; the verdict list yields both the boolean
   [all_ok] (the thing VerifierRunProofs.v proves sound) and the report string.
   Definitions only.

   Wire format (ASCII):   fn ("|" fn)*
     fn     = arity "," upvalue_count ":" hexbytes ":" const*
     const  = "s" (string) | "n" (number) | "o" (other) | "f" decimal "." (function, BFS index)
   The empty program is not representable (parse error).                                        *)
From Coq Require Import List NArith Bool String Ascii FMapPositive.
From YV Require Import Show Bytecode Skeleton Verifier.
Import ListNotations.
Open Scope N_scope.

Definition dec_digit (c : ascii) : option N :=
  let n := N_of_ascii c in
  if (48 <=? n) && (n <=? 57) then Some (n - 48) else None.

Definition hex_val (c : ascii) : option N :=
  let n := N_of_ascii c in
  if (48 <=? n) && (n <=? 57) then Some (n - 48)
  else if (97 <=? n) && (n <=? 102) then Some (n - 87)
  else None.

Inductive pst : Set := PAr | PUv | PHex | PHexLo (hi : N) | PCs | PFn.

Definition finish_fn (ar uv : N) (code : list N) (cs : list ckind) : fn :=
  mkFn (rev_append code []) (rev_append cs []) ar uv.

(* one pass, all accumulators reversed; [num] is the decimal number being read *)
Fixpoint parse_prog_aux (s : string) (st : pst) (ar uv num : N) (code : list N)
         (cs : list ckind) (acc : list fn) : option program :=
  match s with
  | EmptyString =>
    match st with
    | PCs => Some (rev_append (finish_fn ar uv code cs :: acc) [])
    | _ => None
    end
  | String c r =>
    match st with
    | PAr =>
      match dec_digit c with
      | Some d => parse_prog_aux r PAr ar uv (num * 10 + d) code cs acc
      | None => if Ascii.eqb c "," then parse_prog_aux r PUv num uv 0 code cs acc else None
      end
    | PUv =>
      match dec_digit c with
      | Some d => parse_prog_aux r PUv ar uv (num * 10 + d) code cs acc
      | None => if Ascii.eqb c ":" then parse_prog_aux r PHex ar num 0 code cs acc else None
      end
    | PHex =>
      match hex_val c with
      | Some hi => parse_prog_aux r (PHexLo hi) ar uv num code cs acc
      | None => if Ascii.eqb c ":" then parse_prog_aux r PCs ar uv 0 code cs acc else None
      end
    | PHexLo hi =>
      match hex_val c with
      | Some lo => parse_prog_aux r PHex ar uv num (16 * hi + lo :: code) cs acc
      | None => None
      end
    | PCs =>
      if Ascii.eqb c "s" then parse_prog_aux r PCs ar uv num code (CStr :: cs) acc
      else if Ascii.eqb c "n" then parse_prog_aux r PCs ar uv num code (CNum :: cs) acc
      else if Ascii.eqb c "o" then parse_prog_aux r PCs ar uv num code (COther :: cs) acc
      else if Ascii.eqb c "f" then parse_prog_aux r PFn ar uv 0 code cs acc
      else if Ascii.eqb c "|"
      then parse_prog_aux r PAr 0 0 0 [] [] (finish_fn ar uv code cs :: acc)
      else None
    | PFn =>
      match dec_digit c with
      | Some d => parse_prog_aux r PFn ar uv (num * 10 + d) code cs acc
      | None =>
        if Ascii.eqb c "."
        then parse_prog_aux r PCs ar uv 0 code (CFunc (N.to_nat num) :: cs) acc
        else None
      end
    end
  end.

Definition parse_program (s : string) : option program := parse_prog_aux s PAr 0 0 0 [] [] [].

(* ---------- verdicts ---------- *)

Definition run_verdicts (lenient : bool) (p : program) : list fn_verdict :=
  map (verify_fn lenient p) p.

Definition verdict_ok_unique (v : fn_verdict) : bool :=
  match v with FOk a => unique_height a | FReject _ _ => false end.

Definition verdict_maxh (v : fn_verdict) : N :=
  match v with FOk a => max_height a | FReject _ _ => 0 end.

(* every function verified and every reached pc has ONE (height, handler list) shape *)
Definition all_ok (vs : list fn_verdict) : bool := forallb verdict_ok_unique vs.

Definition max_maxh (vs : list fn_verdict) : N := fold_right (fun v m => N.max (verdict_maxh v) m) 0 vs.

Definition run_ok (p : program) : bool := all_ok (run_verdicts false p).

(* ---------- evidence counters ---------- *)

Definition max_handlers (a : annot) : nat :=
  fold_right (fun s m => Nat.max (List.length (handlers s)) m) 0%nat (all_states a).

Definition max_captured (a : annot) : nat :=
  fold_right (fun s m => Nat.max (List.length (captured s)) m) 0%nat (all_states a).

(* all pcs carrying two different (height, handlers) shapes, ascending *)
Definition nonunique_pcs (a : annot) : list N :=
  fold_right (fun kl acc =>
                match snd kl with
                | s :: _ => if unique_list (snd kl) then acc else pc s :: acc
                | [] => acc
                end) [] (PositiveMap.elements a).

Fixpoint firstn_N (k : nat) (l : list N) : list N :=
  match k, l with
  | S k', x :: r => x :: firstn_N k' r
  | _, _ => []
  end.

Open Scope string_scope.

(* the heights seen at pc [q] (diagnostic for the classification of a NONUNIQUE verdict) *)
Definition show_heights_at (a : annot) (q : N) : string :=
  show_sep "/" (fun s => show_N (h s) ++ "h" ++ show_nat (List.length (handlers s))) (states_at a q).

Definition show_stats (a : annot) : string :=
  " maxh=" ++ show_N (max_height a) ++ " mh=" ++ show_nat (max_handlers a)
  ++ " mc=" ++ show_nat (max_captured a) ++ " st=" ++ show_nat (count_states a).

Definition show_verdict_detail (v : fn_verdict) : string :=
  match v with
  | FOk a =>
    match nonunique_pcs a with
    | [] => "OK" ++ show_stats a
    | (q :: _) as l =>
      "NONUNIQUE pc=" ++ show_N q ++ show_stats a ++ " n=" ++ show_nat (List.length l)
      ++ " pcs=" ++ show_sep "," show_N (firstn_N 40 l) ++ " hs=" ++ show_heights_at a q
    end
  | FReject q r => "REJECT pc=" ++ show_N q ++ " reason=" ++ show_reason r
  end.

(* strict verdict of one function; for a rejected function the lenient verdict is appended as a
   diagnostic (never used for acceptance) *)
Definition show_run_verdict (p : program) (f : fn) (v : fn_verdict) : string :=
  match v with
  | FOk _ => show_verdict_detail v
  | FReject _ _ =>
    show_verdict_detail v ++ " lenient=(" ++ show_verdict_detail (verify_fn true p f) ++ ")"
  end.

Fixpoint show_run_list (p : program) (fs : list fn) (vs : list fn_verdict) : string :=
  match fs, vs with
  | f :: rf, v :: rv =>
    show_run_verdict p f v ++ match rf with [] => "" | _ => "|" ++ show_run_list p rf rv end
  | _, _ => ""
  end.

(* "ALL=T fns=3 maxh=7 safe=T;OK maxh=..|OK ..|.."   or   "PARSE-ERROR" *)
Definition run_report_program (p : program) : string :=
  let vs := run_verdicts false p in
  "ALL=" ++ show_bool (all_ok vs) ++ " fns=" ++ show_nat (List.length p)
  ++ " maxh=" ++ show_N (max_maxh vs) ++ " safe=" ++ show_bool (stack_safe (max_maxh vs))
  ++ ";" ++ show_run_list p p vs.

Definition run_report (wire : string) : string :=
  match parse_program wire with
  | None => "PARSE-ERROR"
  | Some p => run_report_program p
  end.

(* verdict of the single function [k] of the program (classification of flagged functions: the
   plug-in re-verifies byte-level repairs of one function in the context of its program) *)
Definition run_report_fn (k : nat) (wire : string) : string :=
  match parse_program wire with
  | None => "PARSE-ERROR"
  | Some p =>
    match nth_error p k with
    | Some f => show_run_verdict p f (verify_fn false p f)
    | None => "NO-SUCH-FN"
    end
  end.

(* the developer-facing report of Verifier.v on a wire string (used by the notes/experiments) *)
Definition run_verify_report (lenient : bool) (wire : string) : string :=
  match parse_program wire with
  | None => "PARSE-ERROR"
  | Some p => verify_report_with lenient p
  end.

(* ---------- opcode names (tie to the regenerated chunk.rs enum) ---------- *)

Definition all_opcodes : list opcode :=
  [OpConstant; OpNil; OpTrue; OpFalse; OpPop; OpCopyTop; OpGetLocal; OpSetLocal; OpGetGlobal;
   OpDefineGlobal; OpSetGlobal; OpGetUpvalue; OpSetUpvalue; OpGetProperty; OpSetProperty;
   OpGetClass; OpGetSuper; OpEqual; OpGreater; OpLess; OpAdd; OpSubtract; OpMultiply; OpDivide;
   OpBitwiseAnd; OpBitwiseOr; OpBitwiseXor; OpModulo; OpLogicalNot; OpBitwiseNot; OpBitShiftLeft;
   OpBitShiftRight; OpNegate; OpGetItem; OpSetItem; OpFormatString; OpBuildHashMap; OpBuildRange;
   OpBuildString; OpBuildTuple; OpBuildVec; OpIterNext; OpJump; OpJumpIfFalse; OpJumpIfStopIter;
   OpLoop; OpJumpFinally; OpEndFinally; OpPushExcHandler; OpPopExcHandler; OpThrow; OpCall;
   OpInvoke; OpConstruct; OpSuperInvoke; OpClosure; OpCloseUpvalue; OpReturn; OpDeclareClass;
   OpDefineClass; OpInherit; OpMethod; OpStaticMethod; OpStartImport; OpFinishImport].

Definition name_of_opcode (o : opcode) : string :=
  match o with
  | OpConstant => "Constant" | OpNil => "Nil" | OpTrue => "True" | OpFalse => "False"
  | OpPop => "Pop" | OpCopyTop => "CopyTop" | OpGetLocal => "GetLocal" | OpSetLocal => "SetLocal"
  | OpGetGlobal => "GetGlobal" | OpDefineGlobal => "DefineGlobal" | OpSetGlobal => "SetGlobal"
  | OpGetUpvalue => "GetUpvalue" | OpSetUpvalue => "SetUpvalue" | OpGetProperty => "GetProperty"
  | OpSetProperty => "SetProperty" | OpGetClass => "GetClass" | OpGetSuper => "GetSuper"
  | OpEqual => "Equal" | OpGreater => "Greater" | OpLess => "Less" | OpAdd => "Add"
  | OpSubtract => "Subtract" | OpMultiply => "Multiply" | OpDivide => "Divide"
  | OpBitwiseAnd => "BitwiseAnd" | OpBitwiseOr => "BitwiseOr" | OpBitwiseXor => "BitwiseXor"
  | OpModulo => "Modulo" | OpLogicalNot => "LogicalNot" | OpBitwiseNot => "BitwiseNot"
  | OpBitShiftLeft => "BitShiftLeft" | OpBitShiftRight => "BitShiftRight" | OpNegate => "Negate"
  | OpGetItem => "GetItem" | OpSetItem => "SetItem" | OpFormatString => "FormatString"
  | OpBuildHashMap => "BuildHashMap" | OpBuildRange => "BuildRange"
  | OpBuildString => "BuildString" | OpBuildTuple => "BuildTuple" | OpBuildVec => "BuildVec"
  | OpIterNext => "IterNext" | OpJump => "Jump" | OpJumpIfFalse => "JumpIfFalse"
  | OpJumpIfStopIter => "JumpIfStopIter" | OpLoop => "Loop" | OpJumpFinally => "JumpFinally"
  | OpEndFinally => "EndFinally" | OpPushExcHandler => "PushExcHandler"
  | OpPopExcHandler => "PopExcHandler" | OpThrow => "Throw" | OpCall => "Call"
  | OpInvoke => "Invoke" | OpConstruct => "Construct" | OpSuperInvoke => "SuperInvoke"
  | OpClosure => "Closure" | OpCloseUpvalue => "CloseUpvalue" | OpReturn => "Return"
  | OpDeclareClass => "DeclareClass" | OpDefineClass => "DefineClass" | OpInherit => "Inherit"
  | OpMethod => "Method" | OpStaticMethod => "StaticMethod" | OpStartImport => "StartImport"
  | OpFinishImport => "FinishImport"
  end.

(* what the VM's decoders consume after the opcode byte, as a list of operand widths in bytes
   (Closure: the fixed part only) - compared with the regenerated OpCode::arg_sizes table, the
   two deliberate differences being PopExcHandler and the Closure tail *)
Definition layout_sizes (o : opcode) : list N :=
  match layout_of o with
  | L0 => [] | L8 => [1] | L16 => [2] | L16_16 => [2; 2] | L16_8 => [2; 1] | LClosure => [2]
  end%N.

Fixpoint list_N_eqb (a b : list N) : bool :=
  match a, b with
  | [], [] => true
  | x :: r, y :: s => N.eqb x y && list_N_eqb r s
  | _, _ => false
  end.

(* names whose claimed arg_sizes differ from the layout the model (= the VM) decodes *)
Definition arg_size_mismatches (table : list (string * list N)) : list string :=
  flat_map (fun o =>
              match find (fun e => String.eqb (fst e) (name_of_opcode o)) table with
              | Some e => if list_N_eqb (snd e) (layout_sizes o) then [] else [name_of_opcode o]
              | None => [name_of_opcode o]
              end) all_opcodes.

(* same set: every name of [a] occurs in [b] and vice versa, and the lengths agree *)
Definition same_names (a b : list string) : bool :=
  Nat.eqb (List.length a) (List.length b)
  && forallb (fun x => existsb (String.eqb x) b) a
  && forallb (fun x => existsb (String.eqb x) a) b.

(* ---------- u16 operand encoding (what patch_jump / emit_loop / patch_offset_at do) ---------- *)

Definition encode16 (n : N) : N * N := ((n mod 65536) mod 256, (n mod 65536) / 256)%N.  (* `as u16`, LE *)
Definition decode16 (lohi : N * N) : N := (fst lohi + 256 * snd lohi)%N.
