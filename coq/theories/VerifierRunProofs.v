(* Proofs about the C04 run interface (VerifierRun.v): what a positive run verdict means, operand
   widths of decoded instructions, the u16 jump encoding and its limit. *)
From Coq Require Import List NArith Bool String Ascii Lia FMapPositive.
From YV Require Import Show Bytecode Skeleton Verifier VerifierProofs VerifierRun.
Import ListNotations.
Open Scope N_scope.
Arguments N.mul : simpl never.
Arguments N.add : simpl never.
Arguments N.sub : simpl never.

(* ---------- a positive run verdict ---------- *)

Lemma all_ok_run_verdicts : forall b p fs,
  all_ok (map (verify_fn b p) fs) = true ->
  forall f, In f fs -> exists a, check_fn b p f a = true /\ unique_height a = true.
Proof.
  intros b p fs. induction fs as [|g r IH]; intros Hall f Hin.
  - destruct Hin.
  - cbn [map all_ok forallb] in Hall. apply andb_true_iff in Hall. destruct Hall as [Hg Hr].
    destruct Hin as [->|Hin].
    + unfold verdict_ok_unique in Hg. destruct (verify_fn b p f) as [a|q rs] eqn:Hv.
      * exists a. split; [exact (verify_fn_ok b p f a Hv)|exact Hg].
      * discriminate.
    + apply IH; assumption.
Qed.

(* [run_ok p = true] (the "ALL=T" of the report): every function of [p] has a checked annotation with
   one shape per pc; hence on EVERY path of the shape semantics no state is stuck (no fetch outside the
   code, every constant / local / captured-variable operand exists, no pop of a parameter or of a slot
   with an open upvalue, balanced handlers at Return) and two visits of one pc agree on height and
   handler list. *)
Theorem run_ok_sound : forall p, run_ok p = true ->
  forall f, In f p ->
    (forall s, reachable false p f s -> succs false p f s <> None) /\
    (forall s1 s2, reachable false p f s1 -> reachable false p f s2 -> pc s1 = pc s2 ->
       h s1 = h s2 /\ handlers s1 = handlers s2) /\
    (forall s, reachable false p f s -> h s <= STACK_MAX /\
       exists i nx, decode p f (pc s) = Some (i, nx) /\ pc s < nx /\ nx <= code_len f).
Proof.
  intros p Hok f Hin. unfold run_ok, run_verdicts in Hok.
  destruct (all_ok_run_verdicts false p p Hok f Hin) as [a [Hc Hu]].
  split; [|split].
  - intros s Hs. exact (proj1 (check_sound false p f a Hc s Hs)).
  - intros s1 s2 H1 H2 Hpc. exact (unique_height_sound false p f a Hc Hu s1 s2 H1 H2 Hpc).
  - intros s Hs. split.
    + exact (proj2 (height_bounded false p f a Hc s Hs)).
    + exact (decode_in_bounds false p f a Hc s Hs).
Qed.

Theorem run_ok_program_sound : forall p, run_ok p = true ->
  forall ms, mreachable false p ms ->
    Forall (fun fr => frame_ok false p fr /\ ~ frame_stuck false p fr) ms
    /\ (List.length ms <= N.to_nat FRAMES_MAX)%nat.
Proof.
  intros p Hok. apply program_sound. intros f Hin.
  destruct (all_ok_run_verdicts false p p Hok f Hin) as [a [Hc _]]. exists a. exact Hc.
Qed.

Example run_ok_example :
  exists p, parse_program "1,0:013901:"%string = Some p /\ run_ok p = true.
Proof. eexists. split; [vm_compute; reflexivity|vm_compute; reflexivity]. Qed.

(* ---------- operand widths: what the decoder hands to the semantics fits the encoding ---------- *)

Lemma byte_at_small : forall c i b, byte_at c i = Some b -> b < 256.
Proof.
  intros c i b H. unfold byte_at in H. destruct (nth_error c (N.to_nat i)) as [x|]; [|discriminate].
  destruct (x <? 256) eqn:E; [|discriminate]. injection H as <-. apply N.ltb_lt. exact E.
Qed.

Lemma get16_small : forall c q v, get16 (byte_at c) q = Some v -> v < 65536.
Proof.
  intros c q v H. unfold get16 in H.
  destruct (byte_at c q) as [lo|] eqn:E1; [|discriminate].
  destruct (byte_at c (q + 1)) as [hi|] eqn:E2; [|discriminate].
  injection H as <-. apply byte_at_small in E1. apply byte_at_small in E2. lia.
Qed.

Lemma read_uvs_small : forall c k q l, read_uvs (byte_at c) k q = Some l ->
  Forall (fun u => snd u < 256) l.
Proof.
  intros c k. induction k as [|k IH]; intros q l H; cbn [read_uvs] in H.
  - injection H as <-. constructor.
  - destruct (byte_at c q) as [il|] eqn:E1; [|discriminate].
    destruct (byte_at c (q + 1)) as [ix|] eqn:E2; [|discriminate].
    destruct (read_uvs (byte_at c) k (q + 2)) as [r|] eqn:E3; [|discriminate].
    injection H as <-. constructor; [cbn; exact (byte_at_small _ _ _ E2)|exact (IH _ _ E3)].
Qed.

(* every decoded operand is below 2^(8 * width of its field): a count that did not fit its field
   reaches the semantics as the WRAPPED value - which [operand_fits]/[step] then judge *)
Theorem decode_operand_widths : forall p f q i nx, decode p f q = Some (i, nx) ->
  ia i < 65536 /\ ib i < 65536 /\ Forall (fun u => snd u < 256) (iuvs i) /\
  match layout_of (iop i) with
  | L0 => ia i = 0 /\ ib i = 0
  | L8 => ia i < 256 /\ ib i = 0
  | L16 => ib i = 0
  | L16_16 => True
  | L16_8 => ib i < 256
  | LClosure => ib i = 0 /\ N.of_nat (List.length (iuvs i)) * 2 + 3 = nx - q
  end.
Proof.
  intros p f q i nx H. unfold decode, decode_at in H.
  destruct (byte_at (code f) q) as [b|] eqn:Eb; [|discriminate].
  destruct (opcode_of_N b) as [o|] eqn:Eo; [|discriminate].
  destruct (layout_of o) eqn:El.
  - injection H as <- <-. cbn. rewrite El. repeat split; try lia; constructor.
  - destruct (byte_at (code f) (q + 1)) as [a|] eqn:Ea; [|discriminate].
    injection H as <- <-. cbn. rewrite El. apply byte_at_small in Ea. repeat split; try lia; constructor.
  - destruct (get16 (byte_at (code f)) (q + 1)) as [a|] eqn:Ea; [|discriminate].
    injection H as <- <-. cbn. rewrite El. apply get16_small in Ea. repeat split; try lia; constructor.
  - destruct (get16 (byte_at (code f)) (q + 1)) as [a|] eqn:Ea; [|discriminate].
    destruct (get16 (byte_at (code f)) (q + 3)) as [b'|] eqn:Eb'; [|discriminate].
    injection H as <- <-. cbn. rewrite El. apply get16_small in Ea. apply get16_small in Eb'.
    repeat split; try lia; constructor.
  - destruct (get16 (byte_at (code f)) (q + 1)) as [a|] eqn:Ea; [|discriminate].
    destruct (byte_at (code f) (q + 3)) as [b'|] eqn:Eb'; [|discriminate].
    injection H as <- <-. cbn. rewrite El. apply get16_small in Ea. apply byte_at_small in Eb'.
    repeat split; try lia; constructor.
  - destruct (get16 (byte_at (code f)) (q + 1)) as [c|] eqn:Ec; [|discriminate].
    destruct (closure_arity p f c) as [k|] eqn:Ek; [|discriminate].
    destruct (read_uvs (byte_at (code f)) (N.to_nat k) (q + 3)) as [uvs|] eqn:Eu; [|discriminate].
    injection H as <- <-. cbn. rewrite El. apply get16_small in Ec.
    assert (Hlen : List.length uvs = N.to_nat k).
    { clear -Eu. revert uvs Eu. generalize (q + 3). induction (N.to_nat k) as [|n IH]; intros q0 uvs Eu;
        cbn [read_uvs] in Eu.
      - injection Eu as <-. reflexivity.
      - destruct (byte_at (code f) q0); [|discriminate]. destruct (byte_at (code f) (q0 + 1)); [|discriminate].
        destruct (read_uvs (byte_at (code f)) n (q0 + 2)) eqn:E; [|discriminate].
        injection Eu as <-. cbn. f_equal. exact (IH _ _ E). }
    split; [lia|]. split; [lia|]. split; [exact (read_uvs_small _ _ _ _ Eu)|].
    split; [reflexivity|]. rewrite Hlen. lia.
Qed.

(* a reached instruction consumes exactly what its (decoded, possibly wrapped) operand says, and the
   frame holds that much: [operand_fits] is implied by not being stuck *)
Theorem operand_fits_of_not_stuck : forall b p f s i nx,
  succs b p f s <> None -> decode p f (pc s) = Some (i, nx) -> operand_fits f i (h s) = true.
Proof.
  intros b p f s i nx Hs Hd. unfold operand_fits.
  destruct (simple_effect f i (h s)) as [e|] eqn:Ee; [|reflexivity].
  unfold succs, succs_at, step_at in Hs. unfold decode in Hd.
  destruct (STACK_MAX <? h s); [congruence|]. rewrite Hd in Hs. rewrite Ee in Hs.
  unfold step_simple in Hs.
  destruct (e_chk e); [congruence|]. destruct (const_ok f (e_const e) (ia i)); [congruence|].
  destruct (e_need e <=? h s); [reflexivity|]. cbn in Hs. congruence.
Qed.

(* ---------- u16 operand encoding (what patch_jump / emit_loop / patch_offset_at do) ---------- *)

Definition encode16 (n : N) : N * N := ((n mod 65536) mod 256, (n mod 65536) / 256).  (* `as u16`, LE *)
Definition decode16 (lohi : N * N) : N := fst lohi + 256 * snd lohi.

Lemma encode16_roundtrip : forall n, n <= 65535 -> decode16 (encode16 n) = n.
Proof.
  intros n Hn. unfold decode16, encode16. cbn [fst snd].
  rewrite (N.mod_small n 65536) by lia.
  pose proof (N.div_mod n 256 ltac:(lia)). lia.
Qed.

Lemma encode16_wraps : decode16 (encode16 65536) = 0.
Proof. vm_compute. reflexivity. Qed.

(* status of the jump limit for a compiler that accepts every distance <= J:
   landed = true : the limit is an encoding limit (every accepted distance survives the u16 field);
   landed = false: the side condition fails and some accepted distance is silently wrapped. *)
Definition jump_limit_side_condition (J : N) : Prop := J <= 65535.

Definition jump_limit_status (landed : bool) (J : N) : Prop :=
  if landed
  then jump_limit_side_condition J /\ forall off, off <= J -> decode16 (encode16 off) = off
  else ~ jump_limit_side_condition J /\ exists off, off <= J /\ decode16 (encode16 off) <> off.

Theorem jump_limit_decide : forall J, jump_limit_status (J <=? 65535) J.
Proof.
  intros J. unfold jump_limit_status, jump_limit_side_condition.
  destruct (J <=? 65535) eqn:E.
  - apply N.leb_le in E. split; [exact E|]. intros off Ho. apply encode16_roundtrip. lia.
  - apply N.leb_gt in E. split; [lia|]. exists 65536. split; [lia|].
    rewrite encode16_wraps. discriminate.
Qed.

(* ---------- the end of the code is never reached (round 7) ----------
   A verified function cannot run off the end of its code: every reachable pc lies strictly inside the code (the
   instruction there decodes and ends inside it).  A function whose epilogue is missing is therefore REJECTED -
   whatever its last byte is: the last BYTE of a chunk says nothing about its last INSTRUCTION. *)
Theorem never_runs_off_the_end : forall b p f a, check_fn b p f a = true ->
  forall s, reachable b p f s -> pc s < code_len f.
Proof.
  intros b p f a Hc s Hr.
  destruct (decode_in_bounds b p f a Hc s Hr) as [i [nx [_ [H1 H2]]]]. lia.
Qed.

(* 57 x Nil, BuildVec 57 (a local initialised with a 57-element literal as the last statement of a function), with
   and without the implicit `Nil; Return`: both byte strings end in 57 = OpCode::Return *)
Definition fn_vec57_with_epilogue : fn := mkFn (repeat 1 57 ++ [40; 57] ++ [1; 57]) [] 1 0.
Definition fn_vec57_without_epilogue : fn := mkFn (repeat 1 57 ++ [40; 57]) [] 1 0.
Theorem last_byte_is_not_last_instruction :
  (last (code fn_vec57_with_epilogue) 0 = N_of_opcode OpReturn) /\
  (last (code fn_vec57_without_epilogue) 0 = N_of_opcode OpReturn) /\
  (exists a, verify_fn false [fn_vec57_with_epilogue] fn_vec57_with_epilogue = FOk a) /\
  (exists q r, verify_fn false [fn_vec57_without_epilogue] fn_vec57_without_epilogue = FReject q r) /\
  (decode [fn_vec57_without_epilogue] fn_vec57_without_epilogue 57
   = Some (mkInstr OpBuildVec 57 0 [], code_len fn_vec57_without_epilogue)).
Proof.
  split; [reflexivity|]. split; [reflexivity|]. split.
  - destruct (verify_fn false [fn_vec57_with_epilogue] fn_vec57_with_epilogue) eqn:E.
    + eexists; reflexivity.
    + vm_compute in E. discriminate.
  - split.
    + destruct (verify_fn false [fn_vec57_without_epilogue] fn_vec57_without_epilogue) eqn:E.
      * vm_compute in E. discriminate.
      * eexists; eexists; reflexivity.
    + vm_compute. reflexivity.
Qed.

Print Assumptions run_ok_sound.
Print Assumptions run_ok_program_sound.
Print Assumptions decode_operand_widths.
Print Assumptions operand_fits_of_not_stuck.
Print Assumptions jump_limit_decide.
Print Assumptions never_runs_off_the_end.
Print Assumptions last_byte_is_not_last_instruction.
