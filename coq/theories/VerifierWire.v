(* Fast input path of the C04 run: the code bytes of a function arrive as a list of PRIMITIVE 63-bit
   integer literals (7 bytes each, first byte most significant; the last literal is zero-padded and the
   exact length is passed separately).  Primitive literals are parsed natively by coqc - a 64 KiB
   function elaborates in 0.3 s, where a hex STRING literal of the same function takes 15 s and a list
   of N numerals 4 s (both go through Coq-side notation interpreters).
   This file is NOT in the dependency cone of props/C04.v: it only feeds [VerifierRun.run_report_program],
   whose meaning is proved in VerifierRunProofs.v.  Definitions only. *)
From Coq Require Import List NArith ZArith Bool String Ascii Uint63.
From YV Require Import Show Bytecode Skeleton Verifier VerifierRun.
Import ListNotations.

Definition byte_k (x : int) (k : int) : N :=
  Z.to_N (Uint63.to_Z (PrimInt63.land (PrimInt63.lsr x k) 255%uint63)).

Definition bytes7 (x : int) (acc : list N) : list N :=
  byte_k x 48 :: byte_k x 40 :: byte_k x 32 :: byte_k x 24 :: byte_k x 16 :: byte_k x 8
  :: byte_k x 0 :: acc.

Fixpoint take_N (n : nat) (l : list N) (acc : list N) : list N :=
  match n, l with
  | S n', x :: r => take_N n' r (x :: acc)
  | _, _ => rev_append acc []
  end.

Definition code_of_ints (len : N) (l : list int) : list N :=
  take_N (N.to_nat len) (fold_right bytes7 [] l) [].

(* constants: "s" | "n" | "o" optionally followed by a decimal repeat count, or "f" index "." *)
Inductive cst : Set := CIdle | CKind (k : ckind) (cnt : option N) | CFn (idx : N).

Fixpoint push_n (k : ckind) (n : nat) (acc : list ckind) : list ckind :=
  match n with O => acc | S n' => push_n k n' (k :: acc) end.

Definition flush (st : cst) (acc : list ckind) : option (list ckind) :=
  match st with
  | CIdle => Some acc
  | CKind k None => Some (k :: acc)
  | CKind k (Some n) => Some (push_n k (N.to_nat n) acc)
  | CFn _ => None
  end.

Fixpoint parse_consts_aux (s : string) (st : cst) (acc : list ckind) : option (list ckind) :=
  match s with
  | EmptyString => match flush st acc with Some a => Some (rev_append a []) | None => None end
  | String c r =>
    match dec_digit c with
    | Some d =>
      match st with
      | CKind k None => parse_consts_aux r (CKind k (Some d)) acc
      | CKind k (Some n) => parse_consts_aux r (CKind k (Some (n * 10 + d)%N)) acc
      | CFn i => parse_consts_aux r (CFn (i * 10 + d)%N) acc
      | CIdle => None
      end
    | None =>
      if Ascii.eqb c "."
      then match st with
           | CFn i => parse_consts_aux r CIdle (CFunc (N.to_nat i) :: acc)
           | _ => None
           end
      else
        match flush st acc with
        | None => None
        | Some a =>
          if Ascii.eqb c "s" then parse_consts_aux r (CKind CStr None) a
          else if Ascii.eqb c "n" then parse_consts_aux r (CKind CNum None) a
          else if Ascii.eqb c "o" then parse_consts_aux r (CKind COther None) a
          else if Ascii.eqb c "f" then parse_consts_aux r (CFn 0%N) a
          else None
        end
    end
  end.

Definition parse_consts (s : string) : option (list ckind) := parse_consts_aux s CIdle [].

(* one function on the wire: arity, upvalue count, code length, code literals, constants *)
Definition wfn : Type := (N * N * N * list int * string)%type.

Fixpoint program_of_wire (l : list wfn) : option program :=
  match l with
  | [] => Some []
  | (ar, uv, len, ints, cs) :: r =>
    match parse_consts cs, program_of_wire r with
    | Some k, Some p => Some (mkFn (code_of_ints len ints) k ar uv :: p)
    | _, _ => None
    end
  end.

Open Scope string_scope.

Definition run_report_w (l : list wfn) : string :=
  match program_of_wire l with
  | Some (f :: r) => run_report_program (f :: r)
  | _ => "PARSE-ERROR"
  end.

(* verdict of the single function [k] *)
Definition run_report_fn_w (k : nat) (l : list wfn) : string :=
  match program_of_wire l with
  | None => "PARSE-ERROR"
  | Some p =>
    match nth_error p k with
    | Some f => show_run_verdict p f (verify_fn false p f)
    | None => "NO-SUCH-FN"
    end
  end.

(* echo of the decoded program, for the self-test of the wire format (plug-in compares it with what it sent) *)
Definition show_ckind (k : ckind) : string :=
  match k with CStr => "s" | CNum => "n" | COther => "o" | CFunc i => "f" ++ show_nat i ++ "." end.

Definition echo_w (l : list wfn) : string :=
  match program_of_wire l with
  | None => "PARSE-ERROR"
  | Some p =>
    show_sep "|" (fun f => show_N (arity f) ++ "," ++ show_N (upvalue_count f) ++ ":"
                           ++ show_sep " " show_N (code f) ++ ":"
                           ++ show_sep "" show_ckind (consts f)) p
  end.
