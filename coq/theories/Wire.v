(* Conversions used by the generated cases files (inputs arrive as numerals). Definitions only. *)
From Coq Require Import List String Ascii NArith ZArith Bool.
From Coq Require Import Strings.Byte.
Import ListNotations.

Definition byte_of_N (n : N) : byte :=
  match Byte.of_N n with Some b => b | None => x00 end.

Definition bytes_of_Ns (l : list N) : list byte := map byte_of_N l.
Definition Ns_of_bytes (l : list byte) : list N := map Byte.to_N l.
Definition string_of_bytes_N (l : list N) : string := string_of_list_byte (bytes_of_Ns l).

(* Compact input format: a `string` of decimal numbers separated by single spaces, groups
   separated by ';' and super-groups by '|'.  Parsing a string literal is far cheaper for coqc than
   elaborating nested list literals. *)
Definition digit_of_ascii (c : ascii) : option N :=
  let n := N_of_ascii c in
  if andb (N.leb 48 n) (N.leb n 57) then Some (n - 48)%N else None.

(* state: current number (if any), current group (reversed), groups (reversed) *)
Fixpoint parse_nss_aux (s : string) (cur : option N) (grp : list N) (acc : list (list N))
  : list (list N) :=
  match s with
  | EmptyString =>
    let grp' := match cur with Some n => n :: grp | None => grp end in
    rev (rev grp' :: acc)
  | String c r =>
    match digit_of_ascii c with
    | Some d => parse_nss_aux r (Some (match cur with Some n => n * 10 + d | None => d end)%N) grp acc
    | None =>
      let grp' := match cur with Some n => n :: grp | None => grp end in
      if Ascii.eqb c ";" then parse_nss_aux r None [] (rev grp' :: acc)
      else parse_nss_aux r None grp' acc
    end
  end.

(* "1 2;3;;4 5" -> [[1;2];[3];[];[4;5]] ; the empty string is one empty group *)
Definition parse_nss (s : string) : list (list N) := parse_nss_aux s None [] [].

Fixpoint split_bar_aux (s : string) (cur : string -> string) (acc : list string) : list string :=
  match s with
  | EmptyString => rev (cur EmptyString :: acc)
  | String c r =>
    if Ascii.eqb c "|" then split_bar_aux r (fun x => x) (cur EmptyString :: acc)
    else split_bar_aux r (fun x => cur (String c x)) acc
  end.

Definition split_bar (s : string) : list string := split_bar_aux s (fun x => x) [].
