// harness commands owned by the check of property C01 (see tools/props/C01.py)
//
//   c01run <opts> <hexsrc> [<name>=<hexsrc>...]
//       like `run` (plus a host module table like `mods`), but print() is intercepted:
//         print("@@C")     -> record `G <collections so far> <boxes in the heap>`
//         print("@@SNAP")  -> heap snapshot through hook H2 (`verif::snapshot()`), then a forced
//                             collection, then the survivor list:
//                               SNAP <index> <number of boxes>
//                               B <id> <hex type name> <num_roots> <nm> m.. <nb> b.. <ng> g..
//                               L <id of every box that survived, allocation order>
//                             ids are positions in allocation order at snapshot time.
//         print(("@@TAG", x))  -> remember the heap object x (by the address of its data) as the next "probed object"
//         print("@@PREMISE")   -> snapshot only (no collection); for every tagged object that is still in the heap:
//                                   P <tag> <num_roots> <hex type of x> <hex type of each REACHABLE direct holder>...
//                                 (holder = a box, reachable from a rooted box, whose real `mark` reaches x and not
//                                 through another box strictly below it); `P <tag> gone` if x is no longer in the heap
//                                 followed, per direct holder, by  H <tag> <hex type of the holder> <its num_roots> <hex type of
//                                 each of ITS reachable direct holders>...
//         print("@@GC")        -> when opts contains `force=1`: ONE forced collection (hook H2 `force_collect`) at this point;
//                                 `force=deep`: the per-collection spec below (which includes one forced collection); otherwise nothing.  With `gc=never,force=1` the program builds its heap without any collection
//                                 and the collector then meets that heap in one piece (depth / size of the object graph is
//                                 whatever the program built: the "scale" probes).  Record `G <collections so far> <boxes>` either way.
//         `force=deep`         -> per-collection spec on a heap of any depth, evaluated here (no quadratic wire): hook H2 snapshot,
//                                 R = least set containing every box with num_roots > 0 and closed under "the real `mark` of a member
//                                 alone turns it Grey" (a fixed point over the one-box observations, so a bound on the depth of a single
//                                 `mark` call does not shorten R); then a forced collection; then
//                                   D <boxes> <rooted> <|R|> <survivors> <|R \ survivors|> <|survivors \ R|> <largest one-box mark set> <hex type of the first lost box | ->
//       Everything else is printed as usual (`O` records).  One more snapshot is taken after the program
//       has ended while the Vm is still alive when opts contains `snap_end=1`.
//
//   c01seq <opts> <reset|keep> <hex global name> <hexsrc1> <hexsrc2> [<name>=<hexsrc>...]
//       two snippets on ONE Vm.  mode `reset`: after the first snippet the host takes the value of global <name> of
//       module "main", holds a Root for it, calls Vm::reset() (drops every module but "main", every non-core chunk
//       root, all globals), stores the value back as global <name> and runs the second snippet: a host-held value that
//       survives a reset.  mode `keep`: no reset (a run that failed, then a second run on the same Vm).
use std::any::Any;
use std::cell::RefCell;
use std::collections::HashMap;

use yarel::error::{Error, ErrorKind};
use yarel::memory::verif as gcv;
use yarel::value::Value;
use yarel::vm::{self, Vm};

thread_local! {
    static TAGS: RefCell<Vec<usize>> = RefCell::new(Vec::new());
    static RECS: RefCell<Vec<String>> = RefCell::new(Vec::new());
    static NSNAP: RefCell<usize> = RefCell::new(0);
    static FORCE: std::cell::Cell<u8> = std::cell::Cell::new(0);
}

fn force_opt(opts: &str) -> u8 {
    if opts.split(',').any(|kv| kv == "force=deep") {
        2
    } else if opts.split(',').any(|kv| kv == "force=1") {
        1
    } else {
        0
    }
}

fn g_record() {
    let (_, _, n, c) = gcv::stats();
    RECS.with(|r| r.borrow_mut().push(format!("G {} {}", c, n)));
}

// print("@@DEEP"): see the header
fn deep_check() {
    let snap = gcv::snapshot();
    let n = snap.len();
    let mut ids: HashMap<usize, usize> = HashMap::with_capacity(n);
    for (i, b) in snap.iter().enumerate() {
        ids.insert(b.addr, i);
    }
    let mut inr = vec![false; n];
    let mut todo: Vec<usize> = Vec::new();
    let mut rooted = 0usize;
    for i in 0..n {
        if snap[i].num_roots > 0 {
            rooted += 1;
            inr[i] = true;
            todo.push(i);
        }
    }
    let mut widest = 0usize;
    for b in snap.iter() {
        widest = widest.max(b.marks.len());
    }
    while let Some(i) = todo.pop() {
        for a in snap[i].marks.iter() {
            if let Some(&j) = ids.get(a) {
                if !inr[j] {
                    inr[j] = true;
                    todo.push(j);
                }
            }
        }
    }
    let nr = inr.iter().filter(|&&x| x).count();
    gcv::force_collect();
    let live = gcv::live_addrs();
    let mut alive = vec![false; n];
    let mut fresh = 0usize;
    for a in live.iter() {
        match ids.get(a) {
            Some(&i) => alive[i] = true,
            None => fresh += 1,
        }
    }
    let mut lost = 0usize;
    let mut extra = fresh;
    let mut first = "-".to_owned();
    for i in 0..n {
        if inr[i] && !alive[i] {
            if lost == 0 {
                first = crate::hex(snap[i].kind.as_bytes());
            }
            lost += 1;
        }
        if alive[i] && !inr[i] {
            extra += 1;
        }
    }
    RECS.with(|r| {
        r.borrow_mut()
            .push(format!("D {} {} {} {} {} {} {} {}", n, rooted, nr, live.len(), lost, extra, widest, first))
    });
}

fn snapshot_and_collect() {
    let snap = gcv::snapshot();
    let mut ids: HashMap<usize, usize> = HashMap::new();
    for (i, b) in snap.iter().enumerate() {
        ids.insert(b.addr, i);
    }
    let idx = NSNAP.with(|n| {
        let v = *n.borrow();
        *n.borrow_mut() = v + 1;
        v
    });
    let mut lines = Vec::with_capacity(snap.len() + 2);
    lines.push(format!("SNAP {} {}", idx, snap.len()));
    for (i, b) in snap.iter().enumerate() {
        let mut s = format!("B {} {} {}", i, crate::hex(b.kind.as_bytes()), b.num_roots);
        for set in [&b.marks, &b.blackens_black, &b.blackens_grey] {
            s.push_str(&format!(" {}", set.len()));
            for a in set.iter() {
                s.push_str(&format!(" {}", ids.get(a).copied().unwrap_or(usize::MAX)));
            }
        }
        lines.push(s);
    }
    // flush before the collection: if the real collector hangs or overflows the host stack the
    // orchestrator still sees which snapshot it was working on
    RECS.with(|r| r.borrow_mut().append(&mut lines));
    gcv::force_collect();
    let live: Vec<String> = gcv::live_addrs()
        .iter()
        .map(|a| match ids.get(a) {
            Some(i) => i.to_string(),
            None => "?".to_owned(),
        })
        .collect();
    RECS.with(|r| r.borrow_mut().push(format!("L {}", live.join(" "))));
}

fn data_addr(v: &Value) -> Option<usize> {
    macro_rules! a {
        ($g:expr) => {
            Some(&**$g as *const _ as *const u8 as usize)
        };
    }
    match v {
        Value::ObjString(g) => a!(g),
        Value::ObjStringIter(g) => a!(g),
        Value::ObjFunction(g) => a!(g),
        Value::ObjNative(g) => a!(g),
        Value::ObjClosure(g) => a!(g),
        Value::ObjClass(g) => a!(g),
        Value::ObjInstance(g) => a!(g),
        Value::ObjBoundMethod(g) => a!(g),
        Value::ObjBoundNative(g) => a!(g),
        Value::ObjTuple(g) => a!(g),
        Value::ObjTupleIter(g) => a!(g),
        Value::ObjVec(g) => a!(g),
        Value::ObjVecIter(g) => a!(g),
        Value::ObjRange(g) => a!(g),
        Value::ObjRangeIter(g) => a!(g),
        Value::ObjHashMap(g) => a!(g),
        Value::ObjModule(g) => a!(g),
        Value::ObjFiber(g) => a!(g),
        _ => None,
    }
}

fn premise() {
    let snap = gcv::snapshot();
    let n = snap.len();
    let mut ids: HashMap<usize, usize> = HashMap::new();
    for (i, b) in snap.iter().enumerate() {
        ids.insert(b.addr, i);
    }
    // marks as index sets
    let marks: Vec<std::collections::HashSet<usize>> = snap
        .iter()
        .map(|b| b.marks.iter().filter_map(|a| ids.get(a).copied()).collect())
        .collect();
    let mut reachable = vec![false; n];
    for i in 0..n {
        if snap[i].num_roots > 0 {
            reachable[i] = true;
            for &j in marks[i].iter() {
                reachable[j] = true;
            }
        }
    }
    let tags = TAGS.with(|t| t.borrow().clone());
    for (ti, &da) in tags.iter().enumerate() {
        // the box whose address is the closest one below the data address
        let mut best: Option<usize> = None;
        for (i, b) in snap.iter().enumerate() {
            if b.addr <= da && da - b.addr <= 64 && best.map_or(true, |j| snap[j].addr < b.addr) {
                best = Some(i);
            }
        }
        let x = match best {
            Some(x) => x,
            None => {
                RECS.with(|r| r.borrow_mut().push(format!("P {} gone", ti)));
                continue;
            }
        };
        let holders_of = |x: usize| -> Vec<usize> {
            (0..n)
                .filter(|&p| {
                    p != x
                        && reachable[p]
                        && marks[p].contains(&x)
                        && !marks[p]
                            .iter()
                            .any(|&q| q != x && q != p && marks[q].contains(&x) && !marks[q].contains(&p))
                })
                .collect()
        };
        let mut line = format!("P {} {} {}", ti, snap[x].num_roots, crate::hex(snap[x].kind.as_bytes()));
        let hs = holders_of(x);
        for &p in hs.iter() {
            line.push_str(&format!(" {}", crate::hex(snap[p].kind.as_bytes())));
        }
        RECS.with(|r| r.borrow_mut().push(line));
        // one level up: who holds the holders (H <tag> <type of holder> <its num_roots> <types of ITS holders>...)
        for &p in hs.iter() {
            let mut l2 = format!("H {} {} {}", ti, crate::hex(snap[p].kind.as_bytes()), snap[p].num_roots);
            for q in holders_of(p) {
                l2.push_str(&format!(" {}", crate::hex(snap[q].kind.as_bytes())));
            }
            RECS.with(|r| r.borrow_mut().push(l2));
        }
    }
}

fn c01_print(vm: &mut Vm, num_args: usize) -> Result<Value, Error> {
    if num_args != 1 {
        return Err(Error::with_message(
            ErrorKind::TypeError,
            "Expected one argument to 'print'.",
        ));
    }
    let arg = vm.native_arg(1);
    if let Value::ObjTuple(t) = arg {
        if t.elements.len() == 2 {
            if let Value::ObjString(s) = t.elements[0] {
                if s.as_str() == "@@TAG" {
                    if let Some(a) = data_addr(&t.elements[1]) {
                        TAGS.with(|t| t.borrow_mut().push(a));
                    }
                    return Ok(Value::None);
                }
            }
        }
    }
    let text = format!("{}", arg);
    if text == "@@PREMISE" {
        premise();
    } else if text == "@@C" {
        g_record();
    } else if text == "@@GC" {
        match FORCE.with(|f| f.get()) {
            1 => gcv::force_collect(),
            2 => deep_check(),
            _ => {}
        }
        g_record();
    } else if text == "@@SNAP" {
        snapshot_and_collect();
    } else {
        crate::OUTPUT.with(|o| o.borrow_mut().push(text));
    }
    Ok(Value::None)
}

fn cmd_c01run(args: &[&str], out: &mut Vec<String>) {
    let o = crate::parse_opts(args[0]);
    let snap_end = args[0].split(',').any(|kv| kv == "snap_end=1");
    FORCE.with(|f| f.set(force_opt(args[0])));
    let src = crate::unhex_str(args[1]);
    crate::MODULES.with(|m| {
        let mut m = m.borrow_mut();
        m.clear();
        for a in &args[2..] {
            let mut it = a.splitn(2, '=');
            let name = crate::unhex_str(it.next().unwrap());
            let src = crate::unhex_str(it.next().unwrap_or("-"));
            m.insert(name, src);
        }
    });
    RECS.with(|r| r.borrow_mut().clear());
    TAGS.with(|t| t.borrow_mut().clear());
    NSNAP.with(|n| *n.borrow_mut() = 0);
    gcv::set_deref_check(Some(crate::deref_check));
    let mut vm = crate::new_vm();
    vm.set_printer(c01_print);
    crate::setup(&o);
    gcv::take_alloc_log();
    let inv = inv_begin(args[0]);
    let r = std::panic::catch_unwind(std::panic::AssertUnwindSafe(|| vm::interpret(&mut vm, src, None)));
    inv_end(inv, out);
    match r {
        Ok(r) => {
            crate::emit_result(out, &r);
            if snap_end {
                snapshot_and_collect();
            }
            out.append(&mut RECS.with(|r| std::mem::take(&mut *r.borrow_mut())));
            crate::emit_stats(out, &o);
        }
        Err(p) => {
            // keep what was recorded so far, then let main.rs report the panic
            out.append(&mut RECS.with(|r| std::mem::take(&mut *r.borrow_mut())));
            let (b, t, n, c) = gcv::stats();
            out.push(format!("S {} {} {} {}", b, t, n, c));
            for l in crate::OUTPUT.with(|o| std::mem::take(&mut *o.borrow_mut())) {
                out.push(format!("O {}", crate::hex(l.as_bytes())));
            }
            let msg = if let Some(s) = p.downcast_ref::<String>() {
                s.clone()
            } else if let Some(s) = p.downcast_ref::<&str>() {
                (*s).to_owned()
            } else {
                "panic".to_owned()
            };
            out.push(format!("R panic {}", crate::hex(msg.as_bytes())));
            // the Vm may be in any state: leak it rather than run destructors over it
            std::mem::forget(vm);
        }
    }
}

// opts `inv=1`: hook H4 (per-instruction trace) is switched on for the run and the invariant
//   "no open upvalue of the running fiber points at or above that fiber's stack top"
// is evaluated at every instruction boundary:  I <steps checked> <violating steps> [<pc> <opcode> <slot> <stack_len> of the first]
fn inv_begin(opts: &str) -> bool {
    let on = opts.split(',').any(|kv| kv == "inv=1");
    if on {
        vm::verif_trace::take_trace();
        vm::verif_trace::set_tracing(true, 400_000);
    }
    on
}

fn inv_end(on: bool, out: &mut Vec<String>) {
    if !on {
        return;
    }
    vm::verif_trace::set_tracing(false, 0);
    let trace = vm::verif_trace::take_trace();
    let mut bad = 0usize;
    let mut first = String::new();
    for st in trace.iter() {
        if let Some(slot) = st.open_upvalues.iter().find(|&&s| s >= st.stack_len as isize) {
            if bad == 0 {
                first = format!(" {} {} {} {}", st.pc, st.opcode, slot, st.stack_len);
            }
            bad += 1;
        }
    }
    out.push(format!("I {} {}{}", trace.len(), bad, first));
}

fn host_root(v: &Value) -> Option<Box<dyn Any>> {
    macro_rules! r {
        ($g:expr) => {
            Some(Box::new($g.as_root()) as Box<dyn Any>)
        };
    }
    match v {
        Value::ObjClosure(g) => r!(g),
        Value::ObjClass(g) => r!(g),
        Value::ObjInstance(g) => r!(g),
        Value::ObjVec(g) => r!(g),
        Value::ObjTuple(g) => r!(g),
        Value::ObjHashMap(g) => r!(g),
        Value::ObjFiber(g) => r!(g),
        Value::ObjModule(g) => r!(g),
        Value::ObjBoundMethod(g) => r!(g),
        Value::ObjBoundNative(g) => r!(g),
        Value::ObjVecIter(g) => r!(g),
        Value::ObjRangeIter(g) => r!(g),
        _ => None,
    }
}

fn cmd_c01seq(args: &[&str], out: &mut Vec<String>) {
    let o = crate::parse_opts(args[0]);
    let do_reset = args[1] == "reset";
    FORCE.with(|f| f.set(force_opt(args[0])));
    let name = crate::unhex_str(args[2]);
    let src1 = crate::unhex_str(args[3]);
    let src2 = crate::unhex_str(args[4]);
    crate::MODULES.with(|m| {
        let mut m = m.borrow_mut();
        m.clear();
        for a in &args[5..] {
            let mut it = a.splitn(2, '=');
            let name = crate::unhex_str(it.next().unwrap());
            let src = crate::unhex_str(it.next().unwrap_or("-"));
            m.insert(name, src);
        }
    });
    RECS.with(|r| r.borrow_mut().clear());
    TAGS.with(|t| t.borrow_mut().clear());
    NSNAP.with(|n| *n.borrow_mut() = 0);
    gcv::set_deref_check(Some(crate::deref_check));
    let mut vm = crate::new_vm();
    vm.set_printer(c01_print);
    crate::setup(&o);
    gcv::take_alloc_log();
    let inv = inv_begin(args[0]);
    let r1 = vm::interpret(&mut vm, src1, None);
    crate::emit_result(out, &r1);
    out.push("SNIP 1".to_owned());
    let mut _held: Option<Box<dyn Any>> = None;
    if do_reset {
        let v = vm.global("main", &name);
        if let Some(v) = v {
            _held = host_root(&v);
            vm.reset();
            vm.set_printer(c01_print);
            vm.set_global("main", &name, v);
            out.push(format!("KEPT {}", if _held.is_some() { 1 } else { 0 }));
        } else {
            vm.reset();
            vm.set_printer(c01_print);
            out.push("KEPT -".to_owned());
        }
    }
    let r2 = vm::interpret(&mut vm, src2, None);
    inv_end(inv, out);
    crate::emit_result(out, &r2);
    out.append(&mut RECS.with(|r| std::mem::take(&mut *r.borrow_mut())));
    crate::emit_stats(out, &o);
}

pub fn dispatch(cmd: &str, args: &[&str], out: &mut Vec<String>) -> bool {
    match cmd {
        "c01run" => {
            cmd_c01run(args, out);
            true
        }
        "c01seq" => {
            cmd_c01seq(args, out);
            true
        }
        _ => false,
    }
}
