// harness commands owned by the check of property C01 (see tools/props/C01.py)
#[allow(unused_variables)]
pub fn dispatch(cmd: &str, args: &[&str], out: &mut Vec<String>) -> bool {
    false
}
