// harness commands owned by the check of property C02 (see tools/props/C02.py)
//
// c02stack <kb> <src> : `run - <src>` on a thread whose stack has <kb> KiB (the harness's own case threads have 256 MiB,
//                      which hides host-stack exhaustion by recursive Display / == / mark that the 8 MiB main thread
//                      of the CLI does not survive).  Records as for `run`; a stack overflow kills the process.
//
// c02repl <mods|-> <snippet>... : several snippets on ONE Vm (like `repl`), with a host module table (`name=src,name=src`, hex) so that a
//                      snippet can fail inside an import; per snippet `SNIP <i>` followed by the records of `run`.
//
// c02kind <src>...   : each source defines the global `v`; answers, per source, the KIND of the value the
//                      implementation really built (variant, plus vec/tuple length or closure arity):
//                      `K <i> <variant> <n>`  |  `K <i> error`.  The plug-in checks the abstract kind tags of
//                      its value pool against this, so that the abstraction fed to NativesModel.v is
//                      computed from the implementation's values and not merely asserted by the generator.
use yarel::value::Value;

fn kind_of(v: &Value) -> (&'static str, usize) {
    match v {
        Value::Boolean(_) => ("bool", 0),
        Value::Number(_) => ("num", 0),
        Value::ObjString(s) => ("str", s.as_str().len()),
        Value::ObjStringIter(_) => ("iter", 0),
        Value::ObjFunction(_) => ("function", 0),
        Value::ObjNative(_) => ("native", 0),
        Value::ObjClosure(c) => ("closure", c.function.arity),
        Value::ObjClass(_) => ("class", 0),
        Value::ObjInstance(_) => ("instance", 0),
        Value::ObjBoundMethod(_) => ("bound", 0),
        Value::ObjBoundNative(_) => ("bound", 1),
        Value::ObjTuple(t) => ("tuple", t.elements.len()),
        Value::ObjTupleIter(_) => ("iter", 1),
        Value::ObjVec(v) => ("vec", v.borrow().elements.len()),
        Value::ObjVecIter(_) => ("iter", 2),
        Value::ObjRange(_) => ("range", 0),
        Value::ObjRangeIter(_) => ("iter", 3),
        Value::ObjHashMap(m) => ("map", m.borrow().elements.len()),
        Value::ObjModule(_) => ("module", 0),
        Value::ObjFiber(_) => ("fiber", 0),
        Value::None => ("nil", 0),
    }
}

pub fn dispatch(cmd: &str, args: &[&str], out: &mut Vec<String>) -> bool {
    match cmd {
        "c02kind" => {
            for (i, a) in args.iter().enumerate() {
                let mut vm = crate::new_vm();
                let r = yarel::vm::interpret(&mut vm, crate::unhex_str(a), None);
                match (r, vm.global("main", "v")) {
                    (Ok(_), Some(v)) => {
                        let (k, n) = kind_of(&v);
                        out.push(format!("K {} {} {}", i, k, n));
                    }
                    _ => out.push(format!("K {} error", i)),
                }
            }
            true
        }
        "c02repl" => {
            crate::MODULES.with(|m| {
                let mut m = m.borrow_mut();
                m.clear();
                if args[0] != "-" {
                    for a in args[0].split(',') {
                        let mut it = a.splitn(2, '=');
                        let name = crate::unhex_str(it.next().unwrap());
                        let src = crate::unhex_str(it.next().unwrap_or("-"));
                        m.insert(name, src);
                    }
                }
            });
            let mut vm = crate::new_vm();
            for (i, a) in args[1..].iter().enumerate() {
                out.push(format!("SNIP {}", i));
                let r = yarel::vm::interpret(&mut vm, crate::unhex_str(a), None);
                crate::emit_result(out, &r);
            }
            true
        }
        "c02stack" => {
            let kb: usize = args[0].parse().unwrap_or(8192);
            let src = crate::unhex_str(args[1]);
            let h = std::thread::Builder::new()
                .stack_size(kb << 10)
                .spawn(move || {
                    let mut lines = Vec::new();
                    let mut vm = crate::new_vm();
                    let r = yarel::vm::interpret(&mut vm, src, None);
                    crate::emit_result(&mut lines, &r);
                    lines
                })
                .unwrap();
            match h.join() {
                Ok(lines) => out.extend(lines),
                Err(p) => {
                    let msg = if let Some(s) = p.downcast_ref::<String>() {
                        s.clone()
                    } else if let Some(s) = p.downcast_ref::<&str>() {
                        (*s).to_owned()
                    } else {
                        "panic".to_owned()
                    };
                    out.push(format!("R panic {}", crate::hex(msg.as_bytes())));
                }
            }
            true
        }
        _ => false,
    }
}
