// harness commands owned by the check of property C02 (see tools/props/C02.py)
//
// c02kind <src>...   : each source defines the global `v`; answers, per source, the KIND of the value the
//                      implementation really built (variant, plus vec/tuple length or closure arity):
//                      `K <i> <variant> <n>`  |  `K <i> error`.  The plug-in checks the abstract kind tags of
//                      its value pool against this, so that the abstraction fed to NativesModel.v is
//                      computed from the implementation's values and not merely asserted by the generator.
use yarel::value::Value;

fn kind_of(v: &Value) -> (&'static str, usize) {
    match v {
        Value::Boolean(_) => ("bool", 0),
        Value::Number(_) => ("num", 0),
        Value::ObjString(s) => ("str", s.as_str().len()),
        Value::ObjStringIter(_) => ("iter", 0),
        Value::ObjFunction(_) => ("function", 0),
        Value::ObjNative(_) => ("native", 0),
        Value::ObjClosure(c) => ("closure", c.function.arity),
        Value::ObjClass(_) => ("class", 0),
        Value::ObjInstance(_) => ("instance", 0),
        Value::ObjBoundMethod(_) => ("bound", 0),
        Value::ObjBoundNative(_) => ("bound", 1),
        Value::ObjTuple(t) => ("tuple", t.elements.len()),
        Value::ObjTupleIter(_) => ("iter", 1),
        Value::ObjVec(v) => ("vec", v.borrow().elements.len()),
        Value::ObjVecIter(_) => ("iter", 2),
        Value::ObjRange(_) => ("range", 0),
        Value::ObjRangeIter(_) => ("iter", 3),
        Value::ObjHashMap(m) => ("map", m.borrow().elements.len()),
        Value::ObjModule(_) => ("module", 0),
        Value::ObjFiber(_) => ("fiber", 0),
        Value::None => ("nil", 0),
    }
}

pub fn dispatch(cmd: &str, args: &[&str], out: &mut Vec<String>) -> bool {
    match cmd {
        "c02kind" => {
            for (i, a) in args.iter().enumerate() {
                let mut vm = crate::new_vm();
                let r = yarel::vm::interpret(&mut vm, crate::unhex_str(a), None);
                match (r, vm.global("main", "v")) {
                    (Ok(_), Some(v)) => {
                        let (k, n) = kind_of(&v);
                        out.push(format!("K {} {} {}", i, k, n));
                    }
                    _ => out.push(format!("K {} error", i)),
                }
            }
            true
        }
        _ => false,
    }
}
