// harness commands owned by the check of property C03 (see tools/props/C03.py)
//
// c03 <opts> <hex src>...
//   Compiles every source with `yarel::compiler::compile` on ONE Vm (a fresh Vm costs far more than a
//   compilation, above all in the debug build) and prints, per source,
//     I <index>
//     R ok <functions> <code bytes> | R err <Kind> + M <hex message>... | R panic <hex message>
//   A panic inside one compilation is caught, reported, and the Vm is replaced.  opts: `-` or a
//   comma-separated list of `run=1` (after an Ok compilation the source is also interpreted on a
//   fresh Vm: `X ok|err <Kind>|panic <hex>`), `stack=<KiB>` (compile on a thread with that stack), `gc=default` (default here is gc=never: the property is
//   about the compiler, and the stress collector of the debug build makes Vm::with_built_ins slow).
//   The watchdog of the harness covers the whole line; the driver re-runs the sources of a line that
//   timed out one by one with `compile`.
use yarel::memory::verif as gcv;

fn count_functions(f: yarel::memory::Gc<yarel::object::ObjFunction>, n: &mut usize, bytes: &mut usize) {
    *n += 1;
    *bytes += f.chunk.code.len();
    for c in f.chunk.constants.iter() {
        if let yarel::value::Value::ObjFunction(g) = c {
            count_functions(*g, n, bytes);
        }
    }
}

// `stack=<KiB>`: the whole command runs on a thread with that stack size instead of the 256 MiB case thread of the
// harness (the CLI compiles on the 8 MiB main thread, an embedder's thread has 2 MiB by default): host recursion
// proportional to the LENGTH of the text overflows there and aborts the process (the driver sees a crash).
fn cmd_c03(args: &[&str], out: &mut Vec<String>) {
    let mut stack_kib = 0usize;
    for kv in args[0].split(',') {
        if let Some(v) = kv.strip_prefix("stack=") {
            stack_kib = v.parse().unwrap_or(0);
        }
    }
    if stack_kib == 0 {
        cmd_c03_here(args, out);
        return;
    }
    let owned: Vec<String> = args.iter().map(|a| (*a).to_owned()).collect();
    let h = std::thread::Builder::new()
        .stack_size(stack_kib << 10)
        .spawn(move || {
            let refs: Vec<&str> = owned.iter().map(|a| a.as_str()).collect();
            let mut o = Vec::new();
            cmd_c03_here(&refs, &mut o);
            o
        })
        .unwrap();
    match h.join() {
        Ok(o) => out.extend(o),
        Err(_) => out.push("R panic 6a6f696e".to_owned()),
    }
}

fn cmd_c03_here(args: &[&str], out: &mut Vec<String>) {
    let mut run = false;
    let mut policy = gcv::Policy::Never;
    for kv in args[0].split(',') {
        match kv {
            "run=1" => run = true,
            "gc=default" => policy = gcv::Policy::Default,
            _ => {}
        }
    }
    gcv::set_policy(policy);
    let mut vm = crate::new_vm();
    for (i, a) in args[1..].iter().enumerate() {
        out.push(format!("I {}", i));
        let src = crate::unhex_str(a);
        let src2 = src.clone();
        let r = std::panic::catch_unwind(std::panic::AssertUnwindSafe(|| {
            match yarel::compiler::compile(&mut vm, src, None) {
                Ok(f) => {
                    let (mut n, mut b) = (0usize, 0usize);
                    count_functions(f.as_gc(), &mut n, &mut b);
                    vec![format!("R ok {} {}", n, b)]
                }
                Err(e) => {
                    let mut v = vec![format!("R err {}", crate::kind_name(e.kind()))];
                    for m in e.messages() {
                        v.push(format!("M {}", crate::hex(m.as_bytes())));
                    }
                    v
                }
            }
        }));
        let mut ok = false;
        match r {
            Ok(v) => {
                ok = v[0].starts_with("R ok");
                out.extend(v);
            }
            Err(p) => {
                let msg = if let Some(s) = p.downcast_ref::<String>() {
                    s.clone()
                } else if let Some(s) = p.downcast_ref::<&str>() {
                    (*s).to_owned()
                } else {
                    "panic".to_owned()
                };
                out.push(format!("R panic {}", crate::hex(msg.as_bytes())));
                // the Vm may hold half-built compiler state: leak it and start afresh
                let old = std::mem::replace(&mut vm, crate::new_vm());
                std::mem::forget(old);
            }
        }
        if run && ok {
            let r = std::panic::catch_unwind(std::panic::AssertUnwindSafe(|| {
                let mut vm2 = crate::new_vm();
                let r = yarel::vm::interpret(&mut vm2, src2, None);
                crate::OUTPUT.with(|o| o.borrow_mut().clear());
                match r {
                    Ok(_) => "X ok".to_owned(),
                    Err(e) => format!("X err {}", crate::kind_name(e.kind())),
                }
            }));
            match r {
                Ok(s) => out.push(s),
                Err(p) => {
                    let msg = if let Some(s) = p.downcast_ref::<String>() {
                        s.clone()
                    } else if let Some(s) = p.downcast_ref::<&str>() {
                        (*s).to_owned()
                    } else {
                        "panic".to_owned()
                    };
                    out.push(format!("X panic {}", crate::hex(msg.as_bytes())));
                }
            }
        }
    }
}

#[allow(unused_variables)]
pub fn dispatch(cmd: &str, args: &[&str], out: &mut Vec<String>) -> bool {
    match cmd {
        "c03" => {
            cmd_c03(args, out);
            true
        }
        _ => false,
    }
}
