// harness commands owned by the check of property C04 (see tools/props/C04.py)
//
// corefns <ClassName>...
//   The functions of core.yl are not reachable through `compile`: they live in the method tables
//   of the classes that `Vm::with_built_ins` defines as globals of module "main".  For every
//   class named on the command line this walks the class's and its metaclass's `methods`
//   (instance methods; static methods and constructors) and dumps the function tree of every
//   closure found there in the format of `compile` (`F`/`C`/`LN` lines, numbering restarted per
//   tree), each tree introduced by `P <hex class> <hex method> <m|s>`.  A function reached twice
//   (inherited method tables are copies) is dumped once.
use std::collections::HashSet;

use yarel::value::Value;

fn walk_methods(
    class_name: &str,
    tag: &str,
    class: yarel::memory::Gc<yarel::object::ObjClass>,
    seen: &mut HashSet<usize>,
    out: &mut Vec<String>,
) {
    let mut entries: Vec<(String, Value)> = class
        .methods
        .iter()
        .map(|(k, v)| (k.as_str().to_owned(), *v))
        .collect();
    entries.sort_by(|a, b| a.0.cmp(&b.0));
    for (name, v) in entries {
        if let Value::ObjClosure(c) = v {
            let f = c.function;
            let key = &*f as *const yarel::object::ObjFunction as usize;
            if !seen.insert(key) {
                continue;
            }
            out.push(format!(
                "P {} {} {}",
                crate::hex(class_name.as_bytes()),
                crate::hex(name.as_bytes()),
                tag
            ));
            let mut counter = 0;
            crate::dump_function(f, out, &mut counter);
        }
    }
}

fn cmd_corefns(args: &[&str], out: &mut Vec<String>) {
    let mut vm = crate::new_vm();
    let mut seen: HashSet<usize> = HashSet::new();
    for name in args {
        match vm.global("main", name) {
            Some(Value::ObjClass(c)) => {
                out.push(format!("CLASS {} {}", crate::hex(name.as_bytes()), c.methods.len()));
                walk_methods(name, "m", c, &mut seen, out);
                walk_methods(name, "s", c.metaclass, &mut seen, out);
            }
            Some(_) => out.push(format!("NOCLASS {} not-a-class", crate::hex(name.as_bytes()))),
            None => out.push(format!("NOCLASS {} undefined", crate::hex(name.as_bytes()))),
        }
    }
    out.push("R ok".to_owned());
}

pub fn dispatch(cmd: &str, args: &[&str], out: &mut Vec<String>) -> bool {
    match cmd {
        "corefns" => {
            cmd_corefns(args, out);
            true
        }
        _ => false,
    }
}
