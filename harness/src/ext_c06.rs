// harness commands owned by the check of property C06 (see tools/props/C06.py)
//
// utrace <opts> <limit> <src>
//   Compiles <src>, dumps the function tree exactly as `compile` does (`F`/`C`/`LN` lines), then runs
//   the compiled function with the per-instruction trace of hook H4 and prints one line per
//   dispatched instruction
//     T <fiber> <fn> <pc> <opcode> <stack_len> <slot_base> <frames> <nhandlers> <hsize> <hframes> u:<slots>
//   where <fn> is the index of the running function in the dumped tree (-1: not in the tree, e.g. a
//   function of the core library), <hsize>/<hframes> are init_stack_size / frame_count of the
//   innermost exception handler (0 0 when there is none) and u: lists the slots of the open-upvalue
//   list of the running fiber in list order.  Followed by the usual O / R / M records.
use std::collections::HashMap;

use yarel::value::Value;
use yarel::vm::verif_trace as vt;

fn index_functions(
    f: yarel::memory::Gc<yarel::object::ObjFunction>,
    map: &mut HashMap<usize, usize>,
    counter: &mut usize,
) {
    let idx = *counter;
    *counter += 1;
    map.insert(&*f as *const yarel::object::ObjFunction as usize, idx);
    let chunk = f.chunk;
    for c in chunk.constants.iter() {
        if let Value::ObjFunction(g) = c {
            index_functions(*g, map, counter);
        }
    }
}

fn cmd_utrace(args: &[&str], out: &mut Vec<String>) {
    let o = crate::parse_opts(args[0]);
    let limit: usize = args[1].parse().unwrap_or(100000);
    let src = crate::unhex_str(args[2]);
    let mut vm = crate::new_vm();
    crate::setup(&o);
    let function = match yarel::compiler::compile(&mut vm, src, None) {
        Ok(f) => f,
        Err(e) => {
            crate::emit_result(out, &Err(e));
            return;
        }
    };
    let mut counter = 0;
    crate::dump_function(function.as_gc(), out, &mut counter);
    let mut map = HashMap::new();
    let mut counter = 0;
    index_functions(function.as_gc(), &mut map, &mut counter);
    vt::set_tracing(true, limit);
    let r = vm.execute(function, &[]);
    vt::set_tracing(false, 0);
    let mut ids = crate::Ids::new();
    for s in vt::take_trace() {
        let us: Vec<String> = s.open_upvalues.iter().map(|u| u.to_string()).collect();
        let (hsize, hframes) = s.handlers.last().map(|h| (h.2, h.3)).unwrap_or((0, 0));
        let f = map.get(&s.function).map(|i| *i as isize).unwrap_or(-1);
        out.push(format!(
            "T {} {} {} {} {} {} {} {} {} {} u:{}",
            ids.id(s.fiber), f, s.pc, s.opcode, s.stack_len, s.slot_base, s.frames,
            s.handlers.len(), hsize, hframes, us.join(",")
        ));
    }
    crate::emit_result(out, &r);
}

pub fn dispatch(cmd: &str, args: &[&str], out: &mut Vec<String>) -> bool {
    match cmd {
        "utrace" => {
            cmd_utrace(args, out);
            true
        }
        _ => false,
    }
}
