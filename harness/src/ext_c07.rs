// harness commands owned by the check of property C07 (see tools/props/C07.py)
//
// classes <opts> <src> <global name (hex)>...
//   Runs the program (records O / R / M as `run`), then dumps every class object reachable from the named
//   globals of module "main": a global that is a class; the class of a global instance, the values of its
//   fields (recursively) and the receiver of a bound method; the `superclass` chain of every class found.
//   One record per distinct class object, in discovery order:
//     CL <hex name> <hex superclass name | -> <hex metaclass name> <methods> <metaclass methods>
//   where a method table is `-` when empty, else `<hex key>=<identity>,...` sorted by key, and the identity
//   of a method value is `native` or `<hex function name>/<arity>/<line of the first instruction>`; for the functions of
//   core.yl (those found in the method tables of the built-in classes BEFORE the program runs) the line is replaced by `core`.
use std::collections::HashSet;

use yarel::memory::Gc;
use yarel::object::ObjClass;
use yarel::value::Value;

thread_local! {
    static CORE_FNS: std::cell::RefCell<HashSet<usize>> = std::cell::RefCell::new(HashSet::new());
}

const CORE_CLASSES: [&str; 28] = [
    "Object", "Type", "Error", "RuntimeError", "AttributeError", "IndexError", "ImportError", "NameError", "TypeError",
    "ValueError", "StopIter", "Iter", "MapIter", "FilterIter", "Vec", "VecIter", "String", "StringIter", "Tuple",
    "TupleIter", "Range", "RangeIter", "HashMap", "Fiber", "Num", "Boolean", "Nil", "Module",
];

fn collect_core(vm: &mut yarel::vm::Vm) {
    let mut set = HashSet::new();
    for name in CORE_CLASSES.iter() {
        if let Some(Value::ObjClass(c)) = vm.global("main", name) {
            for cl in [c, c.metaclass] {
                for (_, v) in cl.methods.iter() {
                    if let Value::ObjClosure(f) = v {
                        set.insert(&*f.function as *const yarel::object::ObjFunction as usize);
                    }
                }
            }
        }
    }
    CORE_FNS.with(|c| *c.borrow_mut() = set);
}

fn table(c: Gc<ObjClass>) -> String {
    let mut entries: Vec<(String, String)> = c
        .methods
        .iter()
        .map(|(k, v)| {
            let id = match v {
                Value::ObjClosure(cl) => {
                    let f = cl.function;
                    let key = &*f as *const yarel::object::ObjFunction as usize;
                    if CORE_FNS.with(|c| c.borrow().contains(&key)) {
                        format!("{}/{}/core", crate::hex(f.name.as_str().as_bytes()), f.arity)
                    } else {
                        let line = if f.chunk.code.is_empty() { 0 } else { f.chunk.lines[0] };
                        format!("{}/{}/{}", crate::hex(f.name.as_str().as_bytes()), f.arity, line)
                    }
                }
                Value::ObjNative(_) => "native".to_owned(),
                _ => "other".to_owned(),
            };
            (k.as_str().to_owned(), id)
        })
        .collect();
    entries.sort();
    if entries.is_empty() {
        return "-".to_owned();
    }
    entries
        .iter()
        .map(|(k, id)| format!("{}={}", crate::hex(k.as_bytes()), id))
        .collect::<Vec<_>>()
        .join(",")
}

fn visit_class(c: Gc<ObjClass>, seen: &mut HashSet<usize>, out: &mut Vec<String>) {
    let key = &*c as *const ObjClass as usize;
    if !seen.insert(key) {
        return;
    }
    let sup = match c.superclass {
        Some(s) => crate::hex(s.name.as_str().as_bytes()),
        None => "-".to_owned(),
    };
    out.push(format!(
        "CL {} {} {} {} {}",
        crate::hex(c.name.as_str().as_bytes()),
        sup,
        crate::hex(c.metaclass.name.as_str().as_bytes()),
        table(c),
        table(c.metaclass)
    ));
    if let Some(s) = c.superclass {
        visit_class(s, seen, out);
    }
}

fn visit_value(v: Value, seen: &mut HashSet<usize>, seen_inst: &mut HashSet<usize>, out: &mut Vec<String>, depth: usize) {
    if depth > 16 {
        return;
    }
    match v {
        Value::ObjClass(c) => visit_class(c, seen, out),
        Value::ObjInstance(i) => {
            let key = i.as_ptr() as usize;
            if !seen_inst.insert(key) {
                return;
            }
            let (class, vals): (Gc<ObjClass>, Vec<Value>) = {
                let b = i.borrow();
                (b.class, b.fields.values().copied().collect())
            };
            visit_class(class, seen, out);
            for f in vals {
                visit_value(f, seen, seen_inst, out, depth + 1);
            }
        }
        Value::ObjBoundMethod(b) => {
            let r = b.borrow().receiver;
            visit_value(r, seen, seen_inst, out, depth + 1);
        }
        Value::ObjBoundNative(b) => {
            let r = b.borrow().receiver;
            visit_value(r, seen, seen_inst, out, depth + 1);
        }
        _ => {}
    }
}

fn cmd_classes(args: &[&str], out: &mut Vec<String>) {
    let o = crate::parse_opts(args[0]);
    let src = crate::unhex_str(args[1]);
    crate::gcv::set_deref_check(Some(crate::deref_check));
    let mut vm = crate::new_vm();
    collect_core(&mut vm);
    crate::setup(&o);
    let r = yarel::vm::interpret(&mut vm, src, None);
    crate::emit_result(out, &r);
    let mut seen: HashSet<usize> = HashSet::new();
    let mut seen_inst: HashSet<usize> = HashSet::new();
    for a in &args[2..] {
        let name = crate::unhex_str(a);
        if let Some(v) = vm.global("main", &name) {
            visit_value(v, &mut seen, &mut seen_inst, out, 0);
        }
    }
}

pub fn dispatch(cmd: &str, args: &[&str], out: &mut Vec<String>) -> bool {
    match cmd {
        "classes" => {
            cmd_classes(args, out);
            true
        }
        _ => false,
    }
}
