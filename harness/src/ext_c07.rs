// harness commands owned by the check of property C07 (see tools/props/C07.py)
#[allow(unused_variables)]
pub fn dispatch(cmd: &str, args: &[&str], out: &mut Vec<String>) -> bool {
    false
}
