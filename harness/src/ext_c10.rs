// harness commands owned by the check of property C10 (see tools/props/C10.py)
//
// c10reuse <src> : runs the program like `run` with the allocation log of hook H1 on, then answers, besides the records of
//                  `run`, one line `RU <allocations> <reused> <class_reused>`: how many managed allocations of the run were
//                  placed at an address an EARLIER managed allocation of the same run had (the earlier box was reclaimed and
//                  the system allocator handed the block out again), and how many of those were class objects.  Used only as
//                  evidence that the "identity of a dead object reused" programs really meet address reuse in this build.
use std::collections::HashSet;

use yarel::memory::verif as gcv;

pub fn dispatch(cmd: &str, args: &[&str], out: &mut Vec<String>) -> bool {
    match cmd {
        "c10reuse" => {
            let src = crate::unhex_str(args[0]);
            let mut vm = crate::new_vm();
            gcv::set_logging(true);
            gcv::take_alloc_log();
            let r = yarel::vm::interpret(&mut vm, src, None);
            crate::emit_result(out, &r);
            let log = gcv::take_alloc_log();
            gcv::set_logging(false);
            let mut seen: HashSet<usize> = HashSet::new();
            let (mut reused, mut class_reused) = (0usize, 0usize);
            for rec in &log {
                if !seen.insert(rec.addr) {
                    reused += 1;
                    if rec.kind.contains("ObjClass") {
                        class_reused += 1;
                    }
                }
            }
            out.push(format!("RU {} {} {}", log.len(), reused, class_reused));
            true
        }
        _ => false,
    }
}
