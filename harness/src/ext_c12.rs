// harness commands owned by the check of property C12 (see tools/props/C12.py)
//
//   c12vals [p<hex prelude source>] <item>...
//       ONE Vm for the whole line; the items are built left to right and all stay rooted until the end.
//       item := z (nil) | f | t | n<bits, decimal> | s<hex utf8> | c<hex name>   (class: global of module "main")
//             | r<begin>:<end>     (Vm::new_root_obj_range: goes through the 8-entry range cache)
//             | (<item>,<item>..)  (a NEW tuple; `()` is the empty tuple)
//             | v (a new vector) | m (a new hash map) | @<i> (the i-th top-level item again: same object)
//       Records:
//         V <i> <hash | P> <hex display>     the argument of the single `write_u64` that `Hash::hash` performs on a
//                                            recording hasher; P = the call panicked (unhashable)
//         H <i> <1|0|?> <hex message|->      has_hash, observed through `{x: 1}` with the global x set to the value:
//                                            1 = literal built, 0 = ValueError (with its message), ? = anything else
//         E <i> <0/1 string>                 value i == value j for every j (Value::eq)
use std::any::Any;
use std::hash::{Hash, Hasher};

use yarel::value::Value;
use yarel::vm;

#[derive(Default)]
struct Recorder {
    u64s: Vec<u64>,
    other: usize,
}

impl Hasher for Recorder {
    fn write(&mut self, _bytes: &[u8]) {
        self.other += 1;
    }
    fn write_u64(&mut self, v: u64) {
        self.u64s.push(v);
    }
    fn finish(&self) -> u64 {
        *self.u64s.last().unwrap_or(&0)
    }
}

struct Builder {
    roots: Vec<Box<dyn Any>>,
    top: Vec<Value>,
}

fn parse_item(vm: &mut vm::Vm, b: &mut Builder, s: &[u8], pos: &mut usize) -> Value {
    let c = s[*pos];
    *pos += 1;
    let take_while = |pos: &mut usize, f: &dyn Fn(u8) -> bool| -> String {
        let st = *pos;
        while *pos < s.len() && f(s[*pos]) {
            *pos += 1;
        }
        String::from_utf8(s[st..*pos].to_vec()).unwrap()
    };
    match c {
        b'z' => Value::None,
        b'f' => Value::Boolean(false),
        b't' => Value::Boolean(true),
        b'n' => {
            let d = take_while(pos, &|c| c.is_ascii_digit());
            Value::Number(f64::from_bits(d.parse::<u64>().expect("bits")))
        }
        b's' => {
            let h = take_while(pos, &|c| c.is_ascii_hexdigit());
            let text = String::from_utf8(crate::unhex(&h)).expect("utf8");
            Value::ObjString(vm.new_gc_obj_string(&text))
        }
        b'c' => {
            let h = take_while(pos, &|c| c.is_ascii_hexdigit());
            let name = String::from_utf8(crate::unhex(&h)).expect("utf8");
            vm.global("main", &name).expect("no such global")
        }
        b'r' => {
            let a = take_while(pos, &|c| c.is_ascii_digit() || c == b'-');
            assert!(s[*pos] == b':');
            *pos += 1;
            let e = take_while(pos, &|c| c.is_ascii_digit() || c == b'-');
            let r = vm.new_root_obj_range(a.parse().expect("begin"), e.parse().expect("end"));
            let v = Value::ObjRange(r.as_gc());
            b.roots.push(Box::new(r));
            v
        }
        b'(' => {
            let mut elems = Vec::new();
            if s[*pos] == b')' {
                *pos += 1;
            } else {
                loop {
                    elems.push(parse_item(vm, b, s, pos));
                    let d = s[*pos];
                    *pos += 1;
                    if d == b')' {
                        break;
                    }
                    assert!(d == b',');
                }
            }
            let r = vm.new_root_obj_tuple(elems);
            let v = Value::ObjTuple(r.as_gc());
            b.roots.push(Box::new(r));
            v
        }
        b'v' => {
            let r = vm.new_root_obj_vec();
            let v = Value::ObjVec(r.as_gc());
            b.roots.push(Box::new(r));
            v
        }
        b'm' => {
            let r = vm.new_root_obj_hash_map();
            let v = Value::ObjHashMap(r.as_gc());
            b.roots.push(Box::new(r));
            v
        }
        b'@' => {
            let d = take_while(pos, &|c| c.is_ascii_digit());
            b.top[d.parse::<usize>().expect("index")]
        }
        other => panic!("c12vals: bad item code {}", other as char),
    }
}

fn cmd_vals(args: &[&str], out: &mut Vec<String>) {
    let mut vm = crate::new_vm();
    let mut b = Builder { roots: Vec::new(), top: Vec::new() };
    for a in args {
        if let Some(h) = a.strip_prefix('p') {
            // prelude: a yarel snippet run first (defines the globals that `c<name>` items look up)
            let r = vm::interpret(&mut vm, crate::unhex_str(h), None);
            if let Err(e) = r {
                out.push(format!("? prelude failed: {}", e));
            }
            continue;
        }
        let mut pos = 0usize;
        let v = parse_item(&mut vm, &mut b, a.as_bytes(), &mut pos);
        assert!(pos == a.len(), "c12vals: trailing text in item");
        b.top.push(v);
    }
    for (i, v) in b.top.iter().enumerate() {
        let v = *v;
        let r = std::panic::catch_unwind(std::panic::AssertUnwindSafe(|| {
            let mut h = Recorder::default();
            v.hash(&mut h);
            h
        }));
        let hs = match r {
            Ok(h) if h.u64s.len() == 1 && h.other == 0 => h.u64s[0].to_string(),
            Ok(h) => format!("?{}/{}", h.u64s.len(), h.other),
            Err(_) => "P".to_owned(),
        };
        out.push(format!("V {} {} {}", i, hs, crate::hex(format!("{}", v).as_bytes())));
    }
    for (i, v) in b.top.iter().enumerate() {
        vm.set_global("main", "x", *v);
        let r = vm::interpret(&mut vm, "var q = {x: 1};".to_owned(), None);
        match r {
            Ok(_) => out.push(format!("H {} 1 -", i)),
            Err(e) if matches!(e.kind(), yarel::error::ErrorKind::ValueError) => {
                let m = e.messages().first().cloned().unwrap_or_default();
                out.push(format!("H {} 0 {}", i, crate::hex(m.as_bytes())));
            }
            Err(e) => out.push(format!("H {} ? {}", i, crate::hex(crate::kind_name(e.kind()).as_bytes()))),
        }
    }
    vm.set_global("main", "x", Value::None);
    for (i, v) in b.top.iter().enumerate() {
        let row: String = b.top.iter().map(|w| if *v == *w { '1' } else { '0' }).collect();
        out.push(format!("E {} {}", i, row));
    }
}

pub fn dispatch(cmd: &str, args: &[&str], out: &mut Vec<String>) -> bool {
    match cmd {
        "c12vals" => cmd_vals(args, out),
        _ => return false,
    }
    true
}
