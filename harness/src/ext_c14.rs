// harness commands owned by the check of property C14 (see tools/props/C14.py)
//
// compilemod <hex path> <hex src>
//   What `compiler::compile(vm, src, Some(path))` (the call made by start_import_impl) returns for a
//   module source: `R ok` or `R err <Kind>` + one `M <hex message>` per message.  The messages of the
//   deliberately uncompilable module sources are the compiler oracle of the Mechanism model.
pub fn dispatch(cmd: &str, args: &[&str], out: &mut Vec<String>) -> bool {
    match cmd {
        "compilemod" => {
            let path = crate::unhex_str(args[0]);
            let src = crate::unhex_str(args[1]);
            let mut vm = crate::new_vm();
            match yarel::compiler::compile(&mut vm, src, Some(&path)) {
                Ok(_) => out.push("R ok".to_owned()),
                Err(e) => {
                    out.push(format!("R err {}", crate::kind_name(e.kind())));
                    for m in e.messages() {
                        out.push(format!("M {}", crate::hex(m.as_bytes())));
                    }
                }
            }
            true
        }
        _ => false,
    }
}
