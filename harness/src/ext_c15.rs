// harness commands owned by the check of property C15 (see tools/props/C15.py)
//
// replmods <opts> <item>...      item = <hex snippet> | RESET | FRESH | NAMES:<hex>,<hex>,… | <hex name>=<hex src>
//   One Vm, the snippets in order (as the REPL of yarel-cli does), with the host module loader serving the
//   NAMES: answers `G <hex name> <0|1>` per name: is it a global of module main now.
//   `name=src` items (which may appear anywhere on the line; the whole map is installed before the first
//   snippet).  FRESH drops the Vm and creates a new one (the reference for "after a reset the interpreter is
//   indistinguishable from a newly created one").  After every item: `SNIP i`, the O/R/M records, the modules
//   the loader was asked for (`LOAD hex`), and the H5 record `CS …`.  A panic inside a snippet is caught per
//   snippet (`R panic hex`) and ends the history: the records of the earlier snippets survive.
use crate::{emit_carried, emit_result, hex, new_vm, parse_opts, setup, unhex_str, LOADS, MODULES, OUTPUT};
use yarel::memory::verif as gcv;
use yarel::vm;

fn cmd_replmods(args: &[&str], out: &mut Vec<String>) {
    let o = parse_opts(args[0]);
    MODULES.with(|m| {
        let mut m = m.borrow_mut();
        m.clear();
        for a in &args[1..] {
            if let Some(p) = a.find('=') {
                m.insert(unhex_str(&a[..p]), unhex_str(&a[p + 1..]));
            }
        }
    });
    LOADS.with(|l| l.borrow_mut().clear());
    gcv::set_deref_check(Some(crate::deref_check));
    let mut vm = new_vm();
    setup(&o);
    let mut i = 0usize;
    for a in args[1..].iter() {
        if a.contains('=') {
            continue;
        }
        out.push(format!("SNIP {}", i));
        i += 1;
        if *a == "RESET" {
            vm.reset();
            out.push("R reset".to_owned());
            emit_carried(out, &vm);
            continue;
        }
        if let Some(list) = a.strip_prefix("NAMES:") {
            // which of these names are globals of module main right now
            out.push("R names".to_owned());
            for n in list.split(',').filter(|n| !n.is_empty()) {
                let name = unhex_str(n);
                out.push(format!("G {} {}", n, if vm.global("main", &name).is_some() { 1 } else { 0 }));
            }
            continue;
        }
        if *a == "FRESH" {
            vm = new_vm();
            out.push("R fresh".to_owned());
            emit_carried(out, &vm);
            continue;
        }
        let src = unhex_str(a);
        let r = std::panic::catch_unwind(std::panic::AssertUnwindSafe(|| vm::interpret(&mut vm, src, None)));
        match r {
            Ok(r) => {
                emit_result(out, &r);
                for l in LOADS.with(|l| std::mem::take(&mut *l.borrow_mut())) {
                    out.push(format!("LOAD {}", hex(l.as_bytes())));
                }
                emit_carried(out, &vm);
            }
            Err(p) => {
                let msg = if let Some(s) = p.downcast_ref::<String>() {
                    s.clone()
                } else if let Some(s) = p.downcast_ref::<&str>() {
                    (*s).to_owned()
                } else {
                    "panic".to_owned()
                };
                for line in OUTPUT.with(|o| std::mem::take(&mut *o.borrow_mut())) {
                    out.push(format!("O {}", hex(line.as_bytes())));
                }
                out.push(format!("R panic {}", hex(msg.as_bytes())));
                // the Vm may be in any state: do not touch it again (leak it, its Drop could panic too)
                std::mem::forget(vm);
                return;
            }
        }
    }
}

pub fn dispatch(cmd: &str, args: &[&str], out: &mut Vec<String>) -> bool {
    match cmd {
        "replmods" => {
            cmd_replmods(args, out);
            true
        }
        _ => false,
    }
}
