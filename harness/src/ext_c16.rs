// harness commands owned by the check of property C16 (see tools/props/C16.py)
//
// c16 <opts> <src>      opts: log=1,probe=1,dropvm=1,gc=...   (comma separated, `-` for none)
//   Logging is switched on BEFORE the Vm is built, so the allocation log starts at the birth of this
//   thread's heap (bytes 0, threshold HEAP_INIT_BYTES_MAX).  Records:
//     B <n>                                   number of log records written by Vm::with_built_ins (start-up)
//     O/R/M                                   as for `run`
//     P bytes threshold nobjects collections true_bytes   one per call of the native `heap_probe()`;
//                                             true_bytes = sum over live boxes of size_of (kind sizes from the log)
//     -- then the result value is dropped and a collection is forced --
//     S bytes threshold nobjects collections  after the forced collection
//     T true_bytes                            sum of the sizes of the boxes then in the heap
//     TI indep_bytes unknown_boxes            the same sum with size_of::<T>() taken HERE (table `indep_size` below: the payload
//                                             types of value.rs + Chunk/ObjUpvalue), not from the size the allocator logged;
//                                             unknown_boxes = live boxes of a kind the table does not know (counted with the logged size).
//                                             The P records carry the same two numbers as 6th and 7th field.
//     K kind=count...                         live boxes by kind
//     RK kind=count...                        boxes with num_roots > 0 by kind (snapshot), Vm still alive
//     RS rooted_boxes sum_num_roots max_num_roots
//     A size bytes_before threshold_before collected bytes_after threshold_after   (log=1) whole log
//     D nobjects bytes rooted_boxes           (dropvm=1) after dropping the Vm and collecting again
use std::cell::RefCell;
use std::collections::HashMap;

use yarel::error::{Error, ErrorKind};
use yarel::memory::verif as gcv;
use yarel::value::Value;
use yarel::vm::{self, Vm};

thread_local! {
    static LOG: RefCell<Vec<gcv::AllocRecord>> = RefCell::new(Vec::new());
    static SIZES: RefCell<HashMap<&'static str, usize>> = RefCell::new(HashMap::new());
    static PROBES: RefCell<Vec<String>> = RefCell::new(Vec::new());
}

fn drain_log() {
    let recs = gcv::take_alloc_log();
    SIZES.with(|s| {
        let mut s = s.borrow_mut();
        for r in &recs {
            s.insert(r.kind, r.size);
        }
    });
    LOG.with(|l| l.borrow_mut().extend(recs));
}

fn true_bytes() -> usize {
    drain_log();
    SIZES.with(|s| {
        let s = s.borrow();
        gcv::object_kinds()
            .iter()
            .map(|(k, n)| s.get(k).copied().unwrap_or(0) * n)
            .sum()
    })
}

// size_of of every payload type the Vm allocates, computed here (independent of `allocate_raw`'s own idea of the size)
fn indep_size(kind: &str) -> Option<usize> {
    use std::any::type_name as tn;
    use std::mem::size_of as sz;
    use yarel::chunk::Chunk;
    use yarel::object::*;
    macro_rules! table {
        ($($t:ty),* $(,)?) => { [$((tn::<$t>(), sz::<$t>())),*] };
    }
    let t = table![
        ObjString, RefCell<ObjStringIter>, ObjFunction, ObjNative, ObjClosure, ObjClass, RefCell<ObjInstance>,
        RefCell<ObjBoundMethod<ObjClosure>>, RefCell<ObjBoundMethod<ObjNative>>, ObjTuple, RefCell<ObjTupleIter>,
        RefCell<ObjVec>, RefCell<ObjVecIter>, ObjRange, RefCell<ObjRangeIter>, RefCell<ObjHashMap>,
        RefCell<ObjModule>, RefCell<ObjFiber>, RefCell<ObjUpvalue>, Chunk,
    ];
    t.iter().find(|(k, _)| *k == kind).map(|(_, s)| *s)
}

fn indep_bytes() -> (usize, usize) {
    drain_log();
    SIZES.with(|s| {
        let s = s.borrow();
        let (mut bytes, mut unknown) = (0usize, 0usize);
        for (k, n) in gcv::object_kinds() {
            match indep_size(k) {
                Some(sz) => bytes += sz * n,
                None => {
                    bytes += s.get(k).copied().unwrap_or(0) * n;
                    unknown += n;
                }
            }
        }
        (bytes, unknown)
    })
}

fn heap_probe(_vm: &mut Vm, _num_args: usize) -> Result<Value, Error> {
    let (b, t, n, c) = gcv::stats();
    let tb = true_bytes();
    let (ib, unk) = indep_bytes();
    PROBES.with(|p| p.borrow_mut().push(format!("P {} {} {} {} {} {} {}", b, t, n, c, tb, ib, unk)));
    Ok(Value::None)
}

// module loader of `c16`: `throwing_*` loads and throws at top level after building heap data and a function,
// `broken_*` does not compile, `fine_*` loads, everything else is not found
fn c16_loader(path: &str) -> Result<String, Error> {
    let name = path.rsplit('/').next().unwrap_or(path);
    if name.starts_with("throwing_") {
        Ok("var big = [1, 2, 3]; fn f() { return big; } var c = || big; throw (big, f, c);".to_owned())
    } else if name.starts_with("broken_") {
        Ok("var big = [1, 2, 3]; var = ;".to_owned())
    } else if name.starts_with("fine_") {
        Ok("var big = [1, 2, 3]; fn f() { return big; }".to_owned())
    } else {
        Err(Error::with_message(
            ErrorKind::ImportError,
            &format!("Unable to read file '{}.yl' (file not found).", path),
        ))
    }
}

fn kinds_line(tag: &str, kinds: &[(&'static str, usize)]) -> String {
    let parts: Vec<String> = kinds
        .iter()
        .map(|(k, n)| format!("{}={}", crate::hex(k.as_bytes()), n))
        .collect();
    format!("{} {}", tag, parts.join(" "))
}

fn cmd_c16(args: &[&str], out: &mut Vec<String>) {
    let optstr = args[0];
    let o = crate::parse_opts(optstr);
    let has = |k: &str| optstr.split(',').any(|x| x == k);
    let src = crate::unhex_str(args[1]);
    gcv::set_deref_check(Some(crate::deref_check));
    gcv::set_logging(true);
    gcv::take_alloc_log();
    let mut vm = crate::new_vm();
    vm.set_module_loader(c16_loader);
    vm.define_native("main", "heap_probe", heap_probe);
    drain_log();
    out.push(format!("B {}", LOG.with(|l| l.borrow().len())));
    gcv::set_policy(o.gc);
    {
        let r = vm::interpret(&mut vm, src, None);
        crate::emit_result(out, &r);
        // r (a Value or an Error) is dropped here: no host handle but the Vm is left
    }
    for p in PROBES.with(|p| std::mem::take(&mut *p.borrow_mut())) {
        out.push(p);
    }
    gcv::set_policy(gcv::Policy::Default);
    gcv::force_collect();
    let (b, t, n, c) = gcv::stats();
    out.push(format!("S {} {} {} {}", b, t, n, c));
    out.push(format!("T {}", true_bytes()));
    let (ib, unk) = indep_bytes();
    out.push(format!("TI {} {}", ib, unk));
    out.push(kinds_line("K", &gcv::object_kinds()));
    let snap = gcv::snapshot();
    let mut rooted: HashMap<&'static str, usize> = HashMap::new();
    let (mut nrooted, mut sum, mut max) = (0usize, 0usize, 0usize);
    for bx in &snap {
        if bx.num_roots > 0 {
            *rooted.entry(bx.kind).or_insert(0) += 1;
            nrooted += 1;
            sum = sum.wrapping_add(bx.num_roots);
            max = max.max(bx.num_roots);
        }
    }
    let mut rk: Vec<_> = rooted.into_iter().collect();
    rk.sort();
    out.push(kinds_line("RK", &rk));
    out.push(format!("RS {} {} {}", nrooted, sum, max));
    drain_log();
    if has("log=1") {
        LOG.with(|l| {
            for r in l.borrow().iter() {
                out.push(format!(
                    "A {} {} {} {} {} {}",
                    r.size,
                    r.bytes_before,
                    r.threshold_before,
                    if r.collected { 1 } else { 0 },
                    r.bytes_after,
                    r.threshold_after
                ));
            }
        });
    }
    if has("dropvm=1") {
        drop(vm);
        gcv::force_collect();
        let (b, _t, n, _c) = gcv::stats();
        let rooted = gcv::snapshot().iter().filter(|x| x.num_roots > 0).count();
        out.push(format!("D {} {} {}", n, b, rooted));
    }
    gcv::set_logging(false);
}

#[allow(unused_variables)]
pub fn dispatch(cmd: &str, args: &[&str], out: &mut Vec<String>) -> bool {
    match cmd {
        "c16" => {
            cmd_c16(args, out);
            true
        }
        _ => false,
    }
}
