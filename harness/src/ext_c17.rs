// harness commands owned by the check of property C17 (see tools/props/C17.py)
#[allow(unused_variables)]
pub fn dispatch(cmd: &str, args: &[&str], out: &mut Vec<String>) -> bool {
    false
}
