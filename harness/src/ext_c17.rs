// harness commands owned by the check of property C17 (see tools/props/C17.py)
//
// c17 <opts> <main src> <name>=<src>...
//   like `mods`, but module "main" also has host natives that fail with every ErrorKind:
//     raise_AttributeError() raise_CompileError() raise_ImportError() raise_IndexError() raise_NameError()
//     raise_RuntimeError() raise_TypeError() raise_ValueError()   -> Err(Error::with_message(kind, "boom"))
//     raise_multi()   -> Err(Error::with_messages(TypeError, ["boom", "bam"]))  (two messages: context "boom\nbam")
//     raise_ok()      -> Ok(nil)
//   Records: O/R/M as for `run`.
use yarel::error::{Error, ErrorKind};
use yarel::value::Value;
use yarel::vm::{self, Vm};

macro_rules! raiser {
    ($name:ident, $kind:ident) => {
        fn $name(_vm: &mut Vm, _n: usize) -> Result<Value, Error> {
            Err(Error::with_message(ErrorKind::$kind, "boom"))
        }
    };
}
raiser!(raise_attribute, AttributeError);
raiser!(raise_compile, CompileError);
raiser!(raise_import, ImportError);
raiser!(raise_index, IndexError);
raiser!(raise_name, NameError);
raiser!(raise_runtime, RuntimeError);
raiser!(raise_type, TypeError);
raiser!(raise_value, ValueError);

fn raise_multi(_vm: &mut Vm, _n: usize) -> Result<Value, Error> {
    Err(Error::with_messages(ErrorKind::TypeError, &["boom", "bam"]))
}

fn raise_ok(_vm: &mut Vm, _n: usize) -> Result<Value, Error> {
    Ok(Value::None)
}

fn cmd_c17(args: &[&str], out: &mut Vec<String>) {
    let o = crate::parse_opts(args[0]);
    crate::MODULES.with(|m| {
        let mut m = m.borrow_mut();
        m.clear();
        for a in &args[2..] {
            let mut it = a.splitn(2, '=');
            let name = crate::unhex_str(it.next().unwrap());
            let src = crate::unhex_str(it.next().unwrap_or(""));
            m.insert(name, src);
        }
    });
    let mut vm = crate::new_vm();
    crate::setup(&o);
    vm.define_native("main", "raise_AttributeError", raise_attribute);
    vm.define_native("main", "raise_CompileError", raise_compile);
    vm.define_native("main", "raise_ImportError", raise_import);
    vm.define_native("main", "raise_IndexError", raise_index);
    vm.define_native("main", "raise_NameError", raise_name);
    vm.define_native("main", "raise_RuntimeError", raise_runtime);
    vm.define_native("main", "raise_TypeError", raise_type);
    vm.define_native("main", "raise_ValueError", raise_value);
    vm.define_native("main", "raise_multi", raise_multi);
    vm.define_native("main", "raise_ok", raise_ok);
    let r = vm::interpret(&mut vm, crate::unhex_str(args[1]), None);
    crate::emit_result(out, &r);
    crate::LOADS.with(|l| l.borrow_mut().clear());
}

pub fn dispatch(cmd: &str, args: &[&str], out: &mut Vec<String>) -> bool {
    match cmd {
        "c17" => {
            cmd_c17(args, out);
            true
        }
        _ => false,
    }
}
