// harness commands owned by the check of property C17 (see tools/props/C17.py)
//
// c17 <opts> <main src> <name>=<src>...
//   like `mods`, but module "main" also has host natives that fail with every ErrorKind:
//     raise_AttributeError() raise_CompileError() raise_ImportError() raise_IndexError() raise_NameError()
//     raise_RuntimeError() raise_TypeError() raise_ValueError()   -> Err(Error::with_message(kind, "boom"))
//     raise_multi()   -> Err(Error::with_messages(TypeError, ["boom", "bam"]))  (two messages: context "boom\nbam")
//     raise_ok()      -> Ok(nil)
//   Records: O/R/M as for `run`.
//
// c17fs <opts> <main src> <item>...
//   runs main with the DEFAULT file-system module loader (Vm::with_built_ins() WITHOUT set_module_loader) inside a fresh
//   temporary directory (under the system temp dir, removed afterwards; the process's current directory is switched to
//   it for the run and restored).  items, paths relative to that directory, hex:
//     f:<path>=<content>   a file (any bytes; parent directories are created)
//     d:<path>             a directory
//     x:<path>=<content>   a file with mode 000; record `X readable` when the mode does not stop this process (root)
//   Records: O/R/M as for `run`; `X readable` (see above); `E <hex>` when the directory could not be prepared.
//   (Also useful for C14: module loading through the real loader.)
use yarel::error::{Error, ErrorKind};
use yarel::value::Value;
use yarel::vm::{self, Vm};

macro_rules! raiser {
    ($name:ident, $kind:ident) => {
        fn $name(_vm: &mut Vm, _n: usize) -> Result<Value, Error> {
            Err(Error::with_message(ErrorKind::$kind, "boom"))
        }
    };
}
raiser!(raise_attribute, AttributeError);
raiser!(raise_compile, CompileError);
raiser!(raise_import, ImportError);
raiser!(raise_index, IndexError);
raiser!(raise_name, NameError);
raiser!(raise_runtime, RuntimeError);
raiser!(raise_type, TypeError);
raiser!(raise_value, ValueError);

fn raise_multi(_vm: &mut Vm, _n: usize) -> Result<Value, Error> {
    Err(Error::with_messages(ErrorKind::TypeError, &["boom", "bam"]))
}

fn raise_ok(_vm: &mut Vm, _n: usize) -> Result<Value, Error> {
    Ok(Value::None)
}

fn cmd_c17(args: &[&str], out: &mut Vec<String>) {
    let o = crate::parse_opts(args[0]);
    crate::MODULES.with(|m| {
        let mut m = m.borrow_mut();
        m.clear();
        for a in &args[2..] {
            let mut it = a.splitn(2, '=');
            let name = crate::unhex_str(it.next().unwrap());
            let src = crate::unhex_str(it.next().unwrap_or(""));
            m.insert(name, src);
        }
    });
    let mut vm = crate::new_vm();
    crate::setup(&o);
    vm.define_native("main", "raise_AttributeError", raise_attribute);
    vm.define_native("main", "raise_CompileError", raise_compile);
    vm.define_native("main", "raise_ImportError", raise_import);
    vm.define_native("main", "raise_IndexError", raise_index);
    vm.define_native("main", "raise_NameError", raise_name);
    vm.define_native("main", "raise_RuntimeError", raise_runtime);
    vm.define_native("main", "raise_TypeError", raise_type);
    vm.define_native("main", "raise_ValueError", raise_value);
    vm.define_native("main", "raise_multi", raise_multi);
    vm.define_native("main", "raise_ok", raise_ok);
    let r = vm::interpret(&mut vm, crate::unhex_str(args[1]), None);
    crate::emit_result(out, &r);
    crate::LOADS.with(|l| l.borrow_mut().clear());
}

static FS_COUNTER: std::sync::atomic::AtomicUsize = std::sync::atomic::AtomicUsize::new(0);

fn cmd_c17fs(args: &[&str], out: &mut Vec<String>) {
    use std::fs;
    use std::os::unix::fs::PermissionsExt;
    let o = crate::parse_opts(args[0]);
    let n = FS_COUNTER.fetch_add(1, std::sync::atomic::Ordering::SeqCst);
    let dir = std::env::temp_dir().join(format!("yv-c17fs-{}-{}", std::process::id(), n));
    let old = std::env::current_dir().ok();
    let mut prepare = || -> std::io::Result<()> {
        let _ = fs::remove_dir_all(&dir);
        fs::create_dir_all(&dir)?;
        for a in &args[2..] {
            let (tag, rest) = a.split_at(2);
            let mut it = rest.splitn(2, '=');
            let rel = crate::unhex_str(it.next().unwrap_or(""));
            let content = crate::unhex(it.next().unwrap_or(""));
            let path = dir.join(&rel);
            match tag {
                "d:" => fs::create_dir_all(&path)?,
                "f:" | "x:" => {
                    if let Some(parent) = path.parent() {
                        fs::create_dir_all(parent)?;
                    }
                    fs::write(&path, &content)?;
                    if tag == "x:" {
                        fs::set_permissions(&path, fs::Permissions::from_mode(0o000))?;
                        if fs::read(&path).is_ok() {
                            out.push("X readable".to_owned());
                        }
                    }
                }
                _ => {}
            }
        }
        std::env::set_current_dir(&dir)
    };
    match prepare() {
        Ok(()) => {
            let mut vm = Vm::with_built_ins();
            vm.set_printer(crate::local_print);
            crate::setup(&o);
            let r = vm::interpret(&mut vm, crate::unhex_str(args[1]), None);
            crate::emit_result(out, &r);
        }
        Err(e) => out.push(format!("E {}", crate::hex(format!("{}", e).as_bytes()))),
    }
    if let Some(old) = old {
        let _ = std::env::set_current_dir(old);
    }
    // make everything removable again
    fn unlock(p: &std::path::Path) {
        use std::os::unix::fs::PermissionsExt;
        if let Ok(md) = std::fs::symlink_metadata(p) {
            if md.is_dir() {
                if let Ok(rd) = std::fs::read_dir(p) {
                    for e in rd.flatten() {
                        unlock(&e.path());
                    }
                }
            } else {
                let _ = std::fs::set_permissions(p, std::fs::Permissions::from_mode(0o644));
            }
        }
    }
    unlock(&dir);
    let _ = fs::remove_dir_all(&dir);
}

pub fn dispatch(cmd: &str, args: &[&str], out: &mut Vec<String>) -> bool {
    match cmd {
        "c17fs" => {
            cmd_c17fs(args, out);
            true
        }
        "c17" => {
            cmd_c17(args, out);
            true
        }
        _ => false,
    }
}
