// harness commands owned by the check of property C19 (see tools/props/C19.py)
//
//   numsnips <item>...      item = <bits|->:<hexsrc>
//       ONE Vm for the whole line.  For every item: the global `x` of module "main" is set to
//       Value::Number(f64::from_bits(bits)) (when bits are given), the global `r` is reset to nil,
//       the snippet is interpreted.  Records per item:
//         SNIP <i>
//         D <hex of format!("{}", Value::Number(x))>          (only when bits are given)
//         O <hex line>...                                      (print() calls)
//         R ok <hex> | R err <Kind> + M <hex>...
//         G n<bits> | G o<hex display> | G -                   (global `r` afterwards)
//   numfmt <bits>...        host-side Display only:  D <bits> <hex text>
//   numreal <item>...       like numsnips, but the Vm keeps yarel's OWN `print` native (core::print, which writes to the
//       process's stdout); everything is therefore written straight to stdout, in order, with escaped framing:
//         @@SNIP <i>            before each item
//         @@D <hex display>     host-side Display of x (when bits are given)
//         <raw lines printed by the program>
//         @@R ok | @@R err <Kind> | @@M <hex>      result of the item
//         @@G n<bits> | @@G -                      global `r`
use yarel::value::Value;
use yarel::vm;

fn emit_global(vm: &mut vm::Vm, out: &mut Vec<String>) {
    match vm.global("main", "r") {
        Some(Value::Number(n)) => out.push(format!("G n{}", n.to_bits())),
        Some(Value::None) | None => out.push("G -".to_owned()),
        Some(other) => out.push(format!("G o{}", crate::hex(format!("{}", other).as_bytes()))),
    }
}

fn cmd_numsnips(args: &[&str], out: &mut Vec<String>) {
    let mut vm = crate::new_vm();
    for (i, a) in args.iter().enumerate() {
        out.push(format!("SNIP {}", i));
        let mut it = a.splitn(2, ':');
        let bits = it.next().unwrap_or("-");
        let src = crate::unhex_str(it.next().unwrap_or("-"));
        if bits != "-" {
            let b: u64 = bits.parse().expect("bits");
            let v = Value::Number(f64::from_bits(b));
            out.push(format!("D {}", crate::hex(format!("{}", v).as_bytes())));
            vm.set_global("main", "x", v);
        }
        vm.set_global("main", "r", Value::None);
        let r = vm::interpret(&mut vm, src, None);
        crate::emit_result(out, &r);
        emit_global(&mut vm, out);
    }
}

fn cmd_numreal(args: &[&str]) {
    // no set_printer: the built-in print stays in place
    let mut vm = vm::Vm::with_built_ins();
    for (i, a) in args.iter().enumerate() {
        println!("@@SNIP {}", i);
        let mut it = a.splitn(2, ':');
        let bits = it.next().unwrap_or("-");
        let src = crate::unhex_str(it.next().unwrap_or("-"));
        if bits != "-" {
            let b: u64 = bits.parse().expect("bits");
            let v = Value::Number(f64::from_bits(b));
            println!("@@D {}", crate::hex(format!("{}", v).as_bytes()));
            vm.set_global("main", "x", v);
        }
        vm.set_global("main", "r", Value::None);
        match vm::interpret(&mut vm, src, None) {
            Ok(_) => println!("@@R ok"),
            Err(e) => {
                println!("@@R err {}", crate::kind_name(e.kind()));
                for m in e.messages() {
                    println!("@@M {}", crate::hex(m.as_bytes()));
                }
            }
        }
        match vm.global("main", "r") {
            Some(Value::Number(n)) => println!("@@G n{}", n.to_bits()),
            _ => println!("@@G -"),
        }
    }
}

fn cmd_numfmt(args: &[&str], out: &mut Vec<String>) {
    for a in args {
        let b: u64 = a.parse().expect("bits");
        let v = Value::Number(f64::from_bits(b));
        out.push(format!("D {} {}", b, crate::hex(format!("{}", v).as_bytes())));
    }
}

pub fn dispatch(cmd: &str, args: &[&str], out: &mut Vec<String>) -> bool {
    match cmd {
        "numsnips" => cmd_numsnips(args, out),
        "numfmt" => cmd_numfmt(args, out),
        "numreal" => cmd_numreal(args),
        _ => return false,
    }
    true
}
