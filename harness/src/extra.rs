// further commands, one module per property so that they can be developed independently
macro_rules! ext_mod { ($($m:ident => $f:literal),*) => { $( #[path = $f] mod $m; )* } }
ext_mod!(ext_c01 => "ext_c01.rs", ext_c02 => "ext_c02.rs", ext_c03 => "ext_c03.rs", ext_c04 => "ext_c04.rs",
         ext_c05 => "ext_c05.rs", ext_c06 => "ext_c06.rs", ext_c07 => "ext_c07.rs", ext_c08 => "ext_c08.rs",
         ext_c09 => "ext_c09.rs", ext_c10 => "ext_c10.rs", ext_c12 => "ext_c12.rs", ext_c13 => "ext_c13.rs",
         ext_c14 => "ext_c14.rs", ext_c15 => "ext_c15.rs", ext_c16 => "ext_c16.rs", ext_c17 => "ext_c17.rs",
         ext_c18 => "ext_c18.rs", ext_c19 => "ext_c19.rs");

fn dispatch_extra(cmd: &str, args: &[&str], out: &mut Vec<String>) -> bool {
    ext_c01::dispatch(cmd, args, out) || ext_c02::dispatch(cmd, args, out) || ext_c03::dispatch(cmd, args, out)
        || ext_c04::dispatch(cmd, args, out) || ext_c05::dispatch(cmd, args, out) || ext_c06::dispatch(cmd, args, out)
        || ext_c07::dispatch(cmd, args, out) || ext_c08::dispatch(cmd, args, out) || ext_c09::dispatch(cmd, args, out)
        || ext_c10::dispatch(cmd, args, out) || ext_c12::dispatch(cmd, args, out) || ext_c13::dispatch(cmd, args, out)
        || ext_c14::dispatch(cmd, args, out) || ext_c15::dispatch(cmd, args, out) || ext_c16::dispatch(cmd, args, out)
        || ext_c17::dispatch(cmd, args, out) || ext_c18::dispatch(cmd, args, out) || ext_c19::dispatch(cmd, args, out)
}
