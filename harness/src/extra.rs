// further commands are added here as properties need them
fn dispatch_extra(_cmd: &str, _args: &[&str], _out: &mut Vec<String>) -> bool {
    false
}
