// yv: line-protocol harness around the yarel library (built from /repo's working tree with
// feature verif_hooks).  One request per input line, one framed record per request.
// Strings travel hex-encoded.  Every case runs on its own thread (own thread-local heap).
use std::alloc::{GlobalAlloc, Layout, System};
use std::cell::{Cell, RefCell};
use std::collections::HashMap;
use std::io::{self, BufRead, Write};
use std::sync::atomic::{AtomicBool, AtomicU64, Ordering};

use yarel::error::{Error, ErrorKind};
use yarel::memory::verif as gcv;
use yarel::value::Value;
use yarel::vm::{self, Vm};

// ---------------------------------------------------------------------------------------------
// Quarantining allocator: when enabled, freed memory is poisoned and never reused, so a stale
// managed pointer is recognised (deterministically) by the dereference callback of hook H1.
struct QAlloc;
static QUARANTINE: AtomicBool = AtomicBool::new(false);
const POISON: u8 = 0xDD;

unsafe impl GlobalAlloc for QAlloc {
    unsafe fn alloc(&self, layout: Layout) -> *mut u8 {
        System.alloc(layout)
    }
    unsafe fn dealloc(&self, ptr: *mut u8, layout: Layout) {
        if QUARANTINE.load(Ordering::Relaxed) {
            std::ptr::write_bytes(ptr, POISON, layout.size());
        } else {
            System.dealloc(ptr, layout)
        }
    }
    unsafe fn alloc_zeroed(&self, layout: Layout) -> *mut u8 {
        System.alloc_zeroed(layout)
    }
}

#[global_allocator]
static GLOBAL: QAlloc = QAlloc;

thread_local! {
    static OUTPUT: RefCell<Vec<String>> = RefCell::new(Vec::new());
    static UAF: Cell<usize> = Cell::new(0);
    static MODULES: RefCell<HashMap<String, String>> = RefCell::new(HashMap::new());
    static LOADS: RefCell<Vec<String>> = RefCell::new(Vec::new());
}

fn deref_check(ptr: *const u8) {
    if (ptr as usize) < 4096 {
        return;
    }
    let poisoned = unsafe { (0..16).all(|i| *ptr.add(i) == POISON) };
    if poisoned {
        let seen = UAF.with(|u| {
            let v = u.get();
            u.set(v + 1);
            v
        });
        if seen == 0 {
            panic!("VERIF-UAF use of a reclaimed object at {:p}", ptr);
        }
    }
}

// ---------------------------------------------------------------------------------------------
fn hex(s: &[u8]) -> String {
    let mut r = String::with_capacity(s.len() * 2);
    for b in s {
        r.push_str(&format!("{:02x}", b));
    }
    r
}

fn unhex(s: &str) -> Vec<u8> {
    let b = s.as_bytes();
    (0..b.len() / 2)
        .map(|i| u8::from_str_radix(std::str::from_utf8(&b[2 * i..2 * i + 2]).unwrap(), 16).unwrap())
        .collect()
}

fn unhex_str(s: &str) -> String {
    if s == "-" {
        return String::new();
    }
    String::from_utf8(unhex(s)).expect("utf8")
}

fn kind_name(k: ErrorKind) -> &'static str {
    match k {
        ErrorKind::AttributeError => "AttributeError",
        ErrorKind::CompileError => "CompileError",
        ErrorKind::ImportError => "ImportError",
        ErrorKind::IndexError => "IndexError",
        ErrorKind::NameError => "NameError",
        ErrorKind::RuntimeError => "RuntimeError",
        ErrorKind::TypeError => "TypeError",
        ErrorKind::ValueError => "ValueError",
    }
}

fn local_print(vm: &mut Vm, num_args: usize) -> Result<Value, Error> {
    if num_args != 1 {
        return Err(Error::with_message(
            ErrorKind::TypeError,
            "Expected one argument to 'print'.",
        ));
    }
    let text = format!("{}", vm.native_arg(1));
    OUTPUT.with(|o| o.borrow_mut().push(text));
    Ok(Value::None)
}

fn loader(path: &str) -> Result<String, Error> {
    LOADS.with(|l| l.borrow_mut().push(path.to_owned()));
    MODULES.with(|m| match m.borrow().get(path) {
        Some(s) => Ok(s.clone()),
        None => Err(Error::with_message(
            ErrorKind::ImportError,
            &format!("Unable to read file '{}.yl' (file not found).", path),
        )),
    })
}

struct Opts {
    gc: gcv::Policy,
    log: bool,
    stats: bool,
    collect_end: bool,
}

fn parse_opts(s: &str) -> Opts {
    let mut o = Opts {
        gc: gcv::Policy::Default,
        log: false,
        stats: false,
        collect_end: false,
    };
    for kv in s.split(',') {
        match kv {
            "gc=never" => o.gc = gcv::Policy::Never,
            "gc=always" => o.gc = gcv::Policy::Always,
            "gc=default" | "-" | "" => {}
            "log=1" => o.log = true,
            "stats=1" => o.stats = true,
            "collect_end=1" => o.collect_end = true,
            _ => {}
        }
    }
    o
}

fn emit_result(out: &mut Vec<String>, r: &Result<Value, Error>) {
    for line in OUTPUT.with(|o| std::mem::take(&mut *o.borrow_mut())) {
        out.push(format!("O {}", hex(line.as_bytes())));
    }
    match r {
        Ok(v) => out.push(format!("R ok {}", hex(format!("{}", v).as_bytes()))),
        Err(e) => {
            out.push(format!("R err {}", kind_name(e.kind())));
            for m in e.messages() {
                out.push(format!("M {}", hex(m.as_bytes())));
            }
        }
    }
}

fn emit_stats(out: &mut Vec<String>, o: &Opts) {
    if o.collect_end {
        gcv::force_collect();
    }
    if o.stats {
        let (b, t, n, c) = gcv::stats();
        out.push(format!("S {} {} {} {}", b, t, n, c));
        let kinds: Vec<String> = gcv::object_kinds()
            .iter()
            .map(|(k, n)| format!("{}={}", hex(k.as_bytes()), n))
            .collect();
        out.push(format!("K {}", kinds.join(" ")));
    }
    if o.log {
        for r in gcv::take_alloc_log() {
            out.push(format!(
                "A {} {} {} {} {} {}",
                r.size,
                r.bytes_before,
                r.threshold_before,
                if r.collected { 1 } else { 0 },
                r.bytes_after,
                r.threshold_after
            ));
        }
    }
}

fn setup(o: &Opts) {
    gcv::set_deref_check(Some(deref_check));
    gcv::set_policy(o.gc);
    gcv::set_logging(o.log);
}

fn new_vm() -> Vm {
    let mut vm = Vm::with_built_ins();
    vm.set_printer(local_print);
    vm.set_module_loader(loader);
    vm
}

// run <opts> <src>
fn cmd_run(args: &[&str], out: &mut Vec<String>) {
    let o = parse_opts(args[0]);
    let src = unhex_str(args[1]);
    // the VM itself is created with the build's default pacing so that set-up is not logged
    gcv::set_deref_check(Some(deref_check));
    let mut vm = new_vm();
    setup(&o);
    gcv::take_alloc_log();
    let r = vm::interpret(&mut vm, src, None);
    emit_result(out, &r);
    emit_stats(out, &o);
}

// repl <opts> <snippet|RESET>...
fn cmd_repl(args: &[&str], out: &mut Vec<String>) {
    let o = parse_opts(args[0]);
    gcv::set_deref_check(Some(deref_check));
    let mut vm = new_vm();
    setup(&o);
    for (i, a) in args[1..].iter().enumerate() {
        out.push(format!("SNIP {}", i));
        if *a == "RESET" {
            vm.reset();
            vm.set_printer(local_print);
            out.push("R reset".to_owned());
            continue;
        }
        let r = vm::interpret(&mut vm, unhex_str(a), None);
        emit_result(out, &r);
        emit_carried(out, &vm);
    }
    emit_stats(out, &o);
}

// mods <opts> <main src> <name>=<src>...
fn cmd_mods(args: &[&str], out: &mut Vec<String>) {
    let o = parse_opts(args[0]);
    MODULES.with(|m| {
        let mut m = m.borrow_mut();
        m.clear();
        for a in &args[2..] {
            let mut it = a.splitn(2, '=');
            let name = unhex_str(it.next().unwrap());
            let src = unhex_str(it.next().unwrap());
            m.insert(name, src);
        }
    });
    gcv::set_deref_check(Some(deref_check));
    let mut vm = new_vm();
    setup(&o);
    let r = vm::interpret(&mut vm, unhex_str(args[1]), None);
    emit_result(out, &r);
    for l in LOADS.with(|l| std::mem::take(&mut *l.borrow_mut())) {
        out.push(format!("LOAD {}", hex(l.as_bytes())));
    }
    emit_stats(out, &o);
}

struct Ids {
    map: HashMap<usize, usize>,
}
impl Ids {
    fn new() -> Self {
        Ids { map: HashMap::new() }
    }
    fn id(&mut self, p: usize) -> usize {
        let n = self.map.len();
        *self.map.entry(p).or_insert(n)
    }
}

// intern <op>...   op = g<hash>:<hextext> | i<hash>:<hextext>
fn cmd_intern(args: &[&str], out: &mut Vec<String>) {
    let vm = Vm::new();
    let mut table = vm::verif_intern::InternTable::new(&vm);
    let mut ids = Ids::new();
    for a in args {
        let (op, rest) = a.split_at(1);
        let mut it = rest.splitn(2, ':');
        let hash: u64 = it.next().unwrap().parse().unwrap();
        let text = unhex_str(it.next().unwrap_or("-"));
        match op {
            "g" => match table.get(hash, &text) {
                Some(p) => out.push(format!("G {}", ids.id(p))),
                None => out.push("G -".to_owned()),
            },
            "i" => {
                let (p, replaced) = table.insert(hash, &text);
                out.push(format!("I {} {}", ids.id(p), if replaced { 1 } else { 0 }));
            }
            _ => out.push("? bad op".to_owned()),
        }
    }
    let (entries, size, mask) = table.layout();
    out.push(format!("L {} {} {}", size, mask, entries.len()));
    for (i, e) in entries.iter().enumerate() {
        if let Some((h, t, p)) = e {
            out.push(format!("E {} {} {} {}", i, h, hex(t.as_bytes()), ids.id(*p)));
        }
    }
}

// vmintern <hextext>...  : what Vm::new_gc_obj_string returns (cached hash, identity)
fn cmd_vmintern(args: &[&str], out: &mut Vec<String>) {
    let mut vm = Vm::new();
    let mut ids = Ids::new();
    for a in args {
        let text = unhex_str(a);
        let (h, p) = vm::verif_intern::vm_intern(&mut vm, &text);
        out.push(format!("V {} {}", h, ids.id(p)));
    }
}

fn dump_function(
    f: yarel::memory::Gc<yarel::object::ObjFunction>,
    out: &mut Vec<String>,
    counter: &mut usize,
) -> usize {
    let idx = *counter;
    *counter += 1;
    let chunk = f.chunk;
    let mut consts: Vec<String> = Vec::new();
    // reserve this function's header position; children are dumped after it
    let header_pos = out.len();
    out.push(String::new());
    for c in chunk.constants.iter() {
        match c {
            Value::ObjString(s) => consts.push(format!("s{}", hex(s.as_str().as_bytes()))),
            Value::Number(n) => consts.push(format!("n{}", n.to_bits())),
            Value::ObjFunction(g) => {
                let child = dump_function(*g, out, counter);
                consts.push(format!("f{}", child));
            }
            other => consts.push(format!("o{}", hex(format!("{}", other).as_bytes()))),
        }
    }
    out[header_pos] = format!(
        "F {} {} {} {} {}",
        idx,
        f.arity,
        f.upvalue_count,
        if f.name.as_str().is_empty() { "-".to_owned() } else { hex(f.name.as_str().as_bytes()) },
        if chunk.code.is_empty() { "-".to_owned() } else { hex(&chunk.code) }
    );
    out.push(format!("C {} {}", idx, consts.join(" ")));
    out.push(format!(
        "LN {} {}",
        idx,
        (0..chunk.code.len()).map(|i| chunk.lines[i].to_string()).collect::<Vec<_>>().join(",")
    ));
    idx
}

// compile <src> : Ok -> function tree, Err -> messages
fn cmd_compile(args: &[&str], out: &mut Vec<String>) {
    let src = unhex_str(args[0]);
    let mut vm = new_vm();
    match yarel::compiler::compile(&mut vm, src, None) {
        Ok(f) => {
            out.push("R ok".to_owned());
            let mut counter = 0;
            dump_function(f.as_gc(), out, &mut counter);
        }
        Err(e) => {
            out.push(format!("R err {}", kind_name(e.kind())));
            for m in e.messages() {
                out.push(format!("M {}", hex(m.as_bytes())));
            }
        }
    }
}

// trace <opts> <limit> <src> : run with the per-instruction trace of hook H4
// T fiber function pc opcode stack_len slot_base frames handling_exception return_pending fiber_ptr_ok has_caller | h:catch,finally,size,frames;... | u:slot,slot,...
fn cmd_trace(args: &[&str], out: &mut Vec<String>) {
    use yarel::vm::verif_trace as vt;
    let o = parse_opts(args[0]);
    let limit: usize = args[1].parse().unwrap_or(100000);
    let src = unhex_str(args[2]);
    gcv::set_deref_check(Some(deref_check));
    let mut vm = new_vm();
    setup(&o);
    vt::set_tracing(true, limit);
    let r = vm::interpret(&mut vm, src, None);
    vt::set_tracing(false, 0);
    let mut ids = Ids::new();
    for s in vt::take_trace() {
        let hs: Vec<String> = s.handlers.iter().map(|h| format!("{},{},{},{}", h.0, h.1, h.2, h.3)).collect();
        let us: Vec<String> = s.open_upvalues.iter().map(|u| u.to_string()).collect();
        out.push(format!(
            "T {} {} {} {} {} {} {} {} {} {} {} h:{} u:{}",
            ids.id(s.fiber), ids.id(s.function), s.pc, s.opcode, s.stack_len, s.slot_base, s.frames,
            s.handling_exception as u8, s.return_pending as u8, s.fiber_ptr_ok as u8, s.has_caller as u8,
            hs.join(";"), us.join(",")
        ));
    }
    emit_result(out, &r);
    emit_carried(out, &vm);
}

fn emit_carried(out: &mut Vec<String>, vm: &Vm) {
    let c = yarel::vm::verif_trace::carried(vm);
    out.push(format!(
        "CS he={} fiber={} frames={} stack={} handlers={} retpend={} errip={} classdef={} modules={} chunks={} core_chunks={} range_cache={}",
        c.handling_exception as u8, c.fiber_present as u8, c.fiber_frames, c.fiber_stack, c.fiber_handlers,
        c.fiber_return_pending as u8, c.fiber_error_ip as u8, c.working_class_def as u8, c.modules, c.chunks,
        c.core_chunks, c.range_cache
    ));
}

fn cmd_config(out: &mut Vec<String>) {
    out.push(format!(
        "CFG debug_assertions={} debug_stress_gc={} safe_active_fiber={} safe_class_lookup={} safe_stack={} safe_vm_opcodes={}",
        cfg!(debug_assertions),
        cfg!(feature = "debug_stress_gc"),
        cfg!(feature = "safe_active_fiber"),
        cfg!(feature = "safe_class_lookup"),
        cfg!(feature = "safe_stack"),
        cfg!(feature = "safe_vm_opcodes"),
    ));
}

include!("extra.rs");

fn dispatch(line: &str) -> Vec<String> {
    let mut out = Vec::new();
    let parts: Vec<&str> = line.split_whitespace().collect();
    if parts.is_empty() {
        return out;
    }
    match parts[0] {
        "run" => cmd_run(&parts[1..], &mut out),
        "repl" => cmd_repl(&parts[1..], &mut out),
        "mods" => cmd_mods(&parts[1..], &mut out),
        "intern" => cmd_intern(&parts[1..], &mut out),
        "vmintern" => cmd_vmintern(&parts[1..], &mut out),
        "compile" => cmd_compile(&parts[1..], &mut out),
        "trace" => cmd_trace(&parts[1..], &mut out),
        "config" => cmd_config(&mut out),
        other => {
            if !dispatch_extra(other, &parts[1..], &mut out) {
                out.push(format!("? unknown command {}", other));
            }
        }
    }
    out
}

static CASE_STARTED_MS: AtomicU64 = AtomicU64::new(0);
static CASE_ACTIVE: AtomicBool = AtomicBool::new(false);

fn now_ms() -> u64 {
    use std::time::{SystemTime, UNIX_EPOCH};
    SystemTime::now().duration_since(UNIX_EPOCH).unwrap().as_millis() as u64
}

fn main() {
    let quarantine = std::env::var("YV_QUARANTINE").map(|v| v == "1").unwrap_or(false);
    QUARANTINE.store(quarantine, Ordering::SeqCst);
    let limit_ms: u64 = std::env::var("YV_CASE_TIMEOUT_MS")
        .ok()
        .and_then(|v| v.parse().ok())
        .unwrap_or(20000);
    std::panic::set_hook(Box::new(|_| {}));
    // watchdog: a case that runs too long kills the process; the orchestrator sees BEGIN without END
    std::thread::spawn(move || loop {
        std::thread::sleep(std::time::Duration::from_millis(100));
        if CASE_ACTIVE.load(Ordering::SeqCst)
            && now_ms().saturating_sub(CASE_STARTED_MS.load(Ordering::SeqCst)) > limit_ms
        {
            println!("TIMEOUT");
            let _ = io::stdout().flush();
            std::process::exit(3);
        }
    });
    let stdin = io::stdin();
    let stdout = io::stdout();
    let mut n = 0usize;
    for line in stdin.lock().lines() {
        let line = match line {
            Ok(l) => l,
            Err(_) => break,
        };
        if line.trim().is_empty() {
            continue;
        }
        {
            let mut so = stdout.lock();
            writeln!(so, "BEGIN {}", n).unwrap();
            so.flush().unwrap();
        }
        CASE_STARTED_MS.store(now_ms(), Ordering::SeqCst);
        CASE_ACTIVE.store(true, Ordering::SeqCst);
        let handle = std::thread::Builder::new()
            .stack_size(256 << 20)
            .spawn(move || {
                let r = std::panic::catch_unwind(std::panic::AssertUnwindSafe(|| dispatch(&line)));
                let uaf = UAF.with(|u| u.get());
                match r {
                    Ok(mut out) => {
                        out.push(format!("U {}", uaf));
                        out
                    }
                    Err(p) => {
                        let msg = if let Some(s) = p.downcast_ref::<String>() {
                            s.clone()
                        } else if let Some(s) = p.downcast_ref::<&str>() {
                            (*s).to_owned()
                        } else {
                            "panic".to_owned()
                        };
                        let mut out: Vec<String> = OUTPUT
                            .with(|o| std::mem::take(&mut *o.borrow_mut()))
                            .iter()
                            .map(|l| format!("O {}", hex(l.as_bytes())))
                            .collect();
                        out.push(format!("R panic {}", hex(msg.as_bytes())));
                        out.push(format!("U {}", uaf));
                        out
                    }
                }
            })
            .unwrap();
        let out = handle.join().unwrap_or_else(|_| vec!["R panic 6a6f696e".to_owned()]);
        CASE_ACTIVE.store(false, Ordering::SeqCst);
        let mut so = stdout.lock();
        for l in out {
            writeln!(so, "{}", l).unwrap();
        }
        writeln!(so, "END {}", n).unwrap();
        so.flush().unwrap();
        n += 1;
    }
}
