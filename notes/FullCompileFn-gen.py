import re,sys
T='/verif/coq/theories/'
names={'FullCompileHt':'FullCompileFnA','FullCompileHt2':'FullCompileFnB','FullCompileHt3':'FullCompileFnC','FullCompileHt4':'FullCompileFnD','FullCompileHt5':'FullCompileFnE','FullCompileHt6':'FullCompileFnF','FullCompileHt7':'FullCompileFnG','FullCompileHt8':'FullCompileFnH'}
def ren(s):
    for k in sorted(names,key=len,reverse=True):
        s=re.sub(r'\b'+k+r'\b',names[k],s)
    return s
def rep(s,a,b,cnt=1):
    assert s.count(a)>=1,("missing",a[:60])
    return s.replace(a,b) if cnt==0 else s.replace(a,b,cnt)
# ---------- A
s=open(T+'FullCompileHt.v').read()
s=rep(s,"    | OpCloseUpvalue => g_hole gi = false /\\ (ar < hh)%N /\\ L nx = Some (hh - 1)%N\n",
"    | OpCloseUpvalue => g_hole gi = false /\\ (ar < hh)%N /\\ L nx = Some (hh - 1)%N\n    | OpClosure =>\n      g_hole gi = false /\\\n      (exists fn, nth_error ks (N.to_nat (g_a gi)) = Some (KFun fn) /\\ f_upvalues fn = N.of_nat (length (g_uvs gi))) /\\\n      L nx = Some (hh + 1)%N\n")
s=rep(s,"    + destruct H as (A & B & C0); auto.\n    + destruct H as (A & B & C0); auto.\nQed.",
"    + destruct H as (A & B & C0); auto.\n    + destruct H as (A & (fn & B1 & B2) & C0). repeat split; auto. exists fn. split; auto.\n      rewrite nth_error_app1; auto. apply nth_error_Some. congruence.\n    + destruct H as (A & B & C0); auto.\nQed.")
s=rep(s,"  gr_ups : (nupN c <= nupN c')%N\n}.","  gr_ups : (nupN c <= nupN c')%N;\n  gr_nf : forall i h, nth_error (k_consts c') i = Some (KFun h) -> nth_error (k_consts c) i = Some (KFun h)\n}.")
s=rep(s,"Proof. constructor. exists []. rewrite app_nil_r; auto. lia. Qed.\nLemma cgrow_trans","Proof. constructor. exists []. rewrite app_nil_r; auto. lia. auto. Qed.\nLemma cgrow_trans")
s=rep(s,"  intros [[m1 E1] U1] [[m2 E2] U2]. constructor. exists (m1 ++ m2). rewrite E2, E1, app_assoc; auto. lia.","  intros [[m1 E1] U1 N1] [[m2 E2] U2 N2]. constructor. exists (m1 ++ m2). rewrite E2, E1, app_assoc; auto. lia. auto.")
s=rep(s,"Lemma make_constant_spec c s i s' : make_constant c s = COk (i, s') ->","Lemma make_constant_spec c s i s' : (forall f, c <> KFun f) -> make_constant c s = COk (i, s') ->")
s=rep(s,"  unfold make_constant, cbind, cur. intros H.\n  destruct (const_index (k_consts (s_cur s)) c) eqn:E.\n  - destruct (N.ltb 65535 (N.of_nat n)); [discriminate|]. inversion H; subst; clear H.\n    split. constructor; auto using cframe_refl, cgrow_refl. repeat split; auto.",
"  intros Hcnf. unfold make_constant, cbind, cur. intros H.\n  destruct (const_index (k_consts (s_cur s)) c) eqn:E.\n  - destruct (N.ltb 65535 (N.of_nat n)); [discriminate|]. inversion H; subst; clear H.\n    split. constructor; auto using cframe_refl, cgrow_refl. repeat split; auto.")
s=rep(s,"    constructor; simpl. eexists; reflexivity. unfold nupN; simpl; lia.\n    repeat split; auto. exists c.",
"""    constructor; simpl. eexists; reflexivity. unfold nupN; simpl; lia.
    { intros j h Hj. destruct (Nat.lt_ge_cases j (length (k_consts (s_cur s)))) as [Hlt|Hge].
      - rewrite nth_error_app1 in Hj; auto.
      - rewrite nth_error_app2 in Hj by lia. destruct (j - length (k_consts (s_cur s))) as [|n0]; simpl in Hj.
        + inversion Hj; subst. exfalso. eapply Hcnf; eauto.
        + destruct n0; discriminate. }
    repeat split; auto. exists c.""")
s=rep(s,"  intros i s' E. apply make_constant_spec in E. destruct E as (Hq & Ho & Hcl & _ & d & Hd & Hl).\n  split; auto. split; auto. apply const_like_str","  intros i s' E. apply make_constant_spec in E; [|intros ? ?; discriminate]. destruct E as (Hq & Ho & Hcl & _ & d & Hd & Hl).\n  split; auto. split; auto. apply const_like_str")
s=rep(s,"  { intros i s' E. apply make_constant_spec in E. destruct E as (Hq & Ho & Hcl & _ & d & Hd & Hl).","  { intros i s' E. apply make_constant_spec in E; [|exact Hk]. destruct E as (Hq & Ho & Hcl & _ & d & Hd & Hl).")
s=rep(s,"      apply make_constant_spec in E3. destruct E3","      apply make_constant_spec in E3; [|intros ? ?; discriminate]. destruct E3")
s=rep(s,"    constructor. exists []. simpl. rewrite app_nil_r; auto. unfold nupN; simpl. rewrite app_length. lia.\nQed.","    constructor. exists []. simpl. rewrite app_nil_r; auto. unfold nupN; simpl. rewrite app_length. lia. simpl; auto.\nQed.")
s=rep(s,"  { rewrite E. constructor. exists []. simpl. rewrite app_nil_r; auto. unfold nupN; simpl. lia. }","  { rewrite E. constructor. exists []. simpl. rewrite app_nil_r; auto. unfold nupN; simpl. lia. simpl; auto. }")
open(T+'FullCompileFnA.v','w').write(ren(s))
# ---------- B
open(T+'FullCompileFnB.v','w').write(ren(open(T+'FullCompileHt2.v').read()))
# ---------- C
s=open(T+'FullCompileHt3.v').read()
L=s.split('\n')
pre='\n'.join(L[:79])   # up to Hnh (line 79)
mid='\n'.join(L[81:157]) # SemInv .. const_dec
step='\n'.join(L[157:219]) # step_ok
pre=pre.replace("From YV Require Import FullCompileHt FullCompileHt2.","From YV Require Import FullCompileHt FullCompileHt2.")
hyp='''
  (* pointwise agreement of the constant kinds; function constants: closure_arity; no captured variables *)
  Hypothesis Hks : forall c k, nth_error ks c = Some k -> exists ck, nth_error (consts F) c = Some ck /\\ ckind_ok k ck.
  Hypothesis Hclo : forall a fn, nth_error ks (N.to_nat a) = Some (KFun fn) ->
                                 closure_arity P F a = Some (f_upvalues fn).
  Hypothesis Hnoup : forall a fn, nth_error ks a = Some (KFun fn) -> f_upvalues fn = 0%N.
'''
mid=mid.replace('''    - intros (k & Hk & Hnf). destruct (nth_error_Forall2 _ _ _ _ _ Hks Hk) as (ck & E & R). rewrite E.''','''    - intros (k & Hk & Hnf). destruct (Hks _ _ Hk) as (ck & E & R). rewrite E.''')
mid=mid.replace('''    - intros (x & Hk). destruct (nth_error_Forall2 _ _ _ _ _ Hks Hk) as (ck & E & R). rewrite E.''','''    - intros (x & Hk). destruct (Hks _ _ Hk) as (ck & E & R). rewrite E.''')
step=step.replace("  Lemma step_ok s : SemInv s -> exists l, succs false P F s = Some l /\\ forall s', In s' l -> SemInv s'.",
"""  Lemma step_ok_local g1 gi g2 ex :
    G = g1 ++ gi :: g2 -> g_op gi <> OpClosure ->
    exists l, succs false P F (Skeleton.mkS (N.of_nat (flen g1)) (g_h gi) [] [] None ex) = Some l /\\
              forall s', In s' l -> SemInv s'.""")
step=step.replace("""    intros (g1 & gi & g2 & EG & Hpc & Hh & Hha & Hca & Hpe).
""","""    intros EG Hnc.
""")
step=step.replace("""    destruct s as [pc0 h0 hs cap pend ex]. simpl in Hpc, Hh, Hha, Hca, Hpe. subst.
""","")
step=step.replace("destruct op; simpl in *; try discriminate; try contradiction; split; discriminate. }","destruct op; simpl in *; try discriminate; try contradiction; try (exfalso; apply Hnc; reflexivity); split; discriminate. }")
step=step.replace("      destruct op; simpl in Hse; try discriminate; simpl in I0, I1; try contradiction;","      destruct op; simpl in Hse; try discriminate; simpl in I0, I1; try contradiction; try (exfalso; apply Hnc; reflexivity);")
clos='''
  Lemma step_ok_closure g1 gi g2 ex :
    G = g1 ++ gi :: g2 -> g_op gi = OpClosure ->
    exists l, succs false P F (Skeleton.mkS (N.of_nat (flen g1)) (g_h gi) [] [] None ex) = Some l /\\
              forall s', In s' l -> SemInv s'.
  Proof.
    intros EG Ho.
    destruct (Hok 0%N g1 gi g2 EG) as [Hmax I0]. destruct (Hok 1%N g1 gi g2 EG) as [_ I1].
    destruct gi as [op a b uvs hh hole]. simpl in Ho. subst op. simpl in I0, I1, Hmax.
    destruct I0 as (Hh & (fn & Hfn & Hup) & L0). destruct I1 as (_ & _ & L1). simpl in Hh. subst hole.
    assert (Hu0 : f_upvalues fn = 0%N) by (eapply Hnoup; eauto).
    assert (uvs = []) by (destruct uvs; auto; rewrite Hu0 in Hup; simpl in Hup; lia). subst uvs.
    set (gi := mkG OpClosure a b [] hh false) in *.
    destruct (target_ok _ _ L0 L1) as [TI _].
    set (q := N.of_nat (flen g1)).
    assert (B : forall k bt q', nth_error (enc gi) k = Some bt -> q' = (q + N.of_nat k)%N ->
                                byte_at (code F) q' = Some bt)
      by (intros; eapply byte_at_enc; eauto).
    unfold succs, succs_at, step_at.
    cbn [Skeleton.pc Skeleton.h Skeleton.handlers Skeleton.captured Skeleton.pending Skeleton.exc g_h].
    unfold decode_at. fold q.
    rewrite (B 0 (N_of_opcode OpClosure) q) by (try reflexivity; lia).
    change (opcode_of_N (N_of_opcode OpClosure)) with (Some OpClosure). cbn [layout_of].
    unfold get16. rewrite (B 1 (lo8 a) (q + 1)%N) by (try reflexivity; lia).
    rewrite (B 2 (hi8 a) (q + 1 + 1)%N) by (try reflexivity; lia).
    rewrite lohi, (Hclo a fn Hfn), Hu0. cbn [N.to_nat read_uvs].
    cbn [simple_effect iop uvs_ok iuvs capture_all Skeleton.h Skeleton.handlers Skeleton.captured Skeleton.pending Skeleton.exc].
    replace (STACK_MAX <? g_h gi)%N with false by (symmetry; apply N.ltb_ge; exact Hmax).
    eexists. split; [reflexivity|]. intros s' [<-|[]].
    replace (q + 3 + 2 * 0)%N with (N.of_nat (flen g1 + glen gi)) by (unfold q, gi, glen; simpl; lia).
    apply TI.
  Qed.

  Lemma step_ok s : SemInv s -> exists l, succs false P F s = Some l /\\ forall s', In s' l -> SemInv s'.
  Proof.
    intros (g1 & gi & g2 & EG & Hpc & Hh & Hha & Hca & Hpe).
    destruct s as [pc0 h0 hs cap pend ex]. simpl in Hpc, Hh, Hha, Hca, Hpe. subst pc0 h0 hs cap pend.
    destruct (g_op gi) eqn:Eo; try (eapply step_ok_local; eauto; rewrite Eo; discriminate).
    eapply step_ok_closure; eauto.
  Qed.

  Hypothesis Hentry : hdh G 0%N = arity F.
  Hypothesis Hne : G <> [].

  Theorem sem_safe s : reachable false P F s -> succs false P F s <> None.
  Proof.
    intros Hr. assert (Hi : SemInv s).
    { induction Hr.
      - destruct G as [|gi r] eqn:EG; [congruence|]. exists [], gi, r. simpl in *. repeat split; auto.
      - destruct (step_ok _ IHHr) as (l' & E & Hl). rewrite E in H. inversion H; subst. auto. }
    destruct (step_ok _ Hi) as (l & E & _). rewrite E. discriminate.
  Qed.
End Sem.
Print Assumptions sem_safe.
'''
# step_ok_local needs I0 I1 from Hok: original text destructs Hok after intros; we removed those lines? keep them:
open(T+'FullCompileFnC.v','w').write(ren(pre+hyp+'\n'+mid+'\n'+step+clos))
# ---------- D..H
def cut(s,marker):
    i=s.index(marker); return s[:i]
s=open(T+'FullCompileHt4.v').read()
s=rep(s,"  intros []. constructor; auto. constructor. exists []. rewrite app_nil_r; auto. unfold nupN. rewrite tw_ups0. lia.","  intros []. constructor; auto. constructor. exists []. rewrite app_nil_r; auto. unfold nupN. rewrite tw_ups0. lia. rewrite tw_consts0; auto.")
s=cut(s,"Theorem script_ghost2 p f :")
open(T+'FullCompileFnD.v','w').write(ren(s))
s=open(T+'FullCompileHt5.v').read(); s=cut(s,"Lemma heights_gen p f P F :")
open(T+'FullCompileFnE.v','w').write(ren(s))
s=open(T+'FullCompileHt6.v').read(); s=cut(s,"(* HEADLINE 4")
open(T+'FullCompileFnF.v','w').write(ren(s))
s=open(T+'FullCompileHt7.v').read()
a=s.index("Lemma heights_gen' p f P F :"); b=s.index("Lemma SInv3_init")
s=s[:a]+s[b:]
s=cut(s,"(* HEADLINE 5")
open(T+'FullCompileFnG.v','w').write(ren(s))
s=open(T+'FullCompileHt8.v').read(); s=cut(s,"(* HEADLINE 6")
open(T+'FullCompileFnH.v','w').write(ren(s))
