#!/usr/bin/env python3
"""R2G second batch: the mutation / refactoring cases of notes/R2G.md 7.5 and the script that ran them (expects a private copy
of translator/ and coq/ under /tmp/r2g; see BASE).  Usage: python3 R2G-mutations.py [case numbers].
mutation / refactoring runs: each case changes the Rust text in a scratch copy of yarel/src, regenerates the group,
compiles gen + PureEquiv file in a private symlink copy of the coq tree."""
import os, re, shutil, subprocess, sys, json
from concurrent.futures import ThreadPoolExecutor
BASE = "/tmp/r2g"
SRC0 = "/repo/yarel/src"

def fn_region(text, anchor):
    i = text.index(anchor)
    j = text.index("{", i)
    depth = 0
    k = j
    while True:
        if text[k] == "{": depth += 1
        elif text[k] == "}":
            depth -= 1
            if depth == 0: break
        k += 1
    return i, k + 1

CASES = []
def case(fn, group, file, anchor, kind, old, new, regex=False):
    CASES.append(dict(fn=fn, group=group, file=file, anchor=anchor, kind=kind, old=old, new=new, regex=regex))

S, C = "PureStr", "PureScan"
A = lambda n: "fn %s(" % n
# ---- core.rs
case("check_num_args", S, "core.rs", A("check_num_args"), "M", "num_args != expected", "num_args > expected")
case("check_num_args", S, "core.rs", A("check_num_args"), "M", "if expected == 1", "if expected == 0")
case("check_num_args", S, "core.rs", A("check_num_args"), "R", r"\bnum_args\b", "n_args", True)
case("check_num_args", S, "core.rs", A("check_num_args"), "R", 'if num_args != expected {', 'let plural = if expected == 1 { "" } else { "s" };\n    if num_args != expected {')
case("string_len", S, "core.rs", A("string_len"), "M", "check_num_args(num_args, 0)", "check_num_args(num_args, 1)")
case("string_len", S, "core.rs", A("string_len"), "M", "string.len() as f64", "(string.len() + 1) as f64")
case("string_len", S, "core.rs", A("string_len"), "M", "vm.peek(0)", "vm.peek(1)")
case("string_len", S, "core.rs", A("string_len"), "R", r"\bstring\b", "text", True)
case("string_len", S, "core.rs", A("string_len"), "R", "Ok(Value::Number(string.len() as f64))", "let n = string.len();\n    Ok(Value::Number(n as f64))")
case("string_is_alpha", S, "core.rs", A("string_is_alpha"), "M", "is_ascii_alphabetic", "is_ascii_digit")
case("string_is_alpha", S, "core.rs", A("string_is_alpha"), "M", "string.len() > 0 && is_alpha", "string.len() > 0 || is_alpha")
case("string_is_alpha", S, "core.rs", A("string_is_alpha"), "R", r"\bis_alpha\b", "all_alpha", True)
case("string_is_alpha", S, "core.rs", A("string_is_alpha"), "R", "|c| c.is_ascii_alphabetic()", "|ch| ch.is_ascii_alphabetic()")
case("string_is_digit", S, "core.rs", A("string_is_digit"), "M", "is_ascii_digit", "is_ascii_hexdigit")
case("string_is_digit", S, "core.rs", A("string_is_digit"), "M", "string.len() > 0", "string.len() > 1")
case("string_is_digit", S, "core.rs", A("string_is_digit"), "R", r"\bstring\b", "text", True)
case("string_is_digit", S, "core.rs", A("string_is_digit"), "R", "Ok(Value::Boolean(string.len() > 0 && is_digit))", "let nonempty = string.len() > 0;\n    Ok(Value::Boolean(nonempty && is_digit))")
case("string_is_hexdigit", S, "core.rs", A("string_is_hexdigit"), "M", "is_ascii_hexdigit", "is_ascii_digit")
case("string_is_hexdigit", S, "core.rs", A("string_is_hexdigit"), "M", "string.len() > 0 && is_hexdigit", "is_hexdigit")
case("string_is_hexdigit", S, "core.rs", A("string_is_hexdigit"), "R", r"\bis_hexdigit\b", "ok", True)
case("string_is_hexdigit", S, "core.rs", A("string_is_hexdigit"), "R", "|c| c.is_ascii_hexdigit()", "|x| x.is_ascii_hexdigit()")
case("string_count_chars", S, "core.rs", A("string_count_chars"), "M", "string.chars().count()", "string.len()")
case("string_count_chars", S, "core.rs", A("string_count_chars"), "M", "check_num_args(num_args, 0)", "check_num_args(num_args, 1)")
case("string_count_chars", S, "core.rs", A("string_count_chars"), "R", r"\bstring\b", "text", True)
case("string_count_chars", S, "core.rs", A("string_count_chars"), "R", "Ok(Value::Number(string.chars().count() as f64))", "let n = string.chars().count();\n    Ok(Value::Number(n as f64))")
case("string_char_byte_index", S, "core.rs", A("string_char_byte_index"), "M", "0..string.len() + 1", "0..string.len()")
case("string_char_byte_index", S, "core.rs", A("string_char_byte_index"), "M", "char_count == char_index", "char_count > char_index")
case("string_char_byte_index", S, "core.rs", A("string_char_byte_index"), "R", r"\bchar_count\b", "seen", True)
case("string_char_byte_index", S, "core.rs", A("string_char_byte_index"), "R", "for i in 0..string.len() + 1 {", "let stop = string.len() + 1;\n    for i in 0..stop {")
case("string_find", S, "core.rs", A("string_find"), "M", "i >= start && slice", "i > start && slice")
case("string_find", S, "core.rs", A("string_find"), "M", "start >= string_len", "start > string_len")
case("string_find", S, "core.rs", A("string_find"), "M", "!string.is_char_boundary(i + substring.len())", "!string.is_char_boundary(i + 1)")
case("string_find", S, "core.rs", A("string_find"), "R", r"\bsubstring\b", "needle", True)
case("string_find", S, "core.rs", A("string_find"), "R", "let slice = &string[i..i + substring.len()];", "let stop = i + substring.len();\n        let slice = &string[i..stop];")
case("string_replace", S, "core.rs", A("string_replace"), "M", "string.replace(old.as_str(), new.as_str())", "string.replace(new.as_str(), old.as_str())")
case("string_replace", S, "core.rs", A("string_replace"), "M", '"Cannot replace empty string."', '"Cannot replace an empty string."')
case("string_replace", S, "core.rs", A("string_replace"), "R", r"\bold\b", "pattern", True)
case("string_replace", S, "core.rs", A("string_replace"), "R", "let new_string = vm.new_gc_obj_string(&string.replace(old.as_str(), new.as_str()));", "let replaced = string.replace(old.as_str(), new.as_str());\n    let new_string = vm.new_gc_obj_string(&replaced);")
case("string_starts_with", S, "core.rs", A("string_starts_with"), "M", "starts_with(prefix.as_str())", "ends_with(prefix.as_str())")
case("string_starts_with", S, "core.rs", A("string_starts_with"), "M", "let prefix = vm.peek(0)", "let prefix = vm.peek(1)")
case("string_starts_with", S, "core.rs", A("string_starts_with"), "R", r"\bprefix\b", "pre", True)
case("string_starts_with", S, "core.rs", A("string_starts_with"), "R", "Ok(Value::Boolean(string.as_str().starts_with(prefix.as_str())))", "let answer = string.as_str().starts_with(prefix.as_str());\n    Ok(Value::Boolean(answer))")
case("string_ends_with", S, "core.rs", A("string_ends_with"), "M", "ends_with(prefix.as_str())", "starts_with(prefix.as_str())")
case("string_ends_with", S, "core.rs", A("string_ends_with"), "M", "ErrorKind::TypeError", "ErrorKind::ValueError")
case("string_ends_with", S, "core.rs", A("string_ends_with"), "R", r"\bprefix\b", "suffix", True)
case("string_ends_with", S, "core.rs", A("string_ends_with"), "R", "Ok(Value::Boolean(string.as_str().ends_with(prefix.as_str())))", "let answer = string.as_str().ends_with(prefix.as_str());\n    Ok(Value::Boolean(answer))")
# ---- object.rs / utils.rs / value.rs
case("validate_char_boundary", S, "object.rs", A("validate_char_boundary"), "M", "if !self.as_str().is_char_boundary(pos)", "if self.as_str().is_char_boundary(pos)")
case("validate_char_boundary", S, "object.rs", A("validate_char_boundary"), "M", '"Provided {} is not', '"Given {} is not')
case("validate_char_boundary", S, "object.rs", A("validate_char_boundary"), "R", r"\bpos\b", "offset", True)
case("validate_char_boundary", S, "object.rs", A("validate_char_boundary"), "R", "if !self.as_str().is_char_boundary(pos) {", "let on_boundary = self.as_str().is_char_boundary(pos);\n        if !on_boundary {")
case("validate_integer", S, "utils.rs", A("validate_integer"), "M", "n.trunc() != n", "n.trunc() == n")
case("validate_integer", S, "utils.rs", A("validate_integer"), "M", "ErrorKind::ValueError", "ErrorKind::TypeError")
case("validate_integer", S, "utils.rs", A("validate_integer"), "R", r"\bn\b", "num", True)
case("validate_integer", S, "utils.rs", A("validate_integer"), "R", "Ok(n as isize)", "let as_int = n as isize;\n        Ok(as_int)")
case("try_as_bounded_index", S, "value.rs", A("try_as_bounded_index"), "M", "index >= bound", "index > bound")
case("try_as_bounded_index", S, "value.rs", A("try_as_bounded_index"), "M", '"{} index out of bounds."', '"{} index is out of bounds."')
case("try_as_bounded_index", S, "value.rs", A("try_as_bounded_index"), "R", r"\bbound\b", "limit", True)
case("try_as_bounded_index", S, "value.rs", A("try_as_bounded_index"), "R", r"\bindex\b(?! out)", "idx", True)
# ---- scanner.rs
case("is_alpha", C, "scanner.rs", A("is_alpha"), "M", "c == '_'", "c == '-'")
case("is_alpha", C, "scanner.rs", A("is_alpha"), "M", "!s.is_empty() && ", "")
case("is_alpha", C, "scanner.rs", A("is_alpha"), "R", "|c| c.is_ascii_alphabetic() || c == '_'", "|ch| ch.is_ascii_alphabetic() || ch == '_'")
case("is_alpha", C, "scanner.rs", A("is_alpha"), "R", r"\bs\b", "text", True)
case("is_digit", C, "scanner.rs", A("is_digit"), "M", "is_ascii_digit", "is_ascii_hexdigit")
case("is_digit", C, "scanner.rs", A("is_digit"), "M", "!s.is_empty() && ", "")
case("is_digit", C, "scanner.rs", A("is_digit"), "R", "|c| c.is_ascii_digit()", "|d| d.is_ascii_digit()")
case("is_digit", C, "scanner.rs", A("is_digit"), "R", r"\bs\b", "text", True)
case("is_at_end", C, "scanner.rs", A("is_at_end"), "M", "self.current >= self.source.len()", "self.current > self.source.len()")
case("is_at_end", C, "scanner.rs", A("is_at_end"), "M", "self.current >= self.source.len()", "self.start >= self.source.len()")
case("is_at_end", C, "scanner.rs", A("is_at_end"), "R", "self.current >= self.source.len()", "let n = self.source.len();\n        self.current >= n")
case("get_next_char_boundary", C, "scanner.rs", A("get_next_char_boundary"), "M", "(start + 1)", "(start + 2)")
case("get_next_char_boundary", C, "scanner.rs", A("get_next_char_boundary"), "M", "return pos;", "return pos + 1;")
case("get_next_char_boundary", C, "scanner.rs", A("get_next_char_boundary"), "R", r"\bpos\b", "p", True)
case("get_next_char_boundary", C, "scanner.rs", A("get_next_char_boundary"), "R", "for pos in (start + 1)..self.source.len() {", "let first = start + 1;\n        for pos in first..self.source.len() {")
case("peek", C, "scanner.rs", A("peek"), "M", "&self.source[self.current..slice_end]", "&self.source[self.start..slice_end]")
case("peek", C, "scanner.rs", A("peek"), "M", "self.get_next_char_boundary(self.current)", "self.get_next_char_boundary(self.current + 1)")
case("peek", C, "scanner.rs", A("peek"), "R", r"\bslice_end\b", "stop", True)
case("peek_next", C, "scanner.rs", A("peek_next"), "M", 'return "";', 'return "/";')
case("peek_next", C, "scanner.rs", A("peek_next"), "M", "let slice_end = self.get_next_char_boundary(slice_start);", "let slice_end = self.get_next_char_boundary(self.current);")
case("peek_next", C, "scanner.rs", A("peek_next"), "R", r"\bslice_start\b", "from", True)
case("advance", C, "scanner.rs", A("advance"), "M", "&self.source[slice_start..self.current]", "&self.source[self.start..self.current]")
case("advance", C, "scanner.rs", A("advance"), "M", "self.current = self.get_next_char_boundary(self.current);", "self.current = self.get_next_char_boundary(self.current + 1);")
case("advance", C, "scanner.rs", A("advance"), "R", r"\bslice_start\b", "from", True)
case("match_char", C, "scanner.rs", A("match_char"), "M", "!= expected", "== expected")
case("match_char", C, "scanner.rs", A("match_char"), "M", "self.current = next;\n", "")
case("match_char", C, "scanner.rs", A("match_char"), "R", r"\bnext\b", "stop", True)
case("match_char", C, "scanner.rs", A("match_char"), "R", "if &self.source[self.current..next] != expected {", "let found = &self.source[self.current..next];\n        if found != expected {")

K = "PureScanKw"
case("check_keyword", K, "scanner.rs", A("check_keyword"), "M", "self.current - self.start == start + rest.len()", "self.current - self.start >= start + rest.len()")
case("check_keyword", K, "scanner.rs", A("check_keyword"), "M", "return kind;", "return TokenKind::Identifier;")
case("check_keyword", K, "scanner.rs", A("check_keyword"), "M", "let slice_begin = self.start + start;", "let slice_begin = self.start + start + 1;")
case("check_keyword", K, "scanner.rs", A("check_keyword"), "R", r"\bslice_begin\b", "from", True)
case("check_keyword", K, "scanner.rs", A("check_keyword"), "R", "let slice_end = slice_begin + rest.len();", "let n = rest.len();\n        let slice_end = slice_begin + n;")
case("identifier_type", K, "scanner.rs", A("identifier_type"), "M", '"reak"', '"reac"')
case("identifier_type", K, "scanner.rs", A("identifier_type"), "M", 'self.check_keyword(3, "e", TokenKind::True)', 'self.check_keyword(3, "e", TokenKind::Try)')
case("identifier_type", K, "scanner.rs", A("identifier_type"), "M", "self.current - self.start > 1", "self.current - self.start > 0")
case("identifier_type", K, "scanner.rs", A("identifier_type"), "M", 'self.check_keyword(2, "lf", TokenKind::Self_)', 'self.check_keyword(1, "lf", TokenKind::Self_)')
case("identifier_type", K, "scanner.rs", A("identifier_type"), "R", r"\bnext\b", "second", True)
case("identifier_type", K, "scanner.rs", A("identifier_type"), "R", '"v" => self.check_keyword(1, "ar", TokenKind::Var),\n            "w" => self.check_keyword(1, "hile", TokenKind::While),', '"w" => self.check_keyword(1, "hile", TokenKind::While),\n            "v" => self.check_keyword(1, "ar", TokenKind::Var),')
case("TokenKind order", K, "scanner.rs", "pub enum TokenKind", "M", "    As,\n    In,", "    In,\n    As,")

P, F = "PureComp", "PureFiber"
AL = "fn add_local(&mut self, name: &Token) -> bool"
RL = "fn resolve_local(&self, name: &Token)"
AU = "fn add_upvalue(&mut self, index: u8"
case("add_local", P, "compiler.rs", AL, "M", "self.locals.len() == common::LOCALS_MAX", "self.locals.len() > common::LOCALS_MAX")
case("add_local", P, "compiler.rs", AL, "M", "depth: None,", "depth: Some(0),")
case("add_local", P, "compiler.rs", AL, "M", "is_captured: false,", "is_captured: true,")
case("add_local", P, "compiler.rs", AL, "R", "if self.locals.len() == common::LOCALS_MAX {", "let full = self.locals.len() == common::LOCALS_MAX;\n        if full {")
case("add_local", P, "compiler.rs", AL, "R", "name: name.source.clone(),\n            depth: None,", "depth: None,\n            name: name.source.clone(),")
case("resolve_local", P, "compiler.rs", RL, "M", "local.depth.is_none()", "local.depth.is_some()")
case("resolve_local", P, "compiler.rs", RL, "M", ".enumerate().rev()", ".enumerate()")
case("resolve_local", P, "compiler.rs", RL, "M", "Err(CompilerError::LocalNotFound)", "Err(CompilerError::ReadVarInInitialiser)")
case("resolve_local", P, "compiler.rs", RL, "R", r"\blocal\b", "entry", True)
case("resolve_local", P, "compiler.rs", RL, "R", "if local.depth.is_none() {", "let uninit = local.depth.is_none();\n                if uninit {")
case("add_upvalue", P, "compiler.rs", AU, "M", "upvalue.index == index && upvalue.is_local == is_local", "upvalue.index == index || upvalue.is_local == is_local")
case("add_upvalue", P, "compiler.rs", AU, "M", "upvalue_count == common::UPVALUES_MAX", "upvalue_count > common::UPVALUES_MAX")
case("add_upvalue", P, "compiler.rs", AU, "M", "self.function.upvalue_count += 1;\n", "")
case("add_upvalue", P, "compiler.rs", AU, "M", "return Ok(i as u8);", "return Ok(upvalue_count as u8);")
case("add_upvalue", P, "compiler.rs", AU, "R", r"\bupvalue\b", "uv", True)
case("add_upvalue", P, "compiler.rs", AU, "R", "if upvalue_count == common::UPVALUES_MAX {", "let full = upvalue_count == common::UPVALUES_MAX;\n        if full {")
case("push_exc_handler", F, "object.rs", A("push_exc_handler"), "M", "init_stack_size: self.stack.len(),", "init_stack_size: self.frames.len(),")
case("push_exc_handler", F, "object.rs", A("push_exc_handler"), "M", "frame_count: self.frames.len(),", "frame_count: self.exc_handlers.len(),")
case("push_exc_handler", F, "object.rs", A("push_exc_handler"), "M", "catch_ip,\n            finally_ip,", "catch_ip: finally_ip,\n            finally_ip: catch_ip,")
case("push_exc_handler", F, "object.rs", A("push_exc_handler"), "R", "init_stack_size: self.stack.len(),\n            frame_count: self.frames.len(),", "frame_count: self.frames.len(),\n            init_stack_size: self.stack.len(),")
case("push_exc_handler", F, "object.rs", A("push_exc_handler"), "R", "self.exc_handlers.push(ExcHandler {", "let height = self.stack.len();\n        self.exc_handlers.push(ExcHandler {")
case("pop_exc_handler", F, "object.rs", A("pop_exc_handler"), "M", "self.exc_handlers.pop()", "{ self.exc_handlers.pop(); self.exc_handlers.pop() }")
case("pop_exc_handler", F, "object.rs", A("pop_exc_handler"), "R", "self.exc_handlers.pop()", "let top = self.exc_handlers.pop();\n        top")

SW = A("skip_whitespace")
case("skip_whitespace", C, "scanner.rs", SW, "M", "self.line += 1;\n", "")
case("skip_whitespace", C, "scanner.rs", SW, "M", 'if self.peek_next() == "/"', 'if self.peek_next() == "*"')
case("skip_whitespace", C, "scanner.rs", SW, "M", 'self.peek() != "\\n"', 'self.peek() != "\\r"')
case("skip_whitespace", C, "scanner.rs", SW, "M", '"\\t" => {', '"\\x0b" => {')
case("skip_whitespace", C, "scanner.rs", SW, "M", "} else {\n                        return;\n                    }", "}")
case("skip_whitespace", C, "scanner.rs", SW, "R", r"\bc\b", "ch", True)
case("skip_whitespace", C, "scanner.rs", SW, "R", "if self.is_at_end() {\n                return;\n            }\n            let c = self.peek();", "let at_end = self.is_at_end();\n            if at_end {\n                return;\n            }\n            let c = self.peek();")

MT, NU = A("make_token"), A("number")
case("make_token", C, "scanner.rs", MT, "M", "&self.source[self.start..self.current]", "&self.source[self.start..self.current - 1]")
case("make_token", C, "scanner.rs", MT, "M", "line: self.line,", "line: self.start,")
case("make_token", C, "scanner.rs", MT, "R", "kind,\n            line: self.line,", "line: self.line,\n            kind,")
case("make_token", C, "scanner.rs", MT, "R", "Token {\n            kind,", "let line = self.line;\n        Token {\n            kind,")
case("number", C, "scanner.rs", NU, "M", 'self.peek() == "."', 'self.peek() == ","')
case("number", C, "scanner.rs", NU, "M", ' && is_digit(self.peek_next())', '')
case("number", C, "scanner.rs", NU, "M", "self.advance();\n\n            while is_digit(self.peek()) {\n                self.advance();\n            }", "self.advance();")
case("number", C, "scanner.rs", NU, "M", "TokenKind::Number", "TokenKind::Identifier")
case("number", C, "scanner.rs", NU, "R", 'if self.peek() == "." && is_digit(self.peek_next()) {', 'let dot = self.peek() == ".";\n        if dot && is_digit(self.peek_next()) {')
case("number", C, "scanner.rs", NU, "R", "self.make_token(TokenKind::Number)", "let kind = TokenKind::Number;\n        self.make_token(kind)")

GI = "fn string_get_item(&mut self)"
case("Vm::string_get_item", S, "vm.rs", GI, "M", "while end <= string.len()", "while end < string.len()")
case("Vm::string_get_item", S, "vm.rs", GI, "M", "let mut end = begin + 1;", "let mut end = begin;")
case("Vm::string_get_item", S, "vm.rs", GI, "M", "self.poke(0, Value::ObjString(new_string));", "self.poke(1, Value::ObjString(new_string));")
case("Vm::string_get_item", S, "vm.rs", GI, "M", "self.pop();\n", "")
case("Vm::string_get_item", S, "vm.rs", GI, "M", 'string.validate_char_boundary(end, "string slice end")?;\n', "")
case("Vm::string_get_item", S, "vm.rs", GI, "M", "self\n            .peek(1)", "self\n            .peek(0)")
case("Vm::string_get_item", S, "vm.rs", GI, "R", r"\bbegin\b", "first", True)
case("Vm::string_get_item", S, "vm.rs", GI, "R", "let new_string = self.new_gc_obj_string(&string.as_str()[begin..end]);", "let slice = &string.as_str()[begin..end];\n        let new_string = self.new_gc_obj_string(slice);")

ID, BT, ET = A("identifier"), A("binary_token"), A("error_token")
case("identifier", K, "scanner.rs", ID, "M", "is_alpha(self.peek()) || is_digit(self.peek())", "is_alpha(self.peek()) && is_digit(self.peek())")
case("identifier", K, "scanner.rs", ID, "M", " || is_digit(self.peek())", "")
case("identifier", K, "scanner.rs", ID, "M", "self.make_token(self.identifier_type())", "self.make_token(TokenKind::Identifier)")
case("identifier", K, "scanner.rs", ID, "R", "self.make_token(self.identifier_type())", "let kind = self.identifier_type();\n        self.make_token(kind)")
case("binary_token", K, "scanner.rs", BT, "M", 'self.match_char("=")', 'self.match_char("-")')
case("binary_token", K, "scanner.rs", BT, "M", "if match_char { assign_kind } else { bare_kind }", "if match_char { bare_kind } else { assign_kind }")
case("binary_token", K, "scanner.rs", BT, "R", 'let match_char = self.match_char("=");\n        self.make_token(if match_char {', 'let matched = self.match_char("=");\n        self.make_token(if matched {')
case("error_token", K, "scanner.rs", ET, "M", "kind: TokenKind::Error,", "kind: TokenKind::Eof,")
case("error_token", K, "scanner.rs", ET, "M", "line: self.line,", "line: self.start,")
case("error_token", K, "scanner.rs", ET, "R", "kind: TokenKind::Error,\n            line: self.line,", "line: self.line,\n            kind: TokenKind::Error,")

case("advance", C, "scanner.rs", A("advance"), "R", "self.current = self.get_next_char_boundary(self.current);", "let next = self.get_next_char_boundary(self.current);\n        self.current = next;")
case("binary_token", K, "scanner.rs", BT, "R", "self.make_token(if match_char { assign_kind } else { bare_kind })", "let kind = if match_char { assign_kind } else { bare_kind };\n        self.make_token(kind)")
case("error_token", K, "scanner.rs", ET, "R", r"\bmessage\b", "msg", True)
case("identifier", K, "scanner.rs", ID, "R", "while is_alpha(self.peek()) || is_digit(self.peek()) {", "while (is_alpha(self.peek())) || (is_digit(self.peek())) {")
case("is_at_end", C, "scanner.rs", A("is_at_end"), "R", "self.current >= self.source.len()", "let cur = self.current;\n        cur >= self.source.len()")
case("peek", C, "scanner.rs", A("peek"), "R", "let slice_end = self.get_next_char_boundary(self.current);\n        &self.source[self.current..slice_end]", "&self.source[self.current..self.get_next_char_boundary(self.current)]")
case("peek_next", C, "scanner.rs", A("peek_next"), "R", "if self.is_at_end() {", "let at_end = self.is_at_end();\n        if at_end {")
case("pop_exc_handler", F, "object.rs", A("pop_exc_handler"), "M", "self.exc_handlers.pop()", "None")
case("pop_exc_handler", F, "object.rs", A("pop_exc_handler"), "R", "self.exc_handlers.pop()", "return self.exc_handlers.pop();")

def run_case(idx):
    c = CASES[idx]
    w = "%s/mut/w%d" % (BASE, idx)
    shutil.rmtree(w, ignore_errors=True)
    os.makedirs(w + "/repo/yarel")
    shutil.copytree(SRC0, w + "/repo/yarel/src")
    p = "%s/repo/yarel/src/%s" % (w, c["file"])
    text = open(p).read()
    i, j = fn_region(text, c["anchor"])
    region = text[i:j]
    if c["regex"]:
        new_region, n = re.subn(c["old"], c["new"], region)
    else:
        n = region.count(c["old"])
        new_region = region.replace(c["old"], c["new"], 1)
    if n == 0:
        return idx, "NOT-APPLIED", ""
    open(p, "w").write(text[:i] + new_region + text[j:])
    # symlink copy of the coq tree, with real files for what is rebuilt
    subprocess.run(["cp", "-rs", BASE + "/coq", w + "/coq"], check=True)
    names = ["gen/PureComp", "gen/PureFiber", "theories/PureEquivComp", "theories/PureEquivFiber", "gen/PureStr", "gen/PureScan", "gen/PureIndex", "theories/PureEquivStr", "theories/PureEquivScan", "theories/PureEquivScanKw", "theories/PureEquivIndex"]
    for nm in names:
        for ext in (".v", ".vo", ".vok", ".vos", ".glob"):
            f = "%s/coq/%s%s" % (w, nm, ext)
            if os.path.islink(f):
                os.unlink(f)
        d, b = os.path.split(nm)
        aux = "%s/coq/%s/.%s.aux" % (w, d, b)
        if os.path.islink(aux):
            os.unlink(aux)
    for nm in ("theories/PureEquivStr", "theories/PureEquivScan", "theories/PureEquivScanKw", "theories/PureEquivIndex", "theories/PureEquivComp", "theories/PureEquivFiber"):
        shutil.copy("%s/coq/%s.v" % (BASE, nm), "%s/coq/%s.v" % (w, nm))
    gen = subprocess.run([sys.executable, "-c", """
import sys, os
sys.path.insert(0, %r)
os.environ['VERIF_REPO'] = %r
import translate_r2g as t
m = {}
for f in ('PureIndex.v', 'PureStr.v', 'PureScan.v', 'PureComp.v', 'PureFiber.v'):
    open(%r + '/coq/gen/' + f, 'w').write(t.GENERATORS[f](m))
print(m.get('r2g_untranslatable'))
""" % (BASE + "/translator", w + "/repo", w)], capture_output=True, text=True)
    untr = gen.stdout.strip()
    order = ["gen/PureIndex.v", "theories/PureEquivIndex.v"] + (["gen/PureStr.v", "theories/PureEquivStr.v"] if c["group"] == S else ["gen/PureScan.v", "theories/PureEquivScan.v"])
    if c["group"] in (P, F):
        order = ["gen/%s.v" % c["group"], "theories/%s.v" % c["group"].replace("Pure", "PureEquiv")]
    elif c["group"] == K:
        order = ["gen/PureScan.v", "theories/PureEquivScan.v", "theories/PureEquivScanKw.v"]
    elif c["file"] == "scanner.rs":
        order = ["gen/PureScan.v", "theories/PureEquivScan.v", "theories/PureEquivScanKw.v"]
    elif c["file"] in ("core.rs", "object.rs", "vm.rs") and c["fn"] != "validate_char_boundary":
        order = ["gen/PureIndex.v", "theories/PureEquivIndex.v", "gen/PureStr.v", "theories/PureEquivStr.v"]
    res = "ok"
    where = ""
    for f in order:
        r = subprocess.run(["timeout", "600", "coqc", "-Q", "theories", "YV", "-Q", "gen", "YVGen", "-Q", "props", "YVProps", f],
                           cwd=w + "/coq", capture_output=True, text=True)
        if r.returncode != 0:
            m = re.search(r'File "\./([^"]+)", line (\d+)', r.stderr)
            where = "%s:%s" % (m.group(1), m.group(2)) if m else r.stderr[:100]
            # name of the enclosing theorem
            if m and m.group(1).startswith("theories"):
                lines = open("%s/coq/%s" % (w, m.group(1))).read().split("\n")[:int(m.group(2))]
                for ln in reversed(lines):
                    mm = re.match(r"^\s*(Theorem|Lemma|Corollary)\s+(\w+)", ln)
                    if mm:
                        where += " (%s)" % mm.group(2)
                        break
            res = "BROKEN"
            break
    shutil.rmtree(w, ignore_errors=True)
    return idx, res, where + ((" untranslatable=" + untr) if untr != "None" else "")

if __name__ == "__main__":
    sel = range(len(CASES))
    if len(sys.argv) > 1:
        sel = [int(x) for x in sys.argv[1:]]
    out = {}
    with ThreadPoolExecutor(max_workers=4) as ex:
        for idx, res, where in ex.map(run_case, sel):
            c = CASES[idx]
            good = (c["kind"] == "M" and res == "BROKEN") or (c["kind"] == "R" and res == "ok")
            print("%2d %-26s %s %-6s %-4s %s | %s -> %s" % (idx, c["fn"], c["kind"], res, "OK" if good else "!!",
                  where, c["old"][:40].replace("\n", " "), c["new"][:40].replace("\n", " ")), flush=True)
            out[idx] = dict(c, result=res, where=where, good=good)
    json.dump(out, open(BASE + "/mut/results_%d.json" % os.getpid(), "w"), indent=1)
