#!/usr/bin/env python3
"""tie for the Scanner-newline model update: real scanner (harness `compile`) vs Scanner.v/Parser.v on sources with raw line
breaks inside \\x/\\u/\\U escapes (family esc, /repo 914ba97) and right after `\\` / `$` (family swallow, /repo e81033c).
Compared: first message, last message (`var = 2;` after the literal), and for every model token: tline = 1 + newline bytes before
ScannerLineExact.token_offset (Spec, computed here from the source text)."""
import random, re, subprocess, sys, os
seed = int(sys.argv[1]) if len(sys.argv) > 1 else 0
N = int(sys.argv[2]) if len(sys.argv) > 2 else 300
rng = random.Random(seed)
HEX = "0123456789abcdefABCDEF"

def escape_with_breaks():
    kind = rng.choice("xuU")
    nd = {"x": 2, "u": 4, "U": 8}[kind]
    digits = [rng.choice(HEX) for _ in range(nd)]
    nb = rng.choice([0, 1, 1, 1, 2, 3])
    for _ in range(nb):
        pos = rng.randrange(0, len(digits) + 1)
        digits.insert(pos, rng.choice(["\n", "\n", "\r\n"]))
    return "\\" + kind + "".join(digits)

def text():
    return "".join(rng.choice(["a", "b ", "\n", "\\n", "\\t", "\\\\", "\u00e9", "\r\n", "x1", " "]) for _ in range(rng.randrange(0, 4)))

def case_esc():
    pre = "".join(rng.choice(["\n", "// c\n", "var p = 1;\n", "\r\n"]) for _ in range(rng.randrange(0, 4)))
    body = text() + "".join(escape_with_breaks() + text() for _ in range(rng.randrange(1, 4)))
    mid = "".join(rng.choice(["\n", " ", "\r\n"]) for _ in range(rng.randrange(0, 3)))
    return pre + 'var s = "' + body + '";' + mid + "var = 2;"

def case_swallow():
    pre = "".join(rng.choice(["\n", "var p = 1;\n"]) for _ in range(rng.randrange(0, 3)))
    sw = rng.choice(["\\\n", "$\n"])
    mid = "".join(rng.choice(["\n", " "]) for _ in range(rng.randrange(0, 3)))
    return pre + 'var s = "' + text().replace("$", "") + sw + '";";' + mid + "var = 2;"

cases = [("esc", case_esc()) for _ in range(N)] + [("swallow", case_swallow()) for _ in range(N // 3)]
cases = [(f, s) for f, s in cases if "$" not in s or f == "swallow"]

# --- real
binary = "/verif/build/cargo/debug/yv"
inp = "".join("compile %s\n" % s.encode().hex() for _, s in cases)
out = subprocess.run([binary], input=inp, capture_output=True, text=True, timeout=600).stdout
real, cur = [], None
for ln in out.splitlines():
    if ln.startswith("BEGIN"):
        cur = []
    elif ln.startswith("M "):
        cur.append(bytes.fromhex(ln[2:]).decode("utf-8", "replace"))
    elif ln.startswith("END"):
        real.append(cur)
assert len(real) == len(cases), (len(real), len(cases))

# --- model
os.makedirs("/tmp/scanner-newline-tie", exist_ok=True)
path = "/tmp/scanner-newline-tie/cases.v"
with open(path, "w") as fh:
    fh.write("From YV Require Import Show Scanner Parser ParseRun ScannerLineExact.\nFrom Coq Require Import String List NArith.\nImport ListNotations.\nOpen Scope string_scope.\nSet Printing Width 1000000.\nSet Printing Depth 1000000.\n")
    fh.write('Definition tie (h : string) : string := let src := bytes_of_hex h in show_presult (parse_source src) ++ "|" ++ show_sep " " (fun te => show_nat (tkind_index (tk (fst te))) ++ ":" ++ show_N (tline (fst te)) ++ ":" ++ show_nat (token_offset src te)) (scan_ends src).\n')
    for _, s in cases:
        fh.write('Eval vm_compute in (tie "%s").\n' % s.encode().hex())
p = subprocess.run("cd /verif/coq && timeout 900 coqc -noglob -Q theories YV -Q gen YVGen %s" % path, shell=True, capture_output=True, text=True)
vals = re.findall(r'^\s*= "((?:[^"]|"")*)"\s*\n\s*: string', p.stdout, re.M)
assert p.returncode == 0 and len(vals) == len(cases), (p.returncode, len(vals), p.stderr[-2000:])

def unesc(s):
    b = bytearray(); i = 0
    while i < len(s):
        if s.startswith("\\x", i) and i + 4 <= len(s):
            b.append(int(s[i + 2:i + 4], 16)); i += 4
        else:
            b.extend(s[i].encode()); i += 1
    return b.decode("utf-8", "replace")

def model_message(m):
    _, line, at, msg = m.split(" ", 3)
    where = " at end" if at == "end" else "" if at == "none" else " at '%s'" % unesc(at[4:])
    return '[module "main", line %s] Error%s: %s' % (line, where, unesc(msg))

st = dict(first_agree=0, first_differ=0, second_agree=0, second_differ=0, spec_exact_tokens=0, spec_short_tokens=0, tokens=0,
          cases_all_exact=0, cases_with_deficit=0, lf_in_escape=0)
bad = []
for (fam, src), msgs, v in zip(cases, real, vals):
    first, toks = v.replace('""', '"').split("|", 1)
    toks = [tuple(int(x) for x in t.split(":")) for t in toks.split(" ")]
    mm = model_message(first)
    if msgs and msgs[0] == mm: st["first_agree"] += 1
    else: st["first_differ"] += 1; bad.append((fam, src, msgs[:2], mm))
    # second message: the `=` of `var = 2;` is the last TEqual token
    eq = [t for t in toks if t[0] == 21][-1]
    want2 = '[module "main", line %d] Error at \'=\': Expected variable name.' % eq[1]
    if msgs and msgs[-1] == want2: st["second_agree"] += 1
    else: st["second_differ"] += 1; bad.append((fam, src, msgs, want2))
    raw = src.encode()
    ex = True
    for k, line, e in toks:
        st["tokens"] += 1
        if line == 1 + raw[:e].count(b"\n"): st["spec_exact_tokens"] += 1
        else: st["spec_short_tokens"] += 1; ex = False
    st["cases_all_exact" if ex else "cases_with_deficit"] += 1
    if ex is False: bad.append((fam, src, "token line differs from 1 + newlines before its offset", toks))
    if re.search(r'\\[xuU][0-9a-fA-F\r]*\n', src): st["lf_in_escape"] += 1
print("seed", seed, "cases", len(cases), st)
for b in bad[:5]:
    print("BAD", repr(b))
