#!/usr/bin/env python3
"""BcVM correspondence driver: the REAL compiler's byte code is executed by the Gallina model of the
interpreter loop (coq/theories/BcVM.v, entry points in BcVMRun.v) and the printed lines + outcome are compared
with what the real VM does (harness `run` / `mods`).

    for each program:  harness `compile` (script, core.yl, every imported module)  ->  wire string
                       ->  coqc / vm_compute  YV.BcVMRun.run_wire  ->  compare with harness `mods`

Stand-alone:   python3 tools/bcvm_corr.py [--scripts DIR] [--only SUBSTR] [--limit N] [--fuel BLOCKS] [--json OUT]
Plug-in use:   from bcvm_corr import bcvm_check;  bcvm_check(ctx, budget_s)
"""
import json
import os
import re
import sys
import time

sys.path.insert(0, os.path.dirname(os.path.abspath(__file__)))
import yvlib  # noqa: E402
from yvlib import hx, unhx, log  # noqa: E402

SCRIPTS = os.path.join(yvlib.REPO, "yarel", "tests", "scripts")
CORE_YL = os.path.join(yvlib.REPO, "yarel", "src", "core.yl")
DEFAULT_FUEL = 3000          # blocks of 1000 instructions
ADDR_RE = re.compile(r"0x[0-9a-f]+")
IMPORT_RE = re.compile(r'import\s+"([^"]*)"')


def default_binary():
    for p in ("release", "debug"):
        b = os.path.join(yvlib.BUILD, "cargo", p, "yv")
        if os.path.exists(b):
            return b
    return yvlib.build_harness("release")


# ------------------------------------------------------------------------------------------------
# function trees

class Tree:
    """function tree dumped by harness `compile`: list of (arity, upvalues, name, code, lines, consts)"""

    def __init__(self, rec):
        self.ok = rec.result[0] == "ok"
        self.kind = rec.result[1] if not self.ok else ""
        self.messages = rec.messages
        self.fns = []
        if not self.ok:
            return
        heads, consts, lines = {}, {}, {}
        for l in rec.lines:
            p = l.split(" ")
            if p[0] == "F":
                heads[int(p[1])] = (int(p[2]), int(p[3]), b"" if p[4] == "-" else unhx(p[4]),
                                    b"" if p[5] == "-" else unhx(p[5]))
            elif p[0] == "C":
                consts[int(p[1])] = [c for c in p[2:] if c]
            elif p[0] == "LN":
                lines[int(p[1])] = [int(x) for x in p[2].split(",")] if len(p) > 2 and p[2] else []
        for i in range(len(heads)):
            ar, uv, name, code = heads[i]
            self.fns.append((ar, uv, name, code, lines.get(i, []), consts.get(i, [])))

    def wire(self):
        """groups of the compact numeric format (see BcVMRun.v)"""
        g = [str(len(self.fns))]
        for ar, uv, name, code, lines, consts in self.fns:
            g.append("%d %d %d" % (ar, uv, len(consts)))
            g.append(" ".join(str(c) for c in name))
            g.append(" ".join(str(c) for c in code))
            rle = []
            for ln in lines:
                if rle and rle[-1][0] == ln:
                    rle[-1][1] += 1
                else:
                    rle.append([ln, 1])
            g.append(" ".join("%d %d" % (a, b) for a, b in rle))
            for c in consts:
                if c[0] == "s":
                    g.append(" ".join(["0"] + [str(x) for x in unhx(c[1:])]))
                elif c[0] == "n":
                    g.append("1 %s" % c[1:])
                elif c[0] == "f":
                    g.append("2 %s" % c[1:])
                else:
                    g.append("3")
        return ";".join(g)


def module_paths(src, loaded=None, root=SCRIPTS):
    """transitive closure of the `import "path"` statements whose file exists under `root`"""
    loaded = {} if loaded is None else loaded
    for p in IMPORT_RE.findall(src):
        if p in loaded:
            continue
        f = os.path.join(root, p + ".yl")
        if os.path.isfile(f):
            with open(f, encoding="utf-8", errors="surrogateescape") as fh:
                loaded[p] = fh.read()
            module_paths(loaded[p], loaded, root)
    return loaded


class Case:
    def __init__(self, name, src, mods=None):
        self.name = name
        self.src = src
        self.mods = module_paths(src) if mods is None else mods   # path -> source


def hexs(s):
    return hx(s.encode("utf-8", "surrogateescape")) if isinstance(s, str) else hx(s)


def compile_all(binary, cases, core_src):
    """-> (core Tree, [main Tree], {(module path, module source) -> Tree})"""
    srcs = [core_src] + [c.src for c in cases]
    mods = sorted({(p, m) for c in cases for p, m in c.mods.items()})
    recs = yvlib.run_harness(binary, ["compile %s" % hexs(s) for s in srcs + [m for _, m in mods]])
    trees = [Tree(r) for r in recs]
    modtrees = dict(zip(mods, trees[1 + len(cases):]))
    # a module that does not compile: `compile` reports the messages for module "main"; the texts the VM puts
    # into the ImportError carry the module's own path - take them from a real import of that module
    bad = [k for k in mods if not modtrees[k].ok]
    if bad:
        recs = yvlib.run_harness(binary, ["mods gc=default %s %s=%s" % (hexs('import "%s";' % p), hexs(p), hexs(m))
                                          for p, m in bad])
        for k, r in zip(bad, recs):
            msgs = [m[4:] for m in r.messages if m.startswith("    ")]
            if msgs:
                modtrees[k].messages = msgs
    return trees[0], trees[1:1 + len(cases)], modtrees


def wire_of(core, main, case, modtrees):
    secs = [core.wire(), main.wire()]
    for path in sorted(case.mods):
        t = modtrees[(path, case.mods[path])]
        pb = " ".join(str(c) for c in path.encode())
        if t.ok:
            secs.append("0;%s;%s" % (pb, t.wire()))
        else:
            msgs = [" ".join(str(c) for c in m.encode()) for m in t.messages]
            secs.append(";".join(["1", pb, str(len(msgs))] + msgs))
    return "|".join(secs)


def run_impl(binary, cases, timeout_ms=20000):
    lines = []
    for c in cases:
        mods = " ".join("%s=%s" % (hexs(p), hexs(s)) for p, s in sorted(c.mods.items()))
        lines.append(("mods gc=default %s %s" % (hexs(c.src), mods)).rstrip())
    return yvlib.run_harness(binary, lines, case_timeout_ms=timeout_ms)


def norm(s):
    return ADDR_RE.sub("ADDR", s)


def xh(s):
    """plain hex (yvlib.hx writes '-' for the empty string)"""
    return s.encode("utf-8", "surrogateescape").hex()


def impl_outcome(rec):
    """canonical outcome string of the implementation, in the format of BcVMRun.show_brres"""
    outs = ",".join(xh(norm(o)) for o in rec.output)
    k, v = rec.result
    if k == "ok":
        res = "ok:" + xh(norm(v))
    elif k == "err":
        res = "err:%s:[%s]" % (v, ",".join(xh(norm(m)) for m in rec.messages))
    else:
        res = "%s:%s" % (k, v)
    return "out=[%s];res=%s" % (outs, res)


def decode_outcome(s):
    """human-readable form of an outcome string"""
    m = re.match(r"out=\[(.*?)\];res=(.*)$", s or "")
    if not m:
        return repr(s)
    outs = [bytes.fromhex(x).decode("utf-8", "replace") for x in m.group(1).split(",")] if m.group(1) else []
    res = m.group(2)
    mm = re.match(r"err:(\w+):\[(.*)\]$", res)
    if mm:
        res = "err:%s:%s" % (mm.group(1), [unhx(x).decode("utf-8", "replace") for x in mm.group(2).split(",") if x])
    elif res.startswith("ok:"):
        res = "ok:" + unhx(res[3:]).decode("utf-8", "replace")
    return "out=%s res=%s" % (outs, res)


def ensure_built():
    """stand-alone use: compile BcVM.v / BcVMRun.v by hand when their .vo is missing or stale"""
    th = os.path.join(yvlib.COQ, "theories")
    for f in ("BcVM", "BcVMRun"):
        v, vo = os.path.join(th, f + ".v"), os.path.join(th, f + ".vo")
        if not os.path.exists(vo) or os.path.getmtime(vo) < os.path.getmtime(v):
            ok, out = yvlib.coqc_file(os.path.join("theories", f + ".v"))
            if not ok:
                raise RuntimeError("coqc %s.v failed:\n%s" % (f, out[-2000:]))


def eval_model(wires, fuel=DEFAULT_FUEL, standalone=True, shard_size=12, tag="bcvm", entry="run_wire"):
    if standalone:
        ensure_built()
        os.environ["YV_NO_EVAL_MAKE"] = "1"
    terms = ['YV.BcVMRun.%s %d "%s"%%string' % (entry, fuel, w) for w in wires]
    try:
        return yvlib.coq_eval(["YV:BcVMRun"], terms, shard_size=shard_size, timeout=900, tag=tag,
                               preamble="Open Scope string_scope.")
    finally:
        if standalone:
            os.environ.pop("YV_NO_EVAL_MAKE", None)


def compare(binary, cases, fuel=DEFAULT_FUEL, standalone=True, tag="bcvm", timeout_ms=20000):
    """-> list of dicts {name, status: agree|disagree|skip, impl, model, why}"""
    with open(CORE_YL) as fh:
        core_src = fh.read()
    core, mains, modtrees = compile_all(binary, cases, core_src)
    if not core.ok:
        raise RuntimeError("core.yl does not compile: %s" % core.messages)
    runnable = [(c, t) for c, t in zip(cases, mains) if t.ok]
    impl = run_impl(binary, [c for c, _ in runnable], timeout_ms)
    wires = [wire_of(core, t, c, modtrees) for c, t in runnable]
    model = eval_model(wires, fuel, standalone, tag=tag)
    res = []
    it = iter(zip(impl, model))
    for c, t in zip(cases, mains):
        if not t.ok:
            res.append({"name": c.name, "status": "skip", "why": "compile error (no byte code)"})
            continue
        r, m = next(it)
        io = impl_outcome(r)
        if r.result[0] in ("crash", "none"):
            # the implementation crashed / hung (watchdog) where the model has an answer: a disagreement unless the
            # model ran out of fuel as well; callers re-run such a case alone before they believe it
            st = "skip" if (m is None or m.endswith("res=fuel")) else "disagree"
            res.append({"name": c.name, "status": st, "why": "implementation " + str(r.result), "model": m,
                        "impl": "out=[];res=%s:%s" % r.result, "impl_crash": True})
        elif m == io:
            res.append({"name": c.name, "status": "agree", "impl": io})
        else:
            res.append({"name": c.name, "status": "disagree", "impl": io, "model": m})
    return res


def compare_traces(binary, cases, limit=4000, standalone=True, tag="bcvm_trace"):
    """per-instruction comparison with hook H4 (harness `trace`): for each dispatched instruction the running fiber and
    function (first-seen numbering), pc, opcode, stack length, slot base, frame count, handling_exception, pending
    return, has-caller, the handler stack (catch, finally, height, frame count) and the open-upvalue slots must be
    equal, for the first `limit` instructions.  Only for programs without modules (the trace command has no loader)."""
    with open(CORE_YL) as fh:
        core_src = fh.read()
    cases = [c for c in cases if not c.mods and "import" not in c.src]
    core, mains, modtrees = compile_all(binary, cases, core_src)
    runnable = [(c, t) for c, t in zip(cases, mains) if t.ok]
    recs = yvlib.run_harness(binary, ["trace gc=default %d %s" % (limit, hexs(c.src)) for c, _ in runnable])
    wires = [wire_of(core, t, c, modtrees) for c, t in runnable]
    model = eval_model(wires, limit, standalone, tag=tag, entry="trace_wire")
    def canon(fields):
        # -> flat list of fields; handlers split into their four numbers
        hs = fields[10][2:]
        out = list(fields[:10])
        for h in (hs.split(";") if hs else []):
            out += h.split(",") + [";"]
        return out + fields[11:]

    def same(a, b):
        # "?" on the model side = the harness cannot compute this number (see BcVMRun.show_handler / trace_rec)
        return len(a) == len(b) and all(x == y or y == "?" for x, y in zip(a, b))

    res = []
    for (c, _), r, m in zip(runnable, recs, model):
        if r.result[0] in ("crash", "none") or m is None:
            res.append({"name": c.name, "status": "skip", "why": "no trace (%s)" % (r.result[0],), "steps": 0})
            continue
        ids = {}
        impl = []
        for t in r.tagged("T"):
            # fiber function pc opcode stack_len slot_base frames he retpend ptr_ok has_caller h: u:
            impl.append(canon(t[0:9] + t[10:]))
        mt, mres = m.rsplit("|", 1)
        ids = {}
        mod = []
        for t in (mt.split("/") if mt else []):
            f = t.split(" ")
            f[0] = str(ids.setdefault(("fib", f[0]), len(ids)))
            f[1] = str(ids.setdefault(("fn", f[1]), len(ids)))
            mod.append(canon(f))
        n = min(len(impl), len(mod))
        bad = next((i for i in range(n) if not same(impl[i], mod[i])), None)
        if bad is None and len(impl) != len(mod) and (len(impl) < limit or len(mod) < limit):
            bad = n
        if bad is None:
            res.append({"name": c.name, "status": "agree", "steps": n})
        else:
            res.append({"name": c.name, "status": "disagree", "steps": n, "at": bad,
                        "impl": " ".join(impl[bad]) if bad < len(impl) else None,
                        "model": " ".join(mod[bad]) if bad < len(mod) else None,
                        "before": [" ".join(x) for x in impl[max(0, bad - 3):bad]]})
    return res


def repo_cases(only=None, limit=None):
    cases = []
    for d, _, fs in sorted(os.walk(SCRIPTS)):
        for f in sorted(fs):
            if not f.endswith(".yl"):
                continue
            p = os.path.join(d, f)
            if not os.path.isfile(p):
                continue
            name = os.path.relpath(p, SCRIPTS)
            if only and only not in name:
                continue
            with open(p, encoding="utf-8", errors="surrogateescape") as fh:
                cases.append(Case(name, fh.read()))
    return cases[:limit] if limit else cases


def directed_cases():
    """Directed family (deterministic): a closure captures a local declared INSIDE a try block / loop body, the block is
    left through every kind of exit (throw, failing built-in, failing native, callee's exception, return, break,
    continue, normal end) under every handler shape (catch, finally, both), in every kind of function (script level,
    function, method, fiber); afterwards the captured variable is updated through the closure while the dead stack
    slots are reused by new locals.  Aimed at: close_upvalues on the exceptional and the JumpFinally edges, upvalue
    sharing, handler heights, handling_exception across finally blocks."""
    exits = {
        "throw": 'throw "E";',
        "fail": "nil + 1;",
        "nfail": '"12x".to_num();',
        "callee": "boom();",
        "ret": "return 7;",
        "brk": "break;",
        "cont": "continue;",
        "end": "",
    }
    shapes = {
        "c": ("", "catch e { print(e); print(keep()); }", ""),
        "f": ("", "", "finally { print(keep()); }"),
        "cf": ("", "catch e { print(keep()); }", "finally { print(keep()); }"),
    }
    cases = []
    for en, ex in sorted(exits.items()):
        for sn, (_, cat, fin) in sorted(shapes.items()):
            body = ("var n = 0; while n < 2 { n = n + 1; try { var x = n * 10; var y = x + 1; "
                    "keep = || { x = x + 1; y = y + x; return (x, y); }; share = || x; print(keep()); %s print(\"tail\"); } "
                    "%s %s var p = 100; var q = 200; var r = 300; print(keep()); print(share()); print(p + q + r); } "
                    "return keep;" % (ex, cat, fin))
            pre = 'var keep = nil; var share = nil; fn boom() { var z = [1]; return z[5]; } '
            kinds = {
                "fn": pre + "fn f() { %s } var k = nil; try { k = f(); } catch e2 { print(\"out\"); print(e2); } "
                            "print(keep()); print(share());" % body,
                "method": pre + "#[constructor(new)] class C { fn m(self) { %s } } var k = nil; try { k = C.new().m(); } "
                                "catch e2 { print(\"out\"); } print(keep()); print(share());" % body,
                "fiber": pre + "var fb = Fiber.new(|| { %s }); try { print(fb.call()); } catch e2 { print(\"out\"); } "
                               "print(keep()); print(share());" % body,
                "lambda": pre + "var g = || { %s }; try { g(); } catch e2 { print(\"out\"); } print(keep()); print(share());" % body,
            }
            for kn, src in sorted(kinds.items()):
                cases.append(Case("directed/%s-%s-%s" % (en, sn, kn), src.replace('\\"', '"'), {}))
    return cases


def directed_misc():
    """hand-written corner cases of vm.rs, one observable per decision the unit tests do not reach (each one was
    added for a hand mutation of vm.rs that the other families let through, see notes/BcVM.md)"""
    P = []

    def add(name, src, mods=None):
        P.append(Case("misc/" + name, src, mods or {}))

    # call_closure: the frame limit, exactly (FRAMES_MAX = 64 incl. the script frame), in every kind of frame
    add("frames-fn", "fn f(n) { if n == 0 { return 0; } return 1 + f(n - 1); } "
        + " ".join('try { print(f(%d)); } catch e { print("%d"); print(e.context); }' % (n, n) for n in (60, 61, 62, 63, 64, 65)))
    add("frames-method", "#[constructor(new)] class C { fn m(self, n) { if n == 0 { return 0; } return 1 + self.m(n - 1); } } var c = C.new(); "
        + " ".join('try { print(c.m(%d)); } catch e { print("%d"); print(e.context); }' % (n, n) for n in (61, 62, 63, 64)))
    add("frames-fiber", "fn f(n) { if n == 0 { return 0; } return 1 + f(n - 1); } "
        + " ".join('var fb%d = Fiber.new(|| { try { return f(%d); } catch e { return e.context; } }); print(fb%d.call());' % (n, n, n)
                   for n in (61, 62, 63, 64)))
    add("frames-uncaught", "fn f(n) { if n == 0 { return 0; } return 1 + f(n - 1); } print(f(62)); print(f(70));")
    # jump_if_stop_iter: a class DERIVED from StopIter ends a for loop; an unrelated instance does not
    add("stopiter-derived", "#[derive(StopIter)] class MyStop { #[constructor] fn new(self) { super.new(); } } "
        "#[derive(MyStop)] class Deeper { #[constructor] fn new(self) { super.new(); } } "
        "class It { #[constructor] fn new(self, k) { self.i = 0; self.k = k; } fn iter(self) { return self; } "
        "fn next(self) { self.i = self.i + 1; if self.i > 3 { if self.k == 0 { return MyStop.new(); } "
        "if self.k == 1 { return Deeper.new(); } return StopIter.new(); } return self.i; } } "
        "for k in 0..3 { for v in It.new(k) { print(v); } print(\"end\"); } "
        "print(It.new(0).map(|x| x * 2).collect()); print(It.new(1).filter(|x| x > 1).collect());")
    # set_global: assigning an undefined global must leave it undefined
    add("setglobal-undefined", 'try { nope = 1; } catch e { print(e.context); } try { print(nope); } catch e { print("still undefined"); print(e.context); } '
        'var nope = 2; nope = 3; print(nope); fn g() { try { zz = 1; } catch e { print(e.context); } try { return zz; } catch e { return "undef"; } } print(g());')
    # invoke: a callable FIELD wins over a method; module attributes; bound natives; errors
    add("invoke-priority", '#[constructor(new)] class A { fn m(self) { return "method"; } fn n(self) { return "n"; } } var a = A.new(); print(a.m()); '
        'a.m = || "field"; print(a.m()); var bm = a.n; a.n = 5; try { a.n(); } catch e { print(e.context); } print(bm()); '
        'var p = [1].push; print(p(2)); var l = "abc".len; print(l()); try { a.zz(); } catch e { print(e.context); } '
        'try { nil.foo(); } catch e { print(e.context); } try { 5(); } catch e { print(e.context); } try { a.m(1); } catch e { print(e.context); }')
    add("property-errors", '#[constructor(new)] class A {} var a = A.new(); try { 5.x = 1; } catch e { print(e.context); } try { print(a.x); } catch e { print(e.context); } '
        'a.x = 1; a.x += 2; print(a.x); try { print("s".nope); } catch e { print(e.context); } try { A.x = 2; } catch e { print(e.context); } print(type(a.x)); ')
    add("classes-statics", 'class A { #[static] fn s() { return "s"; } fn m(self) { return Self; } #[constructor] fn new(self) { self.v = 1; } } '
        '#[derive(A)] class B { #[constructor] fn new(self) { super.new(); } fn t(self) { var f = || super.m(); return f; } } '
        'print(A.s()); print(A.new().s()); try { print(B.s()); } catch e { print(e.context); } try { print(B.new().t()()); } catch e { print(e.context); } '
        'var five = 5; fn mkc() { #[derive(five)] class C {} return C; } try { mkc(); } catch e { print(e.context); } print(A.new().derives(A)); print(B.new().derives(A)); print(A.new().derives(B)); '
        'try { A.new().derives(1); } catch e { print(e.context); } print(type(A)); print(type(type(A))); print(A); print(B.new());')
    add("ranges-maps", 'print(1..3 == 1..3); var r = 1..3; for i in 0..9 { var q = i..(i + 100); } print(r == 1..3); try { 1..nil; } catch e { print(e.context); } '
        'try { nil..1.5; } catch e { print(e.context); } try { 1.5..2; } catch e { print(e.context); } try { var mm = {[1]: 2}; } catch e { print(e.context); } '
        'var m = {1: 2}; try { m.insert([1], 2); } catch e { print(e.context); } print(m.get(1)); print(m.get(2)); print({(1, 2): 3}.get((1, 2))); '
        'print({0: "a"}.get(-0)); print((1, 2) == (1, 2)); print([1, [2]] == [1, [2]]); print("a${1}b${[1, "x"]}c${nil}"); print((3..0).iter().collect());')
    add("fibers-errors", 'var f = Fiber.new(|| 1); print(f.call()); print(f.has_finished()); try { f.call(); } catch e { print(e.context); } '
        'try { Fiber.yield(); } catch e { print(e.context); } try { Fiber.yield(1, 2); } catch e { print(e.context); } '
        'try { Fiber.new(|a, b| 1); } catch e { print(e.context); } try { Fiber.new(1); } catch e { print(e.context); } '
        'var g = Fiber.new(|x| { var y = Fiber.yield(x + 1); return y * 2; }); try { g.call(); } catch e { print(e.context); } print(g.call(1)); '
        'try { g.call(1, 2); } catch e { print(e.context); } print(g.call(21)); print(g.has_finished()); '
        'var slf = nil; slf = Fiber.new(|| { try { slf.call(); } catch e { print(e.context); } return "done"; }); print(slf.call()); '
        'var outer = Fiber.new(|| { var inner = Fiber.new(|| { Fiber.yield("i1"); return "i2"; }); print(inner.call()); Fiber.yield("o1"); print(inner.call()); return "o2"; }); '
        'print(outer.call()); print(outer.call()); print(type(outer)); ')
    add("fiber-upvalues", 'fn mk() { var n = 0; var fb = Fiber.new(|| { var loc = 10; var bump = || { loc = loc + 1; n = n + 1; return loc + n; }; Fiber.yield(bump); '
        'print(bump()); return bump; }); var b = fb.call(); print(b()); print(b()); var b2 = fb.call(); print(b2()); print(n); return b; } var k = mk(); print(k());')
    add("fiber-throw", 'var f = Fiber.new(|| { try { Fiber.yield(1); throw "in fiber"; } finally { print("fin"); } }); print(f.call()); '
        'try { f.call(); } catch e { print("main saw"); print(e); } print("after");')
    add("modules-misc", 'import "m1"; print(m1.v); m1.v = 5; print(m1.v); print(m1.f()); m1.g = || "attr"; print(m1.g()); try { m1.nope(); } catch e { print(e.context); } '
        'fn late() { import "m1" as again; return again.v; } print(late()); try { import "bad"; } catch e { print(e.context); } '
        'try { import "thrower"; } catch e { print(e); } try { import "thrower"; } catch e { print(e); } try { import "missing"; } catch e { print(e.context); } '
        'import "cyc_a"; print(type(m1)); print(m1);',
        {"m1": 'var v = 1; fn f() { return v + 1; } print("loading m1");', "bad": "var = ;", "thrower": 'print("t"); throw "boom";',
         "cyc_a": 'import "cyc_b"; print("a done");', "cyc_b": 'try { import "cyc_a"; } catch e { print(e.context); } print("b done");'})
    add("finally-flag", 'fn f() { try { throw "a"; } finally { try { throw "b"; } catch e { print(e); } print("outer fin"); } } try { f(); } catch e { print(e); } '
        'fn g() { try { try { throw 1; } finally { print("i"); } } catch e { print(e); } finally { print("o"); } return "g"; } print(g()); '
        'fn h() { for i in 0..2 { try { try { continue; } finally { print("c"); } } finally { print("d"); } } return "h"; } print(h());')
    add("strings-index", 'var s = "héllo"; print(s[0]); try { print(s[2]); } catch e { print(e.context); } print(s[0..1]); try { print(s[0..2]); } catch e { print(e.context); } '
        'try { print(s[10]); } catch e { print(e.context); } try { print(s[nil]); } catch e { print(e.context); } var v = [1, 2, 3]; v[-1] = 9; print(v); print(v[1..3]); '
        'try { v[3] = 1; } catch e { print(e.context); } try { (1, 2)[0] = 1; } catch e { print(e.context); } try { print(nil[0]); } catch e { print(e.context); } print((1, 2, 3)[-1]);')
    add("arity", 'fn f(a, b) { return a + b; } try { f(1); } catch e { print(e.context); } try { f(1, 2, 3); } catch e { print(e.context); } '
        'try { print(1, 2); } catch e { print(e.context); } try { type(); } catch e { print(e.context); } try { [].push(); } catch e { print(e.context); } '
        'try { "a".len(1); } catch e { print(e.context); } try { [].pop(); } catch e { print(e.context); } print(clock() >= 0);')
    return P


def generated_cases(seed, n_fuzz=150, n_c08=150):
    """generated programs: the random feature programs of coq/theories/SpecFuzzGen.py (functions, classes, fibers,
    try/finally, loops with runtime type errors) and the try/catch/finally builders of tools/props/C08.py
    (systematic() = every throw site x shape x exit path; Gen('wild') = every exit anywhere, open finally classes
    included) rendered over every function kind (plain, lambda, method, static, constructor, fiber)."""
    import random
    import shutil
    import subprocess
    import tempfile
    cases = []
    d = tempfile.mkdtemp(prefix="bcvm_fuzz_")
    try:
        subprocess.run([sys.executable, os.path.join(yvlib.COQ, "theories", "SpecFuzzGen.py"), str(seed), str(n_fuzz), d],
                       check=True, capture_output=True, timeout=300)
        for f in sorted(os.listdir(d)):
            with open(os.path.join(d, f)) as fh:
                cases.append(Case("fuzz/" + f, fh.read(), {}))
    finally:
        shutil.rmtree(d, ignore_errors=True)
    sys.path.insert(0, os.path.join(os.path.dirname(os.path.abspath(__file__)), "props"))
    try:
        import C08
        rng = random.Random(seed)
        progs = C08.systematic()
        rng.shuffle(progs)
        progs = progs[:n_c08 // 2]
        g = C08.Gen(rng, "wild")
        progs += [g.program() for _ in range(n_c08 - len(progs))]
        for i, p in enumerate(progs):
            cases.append(Case("c08/%d" % i, C08.render_kinds(p, seed * 1000 + i)[0], {}))
    except Exception as e:  # the builders belong to another owner: degrade gracefully
        log("[bcvm] C08 builders unavailable: %r" % (e,))
    return directed_cases() + directed_misc() + cases


# ------------------------------------------------------------------------------------------------
# plug-in entry point

def bcvm_check(ctx, budget_s=120, extra_cases=None):
    """impl == BcVM on the repository scripts (a deterministic, seed-independent subset that fits the budget) and
    on `extra_cases` ([(name, source)] or [Case]).  Mismatch -> ctx.corr_broken; counts -> ctx.cov['bcvm_*']."""
    t0 = time.time()
    binary = ctx.harness("release")
    cases = repo_cases()
    # measured: ~0.25 s of coqc per script on one core, sharded over the cores; keep a safety factor of 4
    per_case = 1.0 / max(1, min(8, yvlib.NPROC))
    room = max(20, int(budget_s / (4 * per_case)))
    if len(cases) > room:
        step = len(cases) / float(room)
        cases = [cases[int(i * step)] for i in range(room)]
    # the directed families (deterministic): corner cases of vm.rs that the unit tests do not reach
    cases += directed_misc()
    if budget_s >= 60:
        cases += directed_cases()[::4]
    for e in (extra_cases or []):
        cases.append(e if isinstance(e, Case) else Case(e[0], e[1], {}))
    res = compare(binary, cases, standalone=False, tag="bcvm_" + getattr(ctx, "pid", "x"))
    agree = [r for r in res if r["status"] == "agree"]
    bad = [r for r in res if r["status"] == "disagree"]
    unknown = [r for r in bad if r["name"] not in KNOWN_DISAGREE]
    # a model evaluation that timed out under load is re-run alone before it is believed
    retry = [r for r in unknown if r.get("model") is None or r.get("impl_crash")]
    if retry:
        byname = {c.name: c for c in cases}
        again = compare(binary, [byname[r["name"]] for r in retry], standalone=False,
                        tag="bcvm_retry_" + getattr(ctx, "pid", "x"), timeout_ms=60000)
        fixed = {r["name"] for r in again if r["status"] == "agree"}
        unknown = [r for r in unknown if r["name"] not in fixed]
        agree += [r for r in again if r["status"] == "agree"]
    for r in unknown[:5]:
        ctx.corr_broken.append("BcVM != impl on %s: impl %s ; model %s" % (
            r["name"], decode_outcome(r.get("impl")), decode_outcome(r.get("model"))))
    # per-instruction tie (hook H4) on every 4th case while the budget lasts
    tr = []
    if time.time() - t0 < budget_s / 2.0:
        tr = compare_traces(binary, cases[::4], limit=2000, standalone=False, tag="bcvm_trace_" + getattr(ctx, "pid", "x"))
        tbad = [r for r in tr if r["status"] == "disagree"]
        if tbad:
            byname = {c.name: c for c in cases}
            again = compare_traces(binary, [byname[r["name"]] for r in tbad], limit=2000, standalone=False,
                                   tag="bcvm_trace_retry_" + getattr(ctx, "pid", "x"))
            tbad = [r for r in again if r["status"] == "disagree"]
        for r in tbad[:3]:
            ctx.corr_broken.append("BcVM trace != impl trace (hook H4) on %s at instruction %d: impl %s ; model %s" % (
                r["name"], r["at"], r["impl"], r["model"]))
    ctx.cov.update({
        "bcvm_trace_cases": len([r for r in tr if r["status"] != "skip"]),
        "bcvm_trace_instructions": sum(r["steps"] for r in tr),
        "bcvm_cases": len(res), "bcvm_agree": len(agree), "bcvm_disagree": len(bad),
        "bcvm_known_disagree": len(bad) - len(unknown) if not retry else len([r for r in bad if r["name"] in KNOWN_DISAGREE]),
        "bcvm_skipped_compile_errors": len([r for r in res if r["status"] == "skip"]),
        "bcvm_seconds": round(time.time() - t0, 1),
    })
    return res


# scripts on which model and implementation are KNOWN to differ for a documented reason (notes/BcVM.md)
KNOWN_DISAGREE = {
    "hash_map/insert.yl": "Display order of a 3-entry HashMap: hash order (implementation) vs insertion order (model)",
}


def main(argv):
    import argparse
    ap = argparse.ArgumentParser()
    ap.add_argument("--only")
    ap.add_argument("--limit", type=int)
    ap.add_argument("--fuel", type=int, default=DEFAULT_FUEL)
    ap.add_argument("--json")
    ap.add_argument("--binary")
    ap.add_argument("--file", action="append", help="additional .yl file(s)")
    ap.add_argument("--gen", type=int, default=0, help="number of generated programs (half fuzz, half C08 builders)")
    ap.add_argument("--seed", type=int, default=1)
    ap.add_argument("--no-repo", action="store_true")
    ap.add_argument("--trace", type=int, default=0, help="compare per-instruction traces (first N instructions)")
    a = ap.parse_args(argv)
    binary = a.binary or default_binary()
    cases = [] if ((a.file and not a.only) or a.no_repo) else repo_cases(a.only, a.limit)
    if a.gen:
        cases += generated_cases(a.seed, a.gen // 2, a.gen - a.gen // 2)
    for f in a.file or []:
        with open(f) as fh:
            cases.append(Case(f, fh.read()))
    t0 = time.time()
    if a.trace:
        res = compare_traces(binary, cases, a.trace, tag=os.environ.get("BCVM_TAG", "bcvm") + "_trace")
        n = {k: len([r for r in res if r["status"] == k]) for k in ("agree", "disagree", "skip")}
        for r in res:
            if r["status"] == "disagree":
                print("TRACE DISAGREE %s at step %d\n   before: %s\n   impl : %s\n   model: %s" % (
                    r["name"], r["at"], r["before"], r["impl"], r["model"]))
        print("traces=%d agree=%d disagree=%d skipped=%d steps=%d in %.1fs" % (
            len(res), n["agree"], n["disagree"], n["skip"], sum(r["steps"] for r in res), time.time() - t0))
        if a.json:
            yvlib.write_json(a.json, res)
        return 0 if n["disagree"] == 0 else 1
    res = compare(binary, cases, a.fuel, tag=os.environ.get("BCVM_TAG", "bcvm"))
    dt = time.time() - t0
    n = {k: len([r for r in res if r["status"] == k]) for k in ("agree", "disagree", "skip")}
    for r in res:
        if r["status"] == "disagree":
            print("DISAGREE %s\n   impl : %s\n   model: %s" % (r["name"], decode_outcome(r["impl"]), decode_outcome(r["model"])))
    print("cases=%d agree=%d disagree=%d skipped(no byte code)=%d  in %.1fs" % (len(res), n["agree"], n["disagree"], n["skip"], dt))
    if a.json:
        yvlib.write_json(a.json, res)
    return 0 if n["disagree"] == 0 else 1


if __name__ == "__main__":
    sys.exit(main(sys.argv[1:]))
