"""C02 scale family (round 9): the DATA a program builds, pushed one dimension at a time through a ladder of sizes far beyond any
plausible hidden threshold of the collector / containers / recursive natives, with a closed-form oracle.

Every case is (family, n, variant, source, expected printed lines).  The program builds a structure of size n (in yarel loops, so
the source stays small), walks it ITERATIVELY (count + checksum, both known in closed form), allocates garbage (so that further
collections run while the structure is live), walks it again and prints the four numbers.  On the collecting debug build (a
collection at every allocation) and with the quarantine + dereference hook, an object that is swept while reachable is a
`VERIF-UAF` panic at the first later touch; without it the numbers differ.  Nothing here depends on the host stack (the
harness's case threads have 256 MiB): only Display / == / hash of deep values recurse natively, and those are capped at sizes the
8 MiB stack of the CLI survives too (10^3 measured in stream (c); 5000 in release).

Dimensions: reference-chain length through every kind of box that holds a reference (instance field, vec, tuple, map value,
closed upvalue, bound-method receiver, vec iterator, suspended fiber's stack, a rotation of all of them), number of children of
one container (vec, map with number / string keys, instance fields), tree size, string length, number of live interned strings,
number of collections survived (history), grow/shrink cycles, depth of Display / == / has_hash + Hash.
Variants: roots in globals (top level) / in locals of a running function (the fiber's value stack).
"""

CK = 97   # checksum modulus: every printed number stays far below 2^53


def _tri(n):
    return sum(i % CK for i in range(n))


DECLS = """class Node { #[constructor] fn new(self, value, next) { self.value = value; self.next = next; } }
class B { #[constructor] fn new(self, v, p) { self.v = v; self.p = p; } fn m(self, k) { if k == 0 { return self.v; } return self.p; } }
fn mk(i, prev) { fn g(k) { if k == 0 { return i; } return prev; } return g; }
fn mkf(i, prev) { fn body() { var keep = prev; var v = i; Fiber.yield(0); Fiber.yield(v); return keep; } var f = Fiber.new(body); f.call(); return f; }
fn garbage(g) { var j = 0; var last = nil; while j < g { last = [j, (j, "x"), "g${j}", {j: [j]}, mk(j, nil)]; j = j + 1; } return last; }
"""

# chain families: (build statement for level i given `head`, value of a node, successor of a node, walk-once?)
CHAINS = {
    "chain_instance": ("head = Node.new(i, head);", "node.value", "node.next", False),
    "chain_vec": ("head = [i, head];", "node[0]", "node[1]", False),
    "chain_tuple": ("head = (i, head);", "node[0]", "node[1]", False),
    "chain_map": ('head = {"v": i, "n": head};', 'node.get("v")', 'node.get("n")', False),
    "chain_closure": ("head = mk(i, head);", "node(0)", "node(1)", False),
    "chain_bound_method": ("head = B.new(i, head).m;", "node(0)", "node(1)", False),
    "chain_vec_iterator": ("head = [i, head].iter();", "node.next()", "node.next()", True),
    "chain_fiber": ("head = mkf(i, head);", "node.call()", "node.call()", True),
}

MIXED_BUILD = ('var k = i % 5; if k == 0 { head = Node.new(i, head); } else { if k == 1 { head = [i, head]; } else { if k == 2 { head = (i, head); } '
               'else { if k == 3 { head = {"v": i, "n": head}; } else { head = mk(i, head); } } } }')
MIXED_WALK = ('var k = j % 5; var nx = nil; if k == 0 { sum = sum + node.value % 97; nx = node.next; } else { if k == 1 { sum = sum + node[0] % 97; nx = node[1]; } '
              'else { if k == 2 { sum = sum + node[0] % 97; nx = node[1]; } else { if k == 3 { sum = sum + node.get("v") % 97; nx = node.get("n"); } '
              'else { sum = sum + node(0) % 97; nx = node(1); } } } } node = nx;')


def _program(decl, walk_fn, build, n, g, variant, once):
    """decl + walk(head, n) -> (count, sum); build defines `head`; walk, garbage, walk again"""
    body = ["var head = nil; var i = 0;", build]
    if once:
        body += ["var keepg = garbage(%d);" % g, "var a = walk(head, %d);" % n, "print(a[0]); print(a[1]);"]
    else:
        body += ["var a = walk(head, %d);" % n, "var keepg = garbage(%d);" % g, "var b = walk(head, %d);" % n,
                 "print(a[0]); print(a[1]); print(b[0]); print(b[1]);"]
    body = "\n".join(body)
    if variant == "locals":
        body = "fn scale_run() {\n%s\nreturn head;\n}\nvar kept = scale_run(); print(kept == nil);" % body
    return DECLS + decl + "\n" + walk_fn + "\n" + body


def _walk(value, succ, extra=""):
    return ("fn walk(head, n) { var count = 0; var sum = 0; var node = head; var j = n - 1;\n"
            "  while node != nil && count < n + 5 { %s count = count + 1; j = j - 1; }\n  return (count, sum); }" % (
                extra or "sum = sum + %s %% 97; node = %s;" % (value, succ)))


def gen_scale_cases(sizes, g, variants=("globals", "locals"), big=False, only=None):
    """[(family, n, variant, source, expected lines)]; `big` drops the families whose cost per element is large (fibers: 256 KiB each)"""
    cases = []
    for n in sizes:
        for vi, variant in enumerate(variants):
            tail = [] if variant == "globals" else ["true" if n == 0 else "false"]
            two = [str(n), str(_tri(n)), str(n), str(_tri(n))]
            one = [str(n), str(_tri(n))]
            loop = "while i < %d { %%s i = i + 1; }" % n
            for fam, (build, value, succ, once) in CHAINS.items():
                if fam == "chain_fiber" and (n > 300 or big):
                    continue
                cases.append((fam, n, variant, _program("", _walk(value, succ), loop % build, n, g, variant, once), (one if once else two) + tail))
            cases.append(("chain_mixed", n, variant, _program("", _walk("", "", MIXED_WALK), loop % MIXED_BUILD, n, g, variant, False), two + tail))
            # wide containers: head is the container, walked by index / key
            wide = {
                "wide_vec": ("var head = []; i = 0; " + loop % "head.push([i]);", "sum = sum + head[count][0] % 97;"),
                "wide_map_num_keys": ("var head = {}; i = 0; " + loop % "head.insert(i, [i]);", "sum = sum + head.get(count)[0] % 97;"),
                "wide_map_str_keys": ("var head = {}; i = 0; " + loop % 'head.insert("k${i}", (i,));', 'sum = sum + head.get("k${count}")[0] % 97;'),
                "many_live_strings": ("var head = []; i = 0; " + loop % 'head.push("s${i}"); var junk = "t${i}";',
                                      'if head[count] == "s" + String.from(count) { sum = sum + count % 97; }'),
            }
            for fam, (build, step) in wide.items():
                wfn = ("fn walk(head, n) { var count = 0; var sum = 0; if head.len() != n { return (0 - 1, head.len()); }\n"
                       "  while count < n { %s count = count + 1; }\n  return (count, sum); }" % step)
                src = _program("", wfn, build.replace("var head = ", "head = ", 1), n, g, variant, False)
                cases.append((fam, n, variant, src, two + tail))
            # grow / shrink / grow again: capacity boundaries of the vec, old slots must not come back
            if vi == 0:
                src = (DECLS + "var v = []; var i = 0; while i < %d { v.push([i]); i = i + 1; }\n"
                       "var popped = 0; while v.len() > 3 { popped = popped + v.pop()[0] %% 97; }\nvar keepg = garbage(%d);\n"
                       "i = 0; while i < %d { v.push((i,)); i = i + 1; }\nvar sum = 0; i = 0; while i < v.len() { sum = sum + v[i][0] %% 97; i = i + 1; }\n"
                       "print(v.len()); print(popped); print(sum);" % (n, g, n))
                keep = min(n, 3)
                cases.append(("vec_grow_shrink_grow", n, variant, src, [str(keep + n), str(_tri(n) - _tri(keep)), str(_tri(keep) + _tri(n))]))
                # string length
                src = (DECLS + 'var s = ""; var i = 0; while i < %d { s = s + "ab"; i = i + 1; }\nvar keepg = garbage(%d);\n'
                       'print(s.len()); if s.len() > 0 { print(s[0] + s[s.len() - 1]); } else { print("ab"); }' % (n, g))
                cases.append(("string_length", n, variant, src, [str(2 * n), "ab"]))
            # natively recursive operations on deep values (acyclic): Display, ==, has_hash + Hash
            if vi == 0 and n <= 5000:
                shown_v = "[-1]"
                shown_t = "(-1,)"
                for i in range(n):
                    shown_v = "[%d, %s]" % (i, shown_v)
                    shown_t = "(%d, %s)" % (i, shown_t)
                src = ("fn mkv(n, z) { var h = [z]; var i = 0; while i < n { h = [i, h]; i = i + 1; } return h; }\n"
                       "fn mkt(n, z) { var h = (z,); var i = 0; while i < n { h = (i, h); i = i + 1; } return h; }\n"
                       "var a = mkv(%d, 0 - 1); var b = mkv(%d, 0 - 1); var c = mkv(%d, 0 - 2);\nprint(a); print(a == b); print(a == c); print(a != b);\n"
                       "var ta = mkt(%d, 0 - 1); var tb = mkt(%d, 0 - 1); var tc = mkt(%d, 0 - 2); var tu = mkt(%d, [1]);\n"
                       "print(ta); print(ta == tb); print(ta == tc);\n"
                       "var m = {}; m.insert(ta, 1); print(m.get(tb)); print(m.has_key(tc)); m.insert(tc, 2); print(m.len()); print(m.get(tb));\n"
                       "try { m.insert(tu, 3); print(\"inserted an unhashable key\"); } catch e { print(type(e)); }\n"
                       "try { print(m.has_key(tu)); } catch e { print(type(e)); }\nprint(m.len()); print({(ta): 5}.get(tb));" % ((n,) * 7))
                cases.append(("deep_display_eq_hash", n, variant, src,
                              [shown_v, "true", "false", "false", shown_t, "true", "false", "1", "false", "2", "1",
                               "<class ValueError>", "<class ValueError>", "2", "5"]))
    return [c for c in cases if only is None or c[0] in only]


def gen_tree_cases(depths, g):
    cases = []
    for d in depths:
        cnt = 0
        sm = 0
        stack = [(d, 1)]
        while stack:
            dd, base = stack.pop()
            if dd == 0:
                continue
            cnt += 1
            sm += base % CK
            stack.append((dd - 1, 2 * base))
            stack.append((dd - 1, 2 * base + 1))
        src = (DECLS + "class T { #[constructor] fn new(self, v, l, r) { self.v = v; self.l = l; self.r = r; } }\n"
               "fn build(d, base) { if d == 0 { return nil; } return T.new(base, build(d - 1, 2 * base), [build(d - 1, 2 * base + 1)]); }\n"
               "fn count(t) { if t == nil { return 0; } return 1 + count(t.l) + count(t.r[0]); }\n"
               "fn total(t) { if t == nil { return 0; } return t.v %% 97 + total(t.l) + total(t.r[0]); }\n"
               "var t = build(%d, 1); print(count(t)); print(total(t)); var keepg = garbage(%d); print(count(t)); print(total(t));" % (d, g))
        cases.append(("tree_depth", d, "globals", src, [str(cnt), str(sm), str(cnt), str(sm)]))
    return cases


def gen_field_cases(sizes, g):
    """n fields on one instance (the field table), set and read through methods of at most 100 fields each (constants per function are a u8)"""
    cases = []
    for n in sizes:
        chunks = [range(a, min(a + 100, n)) for a in range(0, n, 100)]
        setters = "".join("fn s%d(self) { %s }\n" % (c, " ".join("self.f%d = [%d];" % (i, i) for i in ch)) for c, ch in enumerate(chunks))
        getters = "".join("fn g%d(self) { var t = 0; %s return t; }\n" % (c, " ".join("t = t + self.f%d[0] %% 97;" % i for i in ch)) for c, ch in enumerate(chunks))
        calls_s = " ".join("o.s%d();" % c for c in range(len(chunks)))
        calls_g = " + ".join(["0"] + ["o.g%d()" % c for c in range(len(chunks))])
        src = (DECLS + "#[constructor(new)] class W {\n" + setters + getters + "}\nvar o = W.new(); " + calls_s + "\nprint(%s);\nvar keepg = garbage(%d);\nprint(%s);" % (calls_g, g, calls_g))
        cases.append(("wide_instance_fields", n, "globals", src, [str(_tri(n)), str(_tri(n))]))
    return cases


def gen_history_cases(sizes):
    """n iterations of garbage of every kind while a small live structure persists: the N-th collection, threshold growth"""
    cases = []
    for n in sizes:
        src = (DECLS + 'var live = nil; var i = 0; while i < 20 { live = Node.new(i, [live, {"k": (i, "s${i}")}]); i = i + 1; }\n'
               "fn walk(l) { var c = 0; var s = 0; var node = l; while node != nil { s = s + node.value + node.next[1].get(\"k\")[0] + node.next[1].get(\"k\")[1].len(); c = c + 1; node = node.next[0]; } return (c, s); }\n"
               "var a = walk(live); var keepg = garbage(%d); var b = walk(live); print(a); print(b); print(keepg[0]);" % n)
        s = sum(2 * i + len("s%d" % i) for i in range(20))
        cases.append(("collections_survived", n, "globals", src, ["(20, %d)" % s, "(20, %d)" % s, str(n - 1)]))
    return cases


CHEAP = {"chain_instance", "chain_vec", "chain_tuple", "chain_map", "wide_vec", "wide_map_num_keys", "vec_grow_shrink_grow", "string_length"}
TWO_BOX = {"chain_closure", "chain_bound_method", "chain_vec_iterator", "chain_mixed", "wide_map_str_keys", "many_live_strings", "deep_display_eq_hash"}


def plan(quick):
    """[(label, profile, run opts, quarantine, cases)].  With the quarantine a collection costs time proportional to everything ever
    allocated, so the collecting debug build + quarantine gets the small rungs (every family crosses 512 boxes of reference-chain
    length), the release build collecting at every allocation WITHOUT quarantine (closed-form numbers are the oracle) the middle
    rungs, and the release build with its own pacing + quarantine the big ones."""
    g = 5
    dbg = (gen_scale_cases([17], g, variants=("globals",)) + gen_scale_cases([129], g, variants=("locals",))
           + gen_scale_cases([600], g, variants=("globals",), only={"chain_instance", "chain_vec", "chain_tuple", "chain_map", "wide_vec", "wide_map_num_keys"})
           + gen_scale_cases([320], g, variants=("globals",), only={"chain_closure", "chain_bound_method", "chain_vec_iterator", "chain_mixed"})
           + gen_scale_cases([65], g, variants=("globals",), only={"chain_fiber"})
           + gen_tree_cases([4, 7], g) + gen_field_cases([17, 129], g) + gen_history_cases([40, 120]))
    if not quick:
        dbg += (gen_scale_cases([33, 65, 300], g, variants=("globals",)) + gen_scale_cases([1100], g, variants=("locals",), only=CHEAP)
                + gen_scale_cases([450], g, variants=("globals",), only=TWO_BOX - {"deep_display_eq_hash"}) + gen_field_cases([300], g) + gen_history_cases([250]))
    mid_sizes = [1100, 2500] if quick else [1100, 2500, 5000]
    mid = (gen_scale_cases(mid_sizes, 20, variants=("globals",), big=True, only=CHEAP) + gen_scale_cases([1100], 20, variants=("locals",), big=True, only=(CHEAP | TWO_BOX) - {"deep_display_eq_hash"})
           + gen_scale_cases([500], 20, variants=("globals",), only={"deep_display_eq_hash"})
           + gen_scale_cases([300], 20, variants=("globals",), only={"chain_fiber"}) + gen_tree_cases([10], 20) + gen_field_cases([1100], 20) + gen_history_cases([2000]))
    if not quick:
        mid += gen_scale_cases([2500], 20, variants=("globals",), big=True, only={"chain_bound_method", "chain_vec_iterator", "chain_mixed", "wide_map_str_keys", "many_live_strings"})
    big_sizes = [5000, 20000] if quick else [5000, 20000, 70000]
    big = (gen_scale_cases(big_sizes, 3000, variants=("globals",), big=True, only=CHEAP | {"chain_mixed", "chain_closure"})
           + gen_scale_cases([70000 if quick else 200000], 3000, variants=("globals",), big=True, only={"chain_instance", "chain_vec", "chain_map", "wide_vec", "wide_map_num_keys"})
           + gen_scale_cases([5000], 3000, variants=("globals",), big=True, only=TWO_BOX)
           + gen_scale_cases([5000], 3000, variants=("locals",), big=True, only=CHEAP)
           + gen_tree_cases([12, 14], 3000) + gen_history_cases([30000]))
    return [("debug build collecting at every allocation, quarantine", "debug", "-", True, dbg),
            ("release build collecting at every allocation (gc=always), no quarantine", "release", "gc=always", False, mid),
            ("release build with the collector's own pacing, quarantine", "release", "-", True, big)]
