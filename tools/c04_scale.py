"""C04 round 9: the SCALE family and the EXIT-MATRIX family (source generators only; the glue is in tools/props/C04.py).

Every counting dimension of compiler.rs is pushed, one at a time, through a ladder of sizes; every program prints values
that are known IN CLOSED FORM (a function of the size), so no model of the program is evaluated for the run oracle.
The same sources go to (i) the byte-for-byte FullCompile tie, (ii) the proved verifier, (iii) the VM (both builds).

A cell is (label, source, expected output lines).
"""

LADDER_SMALL = list(range(1, 41))
LADDER_BIG = [48, 64, 65, 100, 128, 129, 200, 250]
RUNGS = {2, 3, 8, 15, 16, 17, 18, 31, 32, 33, 34, 40}


def _junk(n, tag):
    # locals declared AFTER a scope / loop reuse its stack slots: an upvalue left open on a dead slot reads these
    return "".join("var %s%d = -%d;" % (tag, k, k + 1) for k in range(n))


def capture_patterns(n, rot):
    """sets of captured positions among n locals (0 = deepest / first declared): the extremes, the parities, a block
    boundary at every power of two, and one single position rotating with `rot`"""
    pats = [("deep", {0}), ("top", {n - 1}), ("even", set(range(0, n, 2))), ("odd", set(range(1, n, 2))),
            ("one%d" % (rot % n), {rot % n}), ("all", set(range(n))), ("allbutdeep", set(range(1, n))),
            ("lowhalf", set(range(0, (n + 1) // 2)))]
    seen, out = set(), []
    for name, s in pats:
        s = frozenset(x for x in s if 0 <= x < n)
        if s and s not in seen:
            seen.add(s)
            out.append((name, sorted(s)))
    return out


def exit_locals_fn(fname, kind, n, caps):
    """a function whose loop body declares n locals, captures those at positions `caps` in closures that outlive the
    iteration, and leaves the iteration with `kind` (break / continue / end = ordinary end of the body / block = a
    nested block ends).  Returns (source, expected value of fname())."""
    decl = "".join("var a%d = i * 1000 + %d;" % (k, k) for k in range(n))
    push = "".join("fs.push(|| a%d);" % p for p in caps)
    if kind == "break":
        body = "i = i + 1;" + decl + push + "if i == 3 { break; }"
        iters = [1, 2, 3]
    elif kind == "continue":
        body = "i = i + 1;" + decl + push + "if i < 9 { continue; } i = 100;"
        iters = [1, 2, 3]
    elif kind == "block":
        body = "i = i + 1; {" + decl + push + "}"
        iters = [1, 2, 3]
    else:
        body = "i = i + 1;" + decl + push
        iters = [1, 2, 3]
    src = ("fn %s() { var fs = []; var i = 0; while i < 3 { %s } %s var s = 0; for f in fs { s = s + f(); } return s; }"
           % (fname, body, _junk(min(n, 200), "z")))
    exp = sum(i * 1000 + p for i in iters for p in caps)
    return src, exp


def exit_locals_program(n, rot, every_position=False, kinds=("break", "continue", "end", "block")):
    pats = capture_patterns(n, rot)
    if n > 40:      # a dense pattern costs n closures (= n functions to verify): above 40 the sparse ones (thorough: and ONE dense one)
        pats = [x for x in pats if len(x[1]) == 1 or (every_position is None and x[0] == ("even", "odd", "lowhalf", "allbutdeep")[rot % 4])]
    elif every_position is False:      # quick tier: the sparse patterns + two of the five dense ones, rotating with the size and the seed
        dense = [x for x in pats if len(x[1]) > 1]
        pick = {dense[rot % len(dense)][0]} if dense and n in RUNGS else set()
        pats = [x for x in pats if len(x[1]) == 1 or x[0] in pick]
    if every_position is True:
        pats = [("one%d" % p, [p]) for p in range(n)] + [x for x in pats if not x[0].startswith("one") and len(x[1]) > 1]
    src, exp, k = [], [], 0
    for kind in kinds:
        for name, caps in pats:
            if kind in ("end", "block") and name not in ("deep", pats[-1][0]):
                continue
            s, e = exit_locals_fn("f%d" % k, kind, n, caps)
            src.append(s + "\nprint(f%d());" % k)
            exp.append(str(e))
            k += 1
    return "\n".join(src), exp


def nested_scopes_program(d, kind):
    """d nested blocks, one local each, inside a loop; the innermost one captures the outermost and the innermost local
    and leaves with `kind`; every second local is captured too"""
    caps = sorted({0, d - 1} | set(range(0, d, 3)))
    o = "fn f() { var fs = []; var i = 0; while i < 3 { i = i + 1;"
    for k in range(d):
        o += "{ var a%d = i * 1000 + %d;" % (k, k)
    o += "".join("fs.push(|| a%d);" % p for p in caps)
    o += {"break": "if i == 3 { break; }", "continue": "if i < 9 { continue; }", "end": ""}[kind]
    o += "}" * d
    o += "} %s var s = 0; for f in fs { s = s + f(); } return s; }\nprint(f());" % _junk(min(d, 200), "z")
    return o, [str(sum(i * 1000 + p for i in (1, 2, 3) for p in caps))]


def upvalues_program(n, levels):
    """n locals of f all captured by a closure `levels` functions deeper; closed form n(n-1)/2 + 7n after the update"""
    o = "fn f() {" + "".join("var v%d = %d;" % (k, k) for k in range(n))
    o += "fn g0() {" if levels >= 1 else ""
    for l in range(1, levels):
        o += "fn g%d() {" % l
    o += "var s = 0;" + "".join("s = s + v%d;" % k for k in range(n)) + "v%d = v%d + 7; return s;" % (n - 1, n - 1)
    for l in range(levels - 1, 0, -1):
        o += "} return g%d();" % l
    o += "} var r = g0(); return r + g0(); }\nprint(f());"
    return o, [str(n * (n - 1) + 7)]


def constants_program(n):
    o = "fn f() { var s = 0;" + "".join("s = s + %d;" % (100000 + k) for k in range(n)) + "return s; }\nprint(f());"
    return o, [str(100000 * n + n * (n - 1) // 2)]


def strings_program(n):
    o = "fn f() { var s = 0;" + "".join('s = s + "k%d".len();' % k for k in range(n)) + "return s; }\nprint(f());"
    return o, [str(sum(len("k%d" % k) for k in range(n)))]


def params_program(n, fkind):
    ps = ["p%d" % k for k in range(n)]
    body = "return %s;" % (" + ".join(ps) if ps else "0")
    args = ", ".join(str(k + 1) for k in range(n))
    exp = [str(n * (n + 1) // 2)]
    if fkind == "fn":
        return "fn f(%s) { %s }\nprint(f(%s));" % (", ".join(ps), body, args), exp
    if fkind == "lambda":
        return "var f = |%s| { %s };\nprint(f(%s));" % (", ".join(ps), body, args), exp
    if fkind == "method":
        return "#[constructor(new)] class C { fn m(%s) { %s } }\nprint(C.new().m(%s));" % (", ".join(["self"] + ps), body, args), exp
    return "class C { #[static] fn m(%s) { %s } }\nprint(C.m(%s));" % (", ".join(ps), body, args), exp


def methods_program(n):
    o = "#[constructor(new)] class C {" + "".join("fn m%d(self) { return %d; }" % (k, k) for k in range(n)) + "}\nvar c = C.new(); var s = 0;"
    o += "".join("s = s + c.m%d();" % k for k in range(n)) + "print(s);"
    return o, [str(n * (n - 1) // 2)]


def classes_program(n):
    o = "".join("#[constructor(new)] class C%d { fn m(self) { return %d; } }" % (k, k) for k in range(n)) + "var s = 0;"
    o += "".join("s = s + C%d.new().m();" % k for k in range(n)) + "print(s);"
    return o, [str(n * (n - 1) // 2)]


def nested_fns_program(d):
    o = ""
    for k in range(d):
        o += "fn f%d() { var v%d = %d;" % (k, k, k)
    o += "return %s;" % " + ".join("v%d" % k for k in range(d))
    for k in range(d - 1, 0, -1):
        o += "} return f%d();" % k
    o += "}\nprint(f0());"
    return o, [str(d * (d - 1) // 2)]


def try_depth_program(d, exitkind):
    """d nested try/catch (no finally, no return inside try: those are the OPEN classes) inside a loop; the innermost
    body throws / breaks / continues; every level has a captured local"""
    caps = {0, d - 1} | set(range(0, d, 3))
    o = "fn f() { var fs = []; var n = 0; var i = 0; while i < 3 { i = i + 1;"
    for k in range(d):
        o += "try { var a%d = i * 100 + %d;" % (k, k % 7) + ("fs.push(|| a%d);" % k if k in caps else "")
    o += {"throw": "throw 1;", "break": "if i == 2 { break; }", "continue": "if i < 9 { continue; }", "fall": ""}[exitkind]
    for k in range(d):
        o += "} catch e { n = n + e; throw e + 1; }" if k < d - 1 else "} catch e { n = n + e; }"
    o += "} var z0 = -1; var z1 = -2; var z2 = -3; var s = 0; for f in fs { s = s + f(); } return s * 100000 + n; }\nprint(f());"
    iters = (1, 2) if exitkind == "break" else (1, 2, 3)
    s = sum(i * 100 + (k % 7) for i in iters for k in caps)
    n = 3 * (d * (d + 1) // 2) if exitkind == "throw" else 0
    return o, [str(s * 100000 + n)]


def loop_depth_program(d, exitkind):
    o = "fn f() { var n = 0;"
    for k in range(d):
        o += "var i%d = 0; while i%d < 2 { i%d = i%d + 1; var c%d = %d;" % (k, k, k, k, k, k)
    o += "n = n + 1;" + {"break": "if n > 0 { break; }", "continue": "if n > 0 { continue; }", "fall": ""}[exitkind]
    o += "}" * d + "return n; }\nprint(f());"
    # break at the innermost level: the innermost loop runs one iteration per entry: 2^(d-1) entries
    return o, [str(2 ** (d - 1) if exitkind == "break" else 2 ** d)]


def breaks_program(n, kind):
    """ONE loop with n break (continue) statements, each behind its own test, each discarding one more block local:
    the list of jumps patched at the end of the loop has n entries"""
    o = "fn f(x) { var c = 0; var i = 0; while i < 3 { i = i + 1; var l0 = i;"
    for k in range(n):
        o += "if x == %d { var t%d = %d; c = c + t%d; %s; }" % (k, k % 200, k, k % 200, kind)
    o += "c = c + 1000; } return c * 10 + i; }\n"
    o += "print(f(0)); print(f(%d)); print(f(%d)); print(f(%d));" % (n - 1, n // 2, n + 5)
    if kind == "break":
        return o, [str(k * 10 + 1) for k in (0, n - 1, n // 2)] + ["30003"]
    return o, [str(3 * k * 10 + 3) for k in (0, n - 1, n // 2)] + ["30003"]


def logic_chain_program(n, op):
    """a chain of n && (||) terms: n pending jumps to one target"""
    if op == "&&":
        o = "fn f(x) { return %s; }\n" % " && ".join("x != %d" % k for k in range(n))
        o += "print(f(-1)); print(f(0)); print(f(%d)); print(f(%d));" % (n - 1, n // 2)
        return o, ["true", "false", "false", "false"]
    o = "fn f(x) { return %s; }\n" % " || ".join("x == %d" % k for k in range(n))
    o += "print(f(-1)); print(f(0)); print(f(%d)); print(f(%d));" % (n - 1, n // 2)
    return o, ["false", "true", "true", "true"]


def deep_loops_program(d, exitkind):
    """d nested loops of ONE iteration each (runs d iterations in all), a local per level, exit at the innermost level"""
    o = "fn f() { var n = 0;"
    for k in range(d):
        o += "var i%d = 0; while i%d < 1 { i%d = i%d + 1; var c%d = %d;" % (k, k, k, k, k, k)
    o += "n = n + c%d + 1;" % (d - 1) + {"break": "if n > 0 { break; }", "continue": "if n > 0 { continue; }", "fall": ""}[exitkind]
    o += "}" * d + "return n; }\nprint(f());"
    return o, [str(d)]


def elseif_program(n):
    o = "fn f(x) { var r = -1; if x == 0 { r = 0; }" + "".join(" else if x == %d { var t = %d; r = t; }" % (k, k) for k in range(1, n)) + " else { r = -2; } return r; }\n"
    o += "print(f(0)); print(f(%d)); print(f(%d)); print(f(%d));" % (n - 1, n // 2, n + 5)
    return o, ["0", str(n - 1), str(n // 2), "-2"]


def interpolation_program(n):
    o = "fn f() { " + "".join("var a%d = %d;" % (k, k % 10) for k in range(min(n, 200))) + 'return "' + "".join("${a%d}" % (k % 200) for k in range(n)) + '"; }\nprint(f());'
    return o, ["".join(str((k % 200) % 10) for k in range(n))]


def args_program(n):
    o = "fn f(%s) { return p0 + p%d; }\nprint(f(%s));" % (", ".join("p%d" % k for k in range(n)), n - 1, ", ".join(str(k) for k in range(n)))
    return o, [str(n - 1)]


def vec_program(n):
    o = "var v = [%s];\nprint(v.len()); print(v[%d]);" % (", ".join(str(k) for k in range(n)), n - 1)
    return o, [str(n), str(n - 1)]


def scale_cells(rot, quick):
    """-> list of (label, source, expected output)"""
    cells = []
    big = LADDER_BIG
    for n in LADDER_SMALL + big:
        kinds = ("break", "continue", "end", "block") if n <= 40 else ("break", "continue", "end")
        s, e = exit_locals_program(n, rot + n, every_position=(False if quick else (True if n <= 40 else None)), kinds=kinds)
        cells.append(("scale:exit_locals:%d" % n, s, e))
    for d in LADDER_SMALL + [64, 100, 200]:
        for j, kind in enumerate(("break", "continue", "end")):
            if quick and d > 3 and ((d + rot + j) % 3 == 0 or (d > 40 and kind == "end")):
                continue
            s, e = nested_scopes_program(d, kind)
            cells.append(("scale:nested_scopes_%s:%d" % (kind, d), s, e))
    for n in [1, 2, 15, 16, 17, 31, 32, 33, 64, 65, 128, 129, 200, 250]:
        for levels in (1, 2, 3):
            s, e = upvalues_program(n, levels)
            cells.append(("scale:upvalues_l%d:%d" % (levels, n), s, e))
    for n in [17, 33, 65, 129, 255, 256, 257, 300, 1100]:
        cells.append(("scale:constants:%d" % n,) + constants_program(n))
        cells.append(("scale:strings:%d" % n,) + strings_program(n))
    for n in [0, 1, 2, 15, 16, 17, 31, 32, 33, 64, 65, 128, 129, 200, 254, 255]:
        for fk in ("fn", "lambda", "method", "static"):
            if n == 255 and fk == "method":
                continue
            cells.append(("scale:params_%s:%d" % (fk, n),) + params_program(n, fk))
    for n in [17, 33, 65, 129, 255]:
        cells.append(("scale:vec:%d" % n,) + vec_program(n))
        cells.append(("scale:interpolation:%d" % n,) + interpolation_program(n))
    for n in [1, 17, 33, 65, 129] + ([] if quick else [300]):
        cells.append(("scale:methods:%d" % n,) + methods_program(n))
        cells.append(("scale:classes:%d" % n,) + classes_program(n))
    for d in (sorted(RUNGS | {1, 24, 50, 60}) if quick else LADDER_SMALL + [50, 60]):
        cells.append(("scale:nested_fns:%d" % d,) + nested_fns_program(d))
    for d in LADDER_SMALL:
        for j, ek in enumerate(("throw", "break", "continue", "fall")):
            if quick and d > 3 and (d + rot + j) % 2:
                continue
            cells.append(("scale:try_depth_%s:%d" % (ek, d),) + try_depth_program(d, ek))
    for d in range(1, 13):
        for ek in ("break", "continue", "fall"):
            cells.append(("scale:loop_depth_%s:%d" % (ek, d),) + loop_depth_program(d, ek))
    for d in [13, 16, 17, 18, 32, 33, 34, 40, 64, 65, 100]:
        for ek in ("break", "continue", "fall"):
            cells.append(("scale:deep_loops_%s:%d" % (ek, d),) + deep_loops_program(d, ek))
    for n in [1, 2, 3, 8, 15, 16, 17, 18, 31, 32, 33, 34, 40, 64, 65, 129, 300]:
        for kind in ("break", "continue"):
            cells.append(("scale:exits_per_loop_%s:%d" % (kind, n),) + breaks_program(n, kind))
        for op, nm in (("&&", "and"), ("||", "or")):
            cells.append(("scale:logic_chain_%s:%d" % (nm, n),) + logic_chain_program(n, op))
    for n in [1, 2, 17, 33, 65, 129, 300, 1100]:
        cells.append(("scale:elseif:%d" % n,) + elseif_program(n))
    return cells


# ------------------------------------------------------------------------------------------------
# EXIT MATRIX: every kind of function x every kind of early exit x every enclosing construct

FKINDS = ("fn", "lambda", "method", "static", "ctor")
EXITS = ("return", "return_value", "break", "continue", "throw", "fall")
ENCLOSINGS = ("plain", "loop", "try", "catch", "finally_try", "finally_block", "try_in_loop", "loop_in_try", "try_try", "try_catch_finally")


def matrix_function(fkind, exitk, encl, name):
    """-> (declaration, call expression, expected lines printed by ONE call with the flag on) or None if the combination
    is not expressible.  The function logs through print; the closed-form expectation is computed from the SOURCE
    semantics: finally blocks always run, a handler never survives its frame, a constructor returns the instance."""
    in_loop = encl in ("loop", "try_in_loop", "loop_in_try")
    if exitk in ("break", "continue") and not in_loop:
        return None
    if exitk == "return_value" and fkind == "ctor":
        return None
    ex = {"return": "return;", "return_value": 'return "rv";', "break": "break;", "continue": "continue;",
          "throw": 'throw "th";', "fall": "nil;"}[exitk]
    act = 'var cap = "c-%s"; keep.push(|| cap); %s' % (name, ex)
    exp = []
    t = lambda tag: 'print("%s %s");' % (name, tag)
    if encl == "plain":
        body = "{ %s }" % act
    elif encl == "loop":
        body = "var i = 0; while i < 2 { i = i + 1; var l = i; %s %s } %s" % (act, t("after-act"), t("after-loop"))
    elif encl == "try":
        body = "try { %s %s } catch e { %s }" % (act, t("after-act"), t("catch"))
    elif encl == "catch":
        body = 'try { throw "first"; } catch e { %s %s }' % (act, t("after-act"))
    elif encl == "finally_try":
        body = "try { %s %s } finally { %s }" % (act, t("after-act"), t("finally"))
    elif encl == "finally_block":
        body = "try { %s } finally { %s %s }" % (t("try"), act, t("after-act"))
    elif encl == "try_in_loop":
        body = "var i = 0; while i < 2 { i = i + 1; try { var l = i; %s %s } catch e { %s } } %s" % (act, t("after-act"), t("catch"), t("after-loop"))
    elif encl == "loop_in_try":
        body = "try { var i = 0; while i < 2 { i = i + 1; var l = i; %s %s } %s } catch e { %s }" % (act, t("after-act"), t("after-loop"), t("catch"))
    elif encl == "try_try":
        body = "try { try { %s %s } catch e { %s throw e; } } catch e2 { %s }" % (act, t("after-act"), t("catch-inner"), t("catch-outer"))
    else:
        body = "try { %s %s } catch e { %s } finally { %s }" % (act, t("after-act"), t("catch"), t("finally"))
    body += " " + t("end")
    if fkind == "fn":
        decl, call = "fn %s() { %s }" % (name, body), "%s()" % name
    elif fkind == "lambda":
        decl, call = "var %s = || { %s };" % (name, body), "%s()" % name
    elif fkind == "method":
        decl, call = "#[constructor(new)] class K%s { fn m(self) { %s } }" % (name, body), "K%s.new().m()" % name
    elif fkind == "static":
        decl, call = "class K%s { #[static] fn m() { %s } }" % (name, body), "K%s.m()" % name
    else:
        decl, call = "class K%s { #[constructor] fn mk(self) { self.tag = 7; %s } }" % (name, body), "K%s.mk()" % name
    return decl, call


# ------------------------------------------------------------------------------------------------
# the cells compared byte for byte with the Gallina model of the compiler (FullCompile.v): compact, because the model
# needs ~1 s per 3 kB of source; every dimension and every rung of the ladder that could hide a threshold stays in

TIE_SIZES = {0, 1, 2, 3, 7, 8, 9, 15, 16, 17, 18, 24, 31, 32, 33, 34, 40, 48, 64, 65, 100, 128, 129, 200, 250, 254, 255, 256, 257, 300}


def compact_exit_fn(fname, kind, n, caps):
    decl = "".join("var a%d=i;" % k for k in range(n))
    push = "".join("fs.push(||a%d);" % p for p in caps)
    tail = {"break": "if i>2{break;}", "continue": "if i<9{continue;}", "end": "", "block": ""}[kind]
    if kind == "block":
        return "fn %s(){var fs=[];var i=0;while i<3{i=i+1;{%s%s}}return fs;}" % (fname, decl, push)
    return "fn %s(){var fs=[];var i=0;while i<3{i=i+1;%s%s%s}return fs;}" % (fname, decl, push, tail)


def tie_cells(rot, quick):
    cells = []
    for n in LADDER_SMALL + LADDER_BIG:
        pats = capture_patterns(n, rot + n)
        if n > 40:
            pats = [x for x in pats if len(x[1]) == 1]      # deep, top, one position: the dense patterns cost n closures each
        fs = []
        if quick or n > 40:
            for j, kind in enumerate(("break", "continue")):
                name, caps = pats[(rot + n + 3 * j) % len(pats)]
                fs.append(compact_exit_fn("f%d" % j, kind, n, caps))
            if n in (1, 15, 16, 17, 32, 33, 65, 129, 250):
                name, caps = pats[(rot + n + 1) % len(pats)]
                fs.append(compact_exit_fn("f2", ("end", "block")[(rot + n) % 2], n, caps))
        else:
            for kind in ("break", "continue", "end", "block"):
                for j, (name, caps) in enumerate(pats):
                    if (kind in ("break", "continue") and (len(caps) == 1 or (j + n + rot) % 2)) or (kind in ("end", "block") and j % 4 == 0):
                        fs.append(compact_exit_fn("f%s%d" % (kind[0], j), kind, n, caps))
        cells.append(("scale_tie:exit_locals:%d" % n, "\n".join(fs), None))
    for (label, src, exp) in scale_cells(rot, quick):
        dim, size = label.split(":")[1], int(label.rsplit(":", 1)[1])
        if dim == "exit_locals" or len(src) > (3000 if quick else 6000):
            continue
        if quick and size not in TIE_SIZES:
            continue
        if quick and dim.startswith(("params", "upvalues", "deep_loops", "exits_per_loop", "logic_chain")) and (size + rot + len(dim)) % 2 and size > 3:
            continue        # these come in 3-4 variants per size: every second size per variant, rotating with the seed
        cells.append(("scale_tie:" + label.split(":", 1)[1], src, exp))
    return cells


def matrix_cells():
    """one program per (kind of function, enclosing construct): a function per kind of exit; compiled, compared byte
    for byte with the model, verified (functions with `finally` / `return` inside try are the OPEN classes and are
    classified as such); not run"""
    cells = []
    for fk in FKINDS:
        for encl in ENCLOSINGS:
            decls = ["var keep = [];"]
            for ex in EXITS:
                r = matrix_function(fk, ex, encl, "%s_%s_%s" % (fk, ex, encl))
                if r is not None:
                    decls.append(r[0])
            cells.append(("matrix:%s:%s" % (fk, encl), "\n".join(decls), None))
    return cells
