#!/usr/bin/env python3
"""Entry point of every registered check:   ./check <ID> --tier quick|thorough [--replay FILE]
                                            ./check --setup

Protocol (DESIGN.md §3): translator -> coq/gen ; make the property's .vo closure ; re-run coqc on
props/<ID>.v to capture Print Assumptions ; forbidden-token scan ; run the property's plug-in
(correspondence impl≡M, differential impl≡S, side conditions) ; on any break run the plug-in's
search ; write evidence/<ID>.json ; print VIOLATION / KNOWN-FINDING lines ; exit 0/1."""
import argparse
import importlib
import json
import os
import subprocess
import sys
import time
import traceback

sys.path.insert(0, os.path.dirname(os.path.abspath(__file__)))
import yvlib  # noqa
from yvlib import log  # noqa

ALL = ["C%02d" % i for i in range(1, 20)]


class Ctx:
    def __init__(self, pid, tier, seed):
        self.pid = pid
        self.tier = tier
        self.seed = seed
        self.rng = yvlib.Rng(seed * 1000003 + int(pid[1:]))
        self.broken = []          # names of proof obligations / side conditions that no longer check
        self.corr_broken = []     # names of correspondences (impl vs M) that no longer agree
        self.violations = []      # dicts: {what, input, expected, actual, ...}
        self.known = []           # strings for KNOWN-FINDING lines
        self.cov = {}             # coverage keys for the evidence
        self.notes = []
        self._bins = {}
        self.replay_only = None

    def harness(self, profile="debug", features=()):
        key = (profile, tuple(features))
        if key not in self._bins:
            self._bins[key] = yvlib.build_harness(profile, features)
        return self._bins[key]

    def quick(self):
        return self.tier == "quick"

    def violation(self, what, **kw):
        d = {"what": what}
        d.update(kw)
        self.violations.append(d)

    def known_open(self):
        kf = yvlib.load_known_findings()
        return [k for k in kf.get("open", []) if k.get("property") == self.pid]


def run_translator():
    p = subprocess.run([sys.executable, os.path.join(yvlib.VERIF, "translator", "translate.py")],
                       capture_output=True, text=True, env=yvlib.ENV)
    log("[translator]", p.stdout.strip(), p.stderr.strip()[-500:])
    return p.returncode == 0 and "translator errors" not in p.stdout


def proof_phase(ctx, plugin):
    """Builds the Coq closure of props/<ID>.v, re-checks it, collects assumptions.
    Returns coverage dict; fills ctx.broken."""
    pid = ctx.pid
    cov = {"obligations": 0, "discharged": 0}
    ok_tr = run_translator()
    if not ok_tr:
        ctx.broken.append("translator: a source item no longer has the recognised shape (coq/gen/manifest.json)")
    prop_v = "props/%s.v" % pid
    if not os.path.exists(os.path.join(yvlib.COQ, prop_v)):
        ctx.broken.append("missing " + prop_v)
        return cov
    # props/<ID>_*.v: further statement-only files of the same property (e.g. <ID>_r2g.v: regenerated definitions
    # proved equal to the hand models); built, re-checked and counted exactly like props/<ID>.v
    import glob
    import re
    extras = sorted(os.path.relpath(f, yvlib.COQ) for f in glob.glob(os.path.join(yvlib.COQ, "props", "%s_*.v" % pid)))
    prop_files = [prop_v] + extras
    cov["prop_files"] = prop_files
    ok, mlog = yvlib.coq_make([f + "o" for f in prop_files])
    deps = []
    for f in prop_files:
        for d in yvlib.coq_deps(f):
            if d not in deps:
                deps.append(d)
    cov["coq_files"] = deps
    hits = yvlib.forbidden_scan(deps)
    if hits:
        ctx.broken.append("forbidden tokens in the development: " + "; ".join(hits[:10]))
    # statements in the property files = obligations
    names = []
    for f in prop_files:
        with open(os.path.join(yvlib.COQ, f)) as fh:
            ptxt = yvlib.strip_coq_comments(fh.read())
        names += re.findall(r"^\s*(?:Theorem|Lemma|Corollary)\s+([A-Za-z_][\w']*)", ptxt, re.M)
    cov["obligations"] = len(names)
    cov["theorems"] = names
    if not ok:
        # find which file / statement failed
        m = re.search(r'File "\./([^"]+)", line (\d+)', mlog)
        where = "%s:%s" % (m.group(1), m.group(2)) if m else "?"
        err = mlog.strip().split("\n")[-12:]
        ctx.broken.append("coq build failed at %s: %s" % (where, " | ".join(l.strip() for l in err if l.strip())[:600]))
        # which theorems of the property file still compile is unknown: none is discharged
        return cov
    assum = []
    for f in prop_files:
        ok2, out, err = yvlib.coqc_file(f)
        if not ok2:
            ctx.broken.append("coqc %s failed: %s" % (f, err[-400:]))
            return cov
        assum += yvlib.parse_assumptions(out)
    cov["print_assumptions"] = assum
    bad = sorted({a for l in assum for a in l if a.split(".")[-1] not in yvlib.ALLOWED_AXIOMS and a not in yvlib.ALLOWED_AXIOMS})
    if bad:
        ctx.broken.append("axioms outside the allow-list: " + ", ".join(bad))
    if len(assum) < len(names):
        ctx.notes.append("Print Assumptions present for %d of %d statements" % (len(assum), len(names)))
    cov["discharged"] = len(names) if not bad and not hits else 0
    cov["axioms_used"] = sorted({a for l in assum for a in l})
    return cov


def main():
    ap = argparse.ArgumentParser()
    ap.add_argument("pid", nargs="?")
    ap.add_argument("--tier", default=os.environ.get("VERIF_TIER", "quick"))
    ap.add_argument("--replay")
    ap.add_argument("--setup", action="store_true")
    ap.add_argument("--no-proof", action="store_true", help="developer option: skip the Coq phase")
    args = ap.parse_args()
    if args.setup:
        return setup()
    pid = args.pid
    seed = int(os.environ.get("VERIF_SEED", "20260925"))
    t0 = time.time()
    ctx = Ctx(pid, args.tier, seed)
    try:
        plugin = importlib.import_module("props.%s" % pid)
    except ImportError as e:
        print("no plug-in for %s: %s" % (pid, e))
        return 2
    if args.replay:
        with open(args.replay) as fh:
            ctx.replay_only = json.load(fh)
    cov = {}
    try:
        if not args.no_proof:
            cov = proof_phase(ctx, plugin)
        plugin.run(ctx)
        open_classes = {o.get("class") for o in ctx.known_open()}
        unlisted = [v for v in ctx.violations if v.get("known_class") not in open_classes]
        if (ctx.broken or ctx.corr_broken) and not unlisted and hasattr(plugin, "search"):
            log("[check] obligations broken -> searching for a failing input")
            plugin.search(ctx)
    except yvlib.BuildError as e:
        # /repo no longer builds with the hooks on: nothing can be decided
        ctx.broken.append("build: " + str(e)[-1500:])
    except Exception:
        ctx.broken.append("check crashed: " + traceback.format_exc()[-1500:])
    cov.update(ctx.cov)
    # classify violations against the committed known findings
    open_k = ctx.known_open()
    new_viol = []
    for v in ctx.violations:
        k = v.get("known_class")
        hit = next((o for o in open_k if o.get("class") == k), None) if k else None
        if hit:
            line = "KNOWN-FINDING: property=%s %s %s" % (pid, k, hit.get("summary", ""))
            if line not in ctx.known:
                ctx.known.append(line)
        else:
            new_viol.append(v)
    rc = 0
    lines = []
    n = 0
    for v in new_viol[:20]:
        rp = yvlib.replay_path(pid, n)
        v2 = dict(v)
        v2.update({"property": pid, "verdict": "failing-input", "seed": seed,
                   "command": "./check %s --replay %s" % (pid, os.path.relpath(rp, yvlib.VERIF))})
        yvlib.write_json(rp, v2)
        lines.append("VIOLATION property=%s replay=%s" % (pid, os.path.relpath(rp, yvlib.VERIF)))
        n += 1
        rc = 1
    if not new_viol and (ctx.broken or ctx.corr_broken):
        rp = yvlib.replay_path(pid, 0)
        yvlib.write_json(rp, {"property": pid, "verdict": "no-failing-input-found", "seed": seed,
                              "broken": ctx.broken, "correspondence_broken": ctx.corr_broken,
                              "command": "./check %s --tier %s" % (pid, args.tier)})
        lines.append("VIOLATION property=%s replay=%s no-failing-input-found" % (pid, os.path.relpath(rp, yvlib.VERIF)))
        rc = 1
    wall = time.time() - t0
    level = getattr(plugin, "LEVEL", "proof")
    cov.setdefault("checker_cmd", "cd coq && make props/%s.vo && coqc props/%s.v  (Coq 8.16.1 kernel; vm_compute; no native_compute)" % (pid, pid))
    cov.setdefault("trusted_base", getattr(plugin, "TRUSTED", []))
    cov["broken_obligations"] = ctx.broken
    cov["broken_correspondences"] = ctx.corr_broken
    cov["known_findings_reported"] = ctx.known
    cov["notes"] = ctx.notes
    ev = {"property_id": pid, "tier": args.tier, "seed": seed, "level": level, "coverage": cov,
          "assumptions": getattr(plugin, "ASSUMPTIONS", []), "wall_s": round(wall, 2),
          "violations": len(new_viol) + (1 if rc and not new_viol else 0)}
    yvlib.write_json(os.path.join(yvlib.VERIF, "evidence", "%s.json" % pid), ev)
    for k in ctx.known:
        print(k)
    for l in lines:
        print(l)
    print("%s %s: %s in %.1fs (evaluations=%s, obligations=%s/%s)" % (
        pid, args.tier, "FAIL" if rc else "ok", wall, cov.get("evaluations"), cov.get("discharged"), cov.get("obligations")))
    return rc


def setup():
    """Full clean build of everything a check needs, from files on disk, offline."""
    t0 = time.time()
    run_translator()
    subprocess.run("rm -f coq/Makefile coq/Makefile.conf; find coq -name '*.vo' -o -name '*.vok' -o -name '*.vos' -o -name '*.glob' -o -name '.*.aux' | xargs rm -f",
                   shell=True, cwd=yvlib.VERIF)
    yvlib.coq_makefile()
    # -k: a file that does not build must not stop the others; every check rebuilds and reports the
    # closure of its own props/<ID>.v, so a failure here is only logged
    ok, mlog = yvlib.coq_make(["-k", "all"], timeout=5400)
    if not ok:
        print(mlog[-3000:])
        print("setup: some Coq files did not build (each check reports its own closure)")
    yvlib.build_harness("debug")
    yvlib.build_harness("release")
    print("setup done in %.0fs (coq all ok=%s)" % (time.time() - t0, ok))
    return 0


if __name__ == "__main__":
    sys.exit(main())
