#!/usr/bin/env python3
"""Developer tool: claim a property in MANIFEST.json (moves it out of not_applicable).
usage: claim.py ID 'level text' 'level note' 'technique'"""
import json, sys
pid, text, note, tech = sys.argv[1:5]
p = '/verif/MANIFEST.json'
m = json.load(open(p))
m['checks'] = [c for c in m['checks'] if c['property_id'] != pid]
m['checks'].append({"property_id": pid, "quick_cmd": "./check %s --tier quick" % pid,
                    "thorough_cmd": "./check %s --tier thorough" % pid, "evidence_file": "evidence/%s.json" % pid,
                    "replay_cmd_template": "./check %s --replay {path}" % pid, "engine": "coq-yv",
                    "level_claimed": {"category": "proof", "text": text, "design_ref": "DESIGN.md §5 %s, §11; notes/%s.md" % (pid, pid)},
                    "level_note": note, "technique": tech})
m['checks'].sort(key=lambda c: c['property_id'])
m['not_applicable'] = [n for n in m.get('not_applicable', []) if n['property_id'] != pid]
m['engines'][0]['serves_properties'] = [c['property_id'] for c in m['checks']]
json.dump(m, open(p, 'w'), indent=1)
print("claimed", pid, "now:", [c['property_id'] for c in m['checks']])
