#!/usr/bin/env python3
"""FullBridge per-run evaluation: the bridges between the FULL compiler model (coq/theories/FullCompile.v) and the
fragment compilers the compile-correctness theorems are about, evaluated on generated programs (notes/FullBridge.md).

  C05 statements  FullBridgeRun.bridge_C05_thm_hex   vs CompileExpr.v    (theorem: FullBridgeC05.full_compile_stmt_bridge)
  C05 functions   FullBridgeFnDefs.bridge_Fn_hex     vs FnCompile.v      (theorem: FullBridgeFn.full_compile_fn_tree; "same" is
                                                                          a proof of tree_rel by bridge_Fn_same_sound, captures included)
  C06 stage 5     FullBridgeC06Defs.bridge_C06_wire  vs ScopeComp.v      (theorem: FullBridgeC06.C06_full_compile_scope_correct_stage5_validated
                                                                          has `bridge_C06 p = "same"` as its hypothesis)

Where a bridge THEOREM covers a program its answer cannot be anything but "same" while the Coq files compile; the run
(1) shows the theorems' side conditions hold on the programs of this run (fragment membership, size limits, representable
literals), (2) IS the hypothesis of the validated C06 theorem and of bridge_Fn_same_sound for programs with captures.

Stand-alone:   python3 tools/fullbridge_corr.py [--seed S] [--n N] [--only c05|fn|c06]
From a plug-in: import fullbridge_corr; fullbridge_corr.fullbridge_check(ctx, which=("c05", "fn"), n=150)
                (a bad answer -> ctx.corr_broken; counts under ctx.cov["fullbridge_<which>"])
Every random choice comes from the rng passed in."""
import argparse
import json
import os
import random
import sys
import time

if __name__ == "__main__":
    os.environ.setdefault("VERIF_JOBS", "3")
HERE = os.path.dirname(os.path.abspath(__file__))
if HERE not in sys.path:
    sys.path.insert(0, HERE)
import yvlib  # noqa: E402
from yvlib import hx  # noqa: E402
import fullcompile_corr as fc  # noqa: E402   (generators: bridge_sources, _plugin)

PRE = "Open Scope string_scope."

# answers that are fine / that mean the generator left the fragment (counted, no alarm) / everything else is an alarm
GOOD = {"c05": {"same"}, "fn": {"same/nocap", "same/cap"}, "c06": {"same"}}
OUTSIDE = {"c05": {"notfrag", "nofit", "parse"}, "fn": {"notfrag", "nofit", "parse"}, "c06": {"notfrag", "rej"}}


def sources_c05(rng, n):
    """C05 statement fragment: the sources of fullcompile_corr.bridge_check"""
    return fc.bridge_sources(rng, n)


def sources_fn(rng, n):
    """C05 function fragment: FnGen.program (fn global / local, lambdas, calls, return, closures) + Gen.program"""
    c05 = fc._plugin("C05")
    out = []
    for i in range(n):
        g = c05.FnGen(rng) if i % 5 else c05.Gen(rng)
        out.append(("fn:%d" % i, " ".join(g.program(rng.random() < 0.5)).encode()))
    return out


def sources_c06(rng, n):
    """C06 mini-language programs (tools/props/C06.py G.program), as wire strings"""
    c06 = fc._plugin("C06")
    out = []
    for i in range(n):
        p, _tags = c06.G(rng).program()
        out.append(("c06:%d" % i, c06.wire(p)))
    return out


def check(which, rng, n, tag=None):
    """-> (counts, bad list)"""
    tag = tag or ("fullbridge_" + which)
    if which == "c05":
        src = sources_c05(rng, n)
        terms = ['bridge_C05_thm_hex "%s"' % hx(s) for _, s in src]
        mods = ["YV:FullBridgeRun"]
    elif which == "fn":
        src = sources_fn(rng, n)
        terms = ['bridge_Fn_hex "%s"' % hx(s) for _, s in src]
        mods = ["YV:FullBridgeFnDefs"]
    elif which == "c06":
        src = sources_c06(rng, n)
        terms = ["bridge_C06_wire %s" % w for _, w in src]
        mods = ["YV:FullBridgeC06Defs"]
    else:
        raise ValueError(which)
    vals = yvlib.coq_eval(mods, terms, shard_size=60, tag=tag, preamble=PRE)
    st, bad = {}, []
    for (name, s), v in zip(src, vals):
        v = v if v is not None else "model_failed"
        st[v] = st.get(v, 0) + 1
        if v not in GOOD[which] and v not in OUTSIDE[which]:
            shown = s[:200] if isinstance(s, (bytes, str)) else s
            bad.append({"name": name, "why": "FullBridge %s: %s on %r" % (which, v, shown)})
    return st, bad


def fullbridge_check(ctx, which=("c05", "fn"), n=150):
    """plug-in entry: every bad answer goes to ctx.corr_broken (the full compiler model and the fragment compiler of the
    correctness theorem disagree, or a side condition of a bridge theorem fails on a program of the fragment)"""
    allbad = []
    for w in which:
        st, bad = check(w, ctx.rng, n)
        ctx.cov["fullbridge_" + w] = st
        for b in bad[:5]:
            ctx.corr_broken.append(b["why"])
        allbad += bad
    return allbad


def main():
    ap = argparse.ArgumentParser()
    ap.add_argument("--seed", type=int, default=1)
    ap.add_argument("--n", type=int, default=300)
    ap.add_argument("--only", default=None, choices=["c05", "fn", "c06"])
    a = ap.parse_args()
    rng = random.Random(a.seed)
    rc = 0
    for w in ([a.only] if a.only else ["c05", "fn", "c06"]):
        t0 = time.time()
        st, bad = check(w, rng, a.n, tag="fullbridge_%s_%d" % (w, a.seed))
        print("%s: %s  (%.1f s)" % (w, json.dumps(st, sort_keys=True), time.time() - t0))
        for b in bad[:10]:
            print("  BAD", b["name"], b["why"])
        rc |= 1 if bad else 0
    return rc


if __name__ == "__main__":
    sys.exit(main())
