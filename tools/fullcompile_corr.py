#!/usr/bin/env python3
"""FullCompile correspondence: the Gallina compiler (coq/theories/FullCompileRun.v: scan -> ParseLoc -> FullCompile)
against the real one (harness command `compile`), on every script under /repo/yarel/tests/scripts, on core.yl and
on generated programs (generators of tools/props/C04.py and C05.py).  Equal means BYTE-IDENTICAL dump text:
function tree in the same order, same arity / upvalue count / name / code bytes / constant tables / line tables.

Stand-alone:   python3 tools/fullcompile_corr.py [--gen N] [--seed S] [--only substring] [--json out.json]
From a plug-in: import fullcompile_corr; fullcompile_corr.fullcompile_check(ctx, budget_s)
                (mismatch -> ctx.corr_broken; counts under the `fullcompile_` keys of ctx.cov)
"""
import argparse
import importlib.util
import json
import os
import random
import re
import subprocess
import sys
import time

if __name__ == "__main__":
    os.environ.setdefault("VERIF_JOBS", "4")   # stand-alone: at most 4 concurrent coqc / harness processes
HERE = os.path.dirname(os.path.abspath(__file__))
if HERE not in sys.path:
    sys.path.insert(0, HERE)
import yvlib  # noqa: E402
from yvlib import hx, log  # noqa: E402

SCRIPTS = os.path.join(yvlib.REPO, "yarel", "tests", "scripts")
CORE_YL = os.path.join(yvlib.REPO, "yarel", "src", "core.yl")
MODEL_FILES = ["ParseLoc", "FullCompile", "FullCompileRun"]


# ------------------------------------------------------------------------------------------------
# inputs

def corpus():
    out = []
    for root, dirs, files in sorted(os.walk(SCRIPTS)):
        dirs.sort()
        for f in sorted(files):
            p = os.path.join(root, f)
            if f.endswith(".yl") and os.path.isfile(p):
                with open(p, "rb") as fh:
                    out.append(("script:" + os.path.relpath(p, SCRIPTS), fh.read()))
    with open(CORE_YL, "rb") as fh:
        out.append(("core.yl", fh.read()))
    return out


def _plugin(name):
    path = os.path.join(HERE, "props", name + ".py")
    spec = importlib.util.spec_from_file_location("fc_" + name, path)
    mod = importlib.util.module_from_spec(spec)
    spec.loader.exec_module(mod)
    return mod


# hand-written probes for the corners the brief names (hidden locals, resolver quirk, handler pops, limits)
PROBES = [
    "{ var x = || x; }",
    "{ var x = 1; { var y = || x; } }",
    "fn f() { var a = 1; fn g() { fn h() { return a; } return h; } return g; }",
    "for i in [1, 2] { var t = i; if t > 1 { break; } continue; }",
    "while true { try { break; } catch e { continue; } }",
    "fn f() { for x in 0..3 { try { try { return x; } finally { print(1); } } catch e { break; } } }",
    "#[constructor(new)] class A { fn m(self) { return self; } #[static] fn s() { return Self; } }",
    "#[constructor(new), derive(A)] class B { #[constructor] fn init(self, a, b) { self.a = a; super.m(); var f = || super.m; } }\nclass A { fn m(self) {} }",
    "{ #[derive(A)] class B { fn m(self) { return || super.m(); } } }",
    'import "a/b/c"; import "x" as y; { import "m/n"; }',
    'var a = 1; a += 2; a -= a * 3; var o = [1]; o[0] = 2; var s = "x${a}y${a + 1}"; s = "${a}";',
    "var t = (); var u = (1,); var v = (1, 2); var g = (1); var m = {1: 2, \"a\": [1, 2,]};",
    "var a; a = a && a || a; a.b.c = 1; a.b += 2; a.b(1, 2).c;",
    "var a = 1.0; var b = 1; var c = 0; var d = 0.0; var e = \"1\"; var f = 1e0;",
    "fn f(a, b) { return; }\nvar x =\n  f(1,\n    2)\n  + 3\n;",
    "var r = 1..2; for i in 1..\n 3 {\n print(i)\n;\n}\n",
    "try { throw 1; } finally { print(2); }",
    "try { } catch e { var f = || e; } finally { }",
    "fn f() { try { return 1; } finally { } return 2; }",
    "var x = 1; { var x = x; }",
    "{ var a = 1; var a = 2; }",
    "return 1;",
    "break;",
    "class A { fn m(self) { return super.m(); } }",
    "self;",
    "var a = |x, y| x + y; var b = || { return 1; }; var c = |x| { var y = x; return || y; };",
]


def generated(rng, n):
    """(name, bytes) of n generated programs; every choice comes from rng"""
    out = [("probe:%d" % i, p.encode()) for i, p in enumerate(PROBES)]
    c04 = c05 = None
    try:
        c04 = _plugin("C04")
    except Exception as e:  # pragma: no cover
        log("[fullcompile] generators of C04 unavailable: %r" % (e,))
    try:
        c05 = _plugin("C05")
    except Exception as e:  # pragma: no cover
        log("[fullcompile] generators of C05 unavailable: %r" % (e,))
    i = 0
    while len(out) < n + len(PROBES):
        i += 1
        k = i % 8
        try:
            if c04 and k in (0, 1, 2):
                src, _ = c04.gen_program(rng, "full" if k else "clean")
                out.append(("C04:%d" % i, src.encode()))
            elif c05 and k == 3:
                g = c05.Gen(rng)
                out.append(("C05frag:%d" % i, " ".join(g.program(rng.random() < 0.5)).encode()))
            elif c05 and k == 4:
                g = c05.FnGen(rng)
                out.append(("C05fn:%d" % i, " ".join(g.program(rng.random() < 0.5)).encode()))
            elif c05 and k == 5:
                g = c05.FnGen(rng)
                out.append(("C05beyond:%d" % i, c05.beyond_program(g).encode()))
            elif c05 and k == 6:
                g = c05.FnGen(rng)
                out.append(("C05try:%d" % i, c05.try_program(g).encode()))
            elif c05 and k == 7:
                g = c05.FnGen(rng)
                out.append(("C05interp:%d" % i, c05.interp_program(g).encode()))
            elif c04:
                src, _ = c04.gen_program(rng, "full")
                out.append(("C04:%d" % i, src.encode()))
            else:
                break
        except Exception as e:
            out.append(("genfail:%d" % i, b"var genfail = 0;"))
            if i < 20:
                log("[fullcompile] generator %d failed: %r" % (k, e))
    return out


def limits():
    """programs at and just over every compile-time limit (slow in the model: code of 64 KiB is built byte by byte)"""
    out = []
    for k in (255, 256):
        out.append(("limit:locals%d" % k, ("{ " + " ".join("var v%d;" % i for i in range(k)) + " }").encode()))
        out.append(("limit:args%d" % k, ("f(" + ", ".join(str(i % 7) for i in range(k)) + ");").encode()))
        out.append(("limit:params%d" % k, ("fn f(" + ", ".join("p%d" % i for i in range(k)) + ") {}").encode()))
        out.append(("limit:vec%d" % k, ("var v = [" + ", ".join("1" for i in range(k)) + "];").encode()))
        out.append(("limit:tuple%d" % k, ("var v = (" + ", ".join("1" for i in range(k)) + ");").encode()))
        out.append(("limit:map%d" % k, ("var v = {" + ", ".join("%d: 1" % i for i in range(k)) + "};").encode()))
        out.append(("limit:interp%d" % k, ('var v = "' + "".join("${1}" for i in range(k)) + '";').encode()))
    for k in (128, 129):   # 2k-1 parts / 2k+1 parts
        out.append(("limit:interp_lit%d" % k, ('var v = "' + "".join("a${1}" for i in range(k)) + '";').encode()))
    # upvalues: 256 / 257 distinct captures through two function levels
    for k in (256, 257):
        a = " ".join("var a%d = 0;" % i for i in range(200))
        b = " ".join("var b%d = 0;" % i for i in range(k - 200))
        use = " ".join("a%d;" % i for i in range(200)) + " " + " ".join("b%d;" % i for i in range(k - 200))
        out.append(("limit:upvalues%d" % k, ("fn f() { %s fn g() { %s fn h() { %s } } }" % (a, b, use)).encode()))
    # code-size limits.  The body is made of FEW statements (the parser model recurses once per statement of a
    # block, 64 KiB of one-line statements exhausts memory): `[v, .., v];` with v = [x * 250] is 752 k + 3 bytes,
    # `x;` is 4 bytes, `nil;` 2 bytes.  The boundaries are located with the real compiler (limit_boundaries).
    def body(nbytes):
        k, rest = divmod(nbytes - 3, 752)
        k, rest = (k, rest) if k <= 255 else (255, nbytes - 3 - 255 * 752)
        v = "[" + ", ".join("x" for _ in range(250)) + "]"
        s = "[" + ", ".join(v for _ in range(k)) + "];"
        while rest >= 752 * 2 + 3:
            kk = min(255, (rest - 3) // 752)
            s += " [" + ", ".join(v for _ in range(kk)) + "];"
            rest -= 752 * kk + 3
        s += " x;" * (rest // 4) + " nil;" * ((rest % 4) // 2)
        return s
    for n in range(65518, 65542, 2):
        out.append(("limit:if%d" % n, ("var x; if x { %s }" % body(n)).encode()))
        out.append(("limit:while%d" % n, ("var x; while x { %s }" % body(n)).encode()))
        out.append(("limit:for%d" % n, ("var x; for i in x { %s }" % body(n)).encode()))
        out.append(("limit:try%d" % n, ("var x; try { %s } catch e { }" % body(n)).encode()))
        out.append(("limit:catch%d" % n, ("var x; try { } catch e { %s }" % body(n)).encode()))
        out.append(("limit:and%d" % n, ("var x; x && %s" % body(n)).encode()))
        out.append(("limit:break%d" % n, ("var x; while x { break; %s }" % body(n)).encode()))
    for n in (65536, 65537):
        v = lambda base: "[" + ", ".join(str(base + j) for j in range(255)) + "]"
        rows = [v(i * 255) for i in range(n // 255)]
        stmts = ["[" + ", ".join(rows[i:i + 255]) + "];" for i in range(0, len(rows), 255)]
        stmts.append("[" + ", ".join(str((n // 255) * 255 + j) for j in range(n % 255)) + "];")
        out.append(("limit:consts%d" % n, " ".join(stmts).encode()))
    return out


# ------------------------------------------------------------------------------------------------
# the two sides

def limit_boundaries(binary, sources):
    """keeps, of each size-limit family, only the cases next to the accept / reject boundary of the REAL compiler
    (the model needs minutes and gigabytes for 64 KiB of code), and every other limit case"""
    fam = {}
    keep = []
    sized = re.compile(r"^limit:(if|while|for|try|catch|and|break)(\d+)$")
    for i, (name, src) in enumerate(sources):
        m = sized.match(name)
        if m:
            fam.setdefault(m.group(1), []).append((int(m.group(2)), i))
        else:
            keep.append(i)
    if fam:
        impl = impl_dumps(binary, sources)
        for f, items in fam.items():
            items.sort()
            oks = [(n, i) for n, i in items if impl[i] and impl[i][0] == "R ok"]
            errs = [(n, i) for n, i in items if not (impl[i] and impl[i][0] == "R ok")]
            if oks:
                keep.append(oks[-1][1])
            if errs:
                keep.append(errs[0][1])
    return [sources[i] for i in sorted(keep)]


def impl_dumps(binary, sources):
    recs = yvlib.run_harness(binary, ["compile " + (hx(s) if s else "-") for _, s in sources], case_timeout_ms=60000)
    out = []
    for r in recs:
        if r.crashed:
            out.append(["R crash " + str(r.crashed)])
        else:
            out.append([l.rstrip() for l in r.lines if not l.startswith("U ")])
    return out


def ensure_model_built():
    """stand-alone use: compile the three model files by hand if their .vo is missing or stale (no `make`)"""
    th = os.path.join(yvlib.COQ, "theories")
    stale = False
    for m in MODEL_FILES:
        v, vo = os.path.join(th, m + ".v"), os.path.join(th, m + ".vo")
        if stale or not os.path.exists(vo) or os.path.getmtime(vo) < os.path.getmtime(v):
            stale = True
            p = subprocess.run("timeout 900 coqc -Q theories YV -Q gen YVGen -Q props YVProps theories/%s.v" % m,
                               shell=True, cwd=yvlib.COQ, capture_output=True, text=True)
            if p.returncode != 0:
                raise RuntimeError("cannot build %s: %s" % (m, p.stderr[-1500:]))


def model_dumps(sources, tag="fullcompile", shard_size=40):
    if any(len(s) > 40000 for _, s in sources):
        shard_size = 1
    terms = ['fullcompile_hex "%s"' % hx(s) for _, s in sources]
    vals = yvlib.coq_eval(["YV:FullCompileRun"], terms, shard_size=shard_size, tag=tag, preamble="Open Scope string_scope.")
    return [None if v is None else [l.rstrip() for l in v.split("|")] for v in vals]


ERR_RE = re.compile(r'^\[module "[^"]*", line (\d+)\] Error(?: at end| at \'.*?\')?: (.*)$', re.S)


def impl_first_error(lines):
    for l in lines:
        if l.startswith("M "):
            msg = yvlib.unhx(l[2:].strip()).decode("utf-8", "replace")
            m = ERR_RE.match(msg)
            if m:
                return int(m.group(1)), m.group(2)
            return None, msg
    return None, ""


def decode_fn_lines(lines):
    fns = {}
    for l in lines:
        p = l.split(" ")
        if p[0] == "F":
            fns.setdefault(p[1], {})["F"] = p
        elif p[0] in ("C", "LN"):
            fns.setdefault(p[1], {})[p[0]] = p[2:]
    return fns


def first_difference(impl, model):
    """human-readable first difference between two ok dumps"""
    fi, fm = decode_fn_lines(impl), decode_fn_lines(model)
    for idx in sorted(fi, key=int):
        a, b = fi[idx], fm.get(idx)
        if b is None:
            return "function %s missing in the model" % idx
        for k, what in ((1 + 1, "arity"), (3, "upvalue count"), (4, "name")):
            if a["F"][k] != b["F"][k]:
                return "function %s: %s %s vs %s" % (idx, what, a["F"][k], b["F"][k])
        ca = "" if a["F"][5] == "-" else a["F"][5]
        cb = "" if b["F"][5] == "-" else b["F"][5]
        if ca != cb:
            n = next((i for i in range(0, min(len(ca), len(cb)), 2) if ca[i:i + 2] != cb[i:i + 2]), min(len(ca), len(cb)))
            return "function %s: code differs at offset %d: impl %s.. model %s.. (lengths %d / %d)" % (
                idx, n // 2, ca[n:n + 12], cb[n:n + 12], len(ca) // 2, len(cb) // 2)
        if a.get("C") != b.get("C"):
            ka, kb = a.get("C") or [], b.get("C") or []
            n = next((i for i in range(min(len(ka), len(kb))) if ka[i] != kb[i]), min(len(ka), len(kb)))
            return "function %s: constants differ at index %d: impl %s model %s (counts %d / %d)" % (
                idx, n, ka[n:n + 1], kb[n:n + 1], len(ka), len(kb))
        if a.get("LN") != b.get("LN"):
            la = (a.get("LN") or [""])[0].split(",")
            lb = (b.get("LN") or [""])[0].split(",")
            n = next((i for i in range(min(len(la), len(lb))) if la[i] != lb[i]), min(len(la), len(lb)))
            return "function %s: line of byte %d: impl %s model %s" % (idx, n, la[n:n + 1], lb[n:n + 1])
    if len(fm) != len(fi):
        return "the model has %d functions, the implementation %d" % (len(fm), len(fi))
    return "dump text differs (order of lines)"


def compare(sources, impl, model):
    """-> (stats dict, list of mismatch descriptions)"""
    st = {"cases": len(sources), "ok_identical": 0, "err_agree": 0, "err_line_differs": 0, "mismatch": 0,
          "model_failed": 0, "functions": 0, "code_bytes": 0}
    bad = []
    for (name, src), a, b in zip(sources, impl, model):
        if b is None:
            st["model_failed"] += 1
            bad.append({"name": name, "why": "the model did not evaluate"})
            continue
        ia, ib = a[0] if a else "", b[0] if b else ""
        if ia == "R ok" and ib == "R ok":
            if a == b:
                st["ok_identical"] += 1
                st["functions"] += sum(1 for l in a if l.startswith("F "))
                st["code_bytes"] += sum(len(l.split(" ")[5]) // 2 for l in a if l.startswith("F ") and l.split(" ")[5] != "-")
            else:
                st["mismatch"] += 1
                bad.append({"name": name, "why": first_difference(a, b)})
        elif ia.startswith("R err") and ib.startswith("R err"):
            line, msg = impl_first_error(a)
            m = re.match(r"R err (\d+) (.*)$", ib, re.S)
            mline, mmsg = (int(m.group(1)), m.group(2)) if m else (None, ib)
            if msg == mmsg and line == mline:
                st["err_agree"] += 1
            elif msg == mmsg:
                st["err_line_differs"] += 1
                bad.append({"name": name, "why": "same first error %r, line impl %s model %s" % (msg, line, mline), "soft": True})
            else:
                st["mismatch"] += 1
                bad.append({"name": name, "why": "first error: impl (%s) %r, model (%s) %r" % (line, msg, mline, mmsg)})
        else:
            st["mismatch"] += 1
            det = ""
            if ia.startswith("R err"):
                det = " impl: %r" % (impl_first_error(a),)
            bad.append({"name": name, "why": "outcome differs: impl %r model %r%s" % (ia, ib[:120], det)})
    return st, bad


def run_all(binary, sources, tag="fullcompile"):
    t0 = time.time()
    impl = impl_dumps(binary, sources)
    t1 = time.time()
    model = model_dumps(sources, tag=tag)
    t2 = time.time()
    st, bad = compare(sources, impl, model)
    st["impl_seconds"] = round(t1 - t0, 1)
    st["model_seconds"] = round(t2 - t1, 1)
    return st, bad


def bridge_sources(rng, n):
    """programs of the C05 fragment (CompileExpr.v): expressions, globals / locals, blocks, if / while, break / continue"""
    c05 = _plugin("C05")
    out = []
    for i in range(n):
        g = c05.Gen(rng)
        k = i % 3
        stmts = g.expr_program() if k == 0 else g.program(k == 1)
        out.append(("bridge:%d" % i, " ".join(stmts).encode()))
    return out


def bridge_check(sources, tag="fullcompile_bridge"):
    """FullCompile vs `assemble (cprogram true p)` / `const_table` of CompileExpr.v (FullCompileRun.bridge_C05)"""
    terms = ['bridge_C05_hex "%s"' % hx(s) for _, s in sources]
    vals = yvlib.coq_eval(["YV:FullCompileRun"], terms, shard_size=60, tag=tag, preamble="Open Scope string_scope.")
    st = {}
    bad = []
    for (name, src), v in zip(sources, vals):
        v = v if v is not None else "model_failed"
        st[v] = st.get(v, 0) + 1
        if v in ("DIFF", "cerr", "model_failed"):
            bad.append({"name": name, "why": "bridge to CompileExpr.v: %s on %r" % (v, src[:200])})
    return st, bad


# ------------------------------------------------------------------------------------------------
# plug-in entry

def fullcompile_check(ctx, budget_s=120):
    """corpus + as many generated programs as fit the budget (about 25 programs per second and core);
    every hard mismatch goes to ctx.corr_broken"""
    binary = ctx.harness("release")
    n_gen = 600 if budget_s < 200 else 2500
    srcs = corpus() + generated(ctx.rng, n_gen)
    st, bad = run_all(binary, srcs, tag="fullcompile")
    hard = [b for b in bad if not b.get("soft")]
    for b in hard[:10]:
        ctx.corr_broken.append("FullCompile: model and compiler.rs disagree on %s: %s" % (b["name"], b["why"]))
    ctx.cov.update({"fullcompile_" + k: v for k, v in st.items()})
    ctx.cov["fullcompile_soft"] = [b for b in bad if b.get("soft")][:10]
    bst, bbad = bridge_check(bridge_sources(ctx.rng, 150 if budget_s < 200 else 600))
    for b in bbad[:5]:
        ctx.corr_broken.append("FullCompile: " + b["why"])
    ctx.cov["fullcompile_bridge_C05"] = bst
    return st, bad + bbad


def main():
    ap = argparse.ArgumentParser()
    ap.add_argument("--gen", type=int, default=2000)
    ap.add_argument("--seed", type=int, default=1)
    ap.add_argument("--only", default=None)
    ap.add_argument("--json", default=None)
    ap.add_argument("--binary", default=os.path.join(yvlib.BUILD, "cargo", "release", "yv"))
    ap.add_argument("--no-corpus", action="store_true")
    ap.add_argument("--limits", action="store_true", help="add the (slow) limit family")
    ap.add_argument("--tag", default="fullcompile", help="directory under build/cases (use a different one for concurrent runs)")
    ap.add_argument("--bridge", type=int, default=0, help="N programs of the C05 fragment: FullCompile vs CompileExpr.v")
    a = ap.parse_args()
    os.environ["YV_NO_EVAL_MAKE"] = "1"
    ensure_model_built()
    rng = random.Random(a.seed)
    srcs = ([] if a.no_corpus else corpus()) + (generated(rng, a.gen) if a.gen > 0 else [])
    if a.limits:
        srcs += limit_boundaries(a.binary, limits())
    if a.only:
        srcs = [s for s in srcs if any(o in s[0] for o in a.only.split(","))]
    t0 = time.time()
    st, bad = run_all(a.binary, srcs, tag=a.tag)
    st["seconds"] = round(time.time() - t0, 1)
    groups = {}
    for (name, _) in srcs:
        groups.setdefault(name.split(":")[0], [0, 0])[0] += 1
    for b in bad:
        if not b.get("soft"):
            groups[b["name"].split(":")[0]][1] += 1
    print(json.dumps(st, indent=1))
    print("by family (cases, hard mismatches):", json.dumps(groups))
    for b in bad[:60]:
        print(("SOFT " if b.get("soft") else "DIFF ") + b["name"] + ": " + b["why"])
    if a.bridge:
        bst, bbad = bridge_check(bridge_sources(rng, a.bridge), tag=a.tag + "_bridge")
        print("bridge to CompileExpr.v (C05 fragment):", json.dumps(bst))
        for b in bbad[:10]:
            print("DIFF " + b["name"] + ": " + b["why"])
        st["bridge_C05"] = bst
        bad += bbad
    if a.json:
        yvlib.write_json(a.json, {"stats": st, "bad": bad, "families": groups})
    return 0 if not [b for b in bad if not b.get("soft")] else 1


if __name__ == "__main__":
    sys.exit(main())
