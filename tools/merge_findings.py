#!/usr/bin/env python3
"""Developer tool (never run by a check): merges notes/*-findings.json into known_findings.json 'open',
skipping classes that already have a 'fixed:' entry for that class name."""
import glob, json, os, sys
V = os.path.dirname(os.path.dirname(os.path.abspath(__file__)))
kf = json.load(open(os.path.join(V, "known_findings.json")))
fixed_classes = set()
for f in kf["fixed"]:
    parts = f.split()
    if len(parts) > 3:
        for c in parts[3].rstrip(":").split("/"):
            fixed_classes.add(c)
seen = {(o["property"], o["class"]) for o in kf["open"]}
for path in sorted(glob.glob(os.path.join(V, "notes", "*-findings.json"))):
    try:
        items = json.load(open(path))
    except Exception as e:
        print("skip", path, e); continue
    for it in items:
        key = (it.get("property"), it.get("class"))
        if it.get("class") in fixed_classes:
            print("already fixed:", key); continue
        if key in seen:
            continue
        if "--dry" in sys.argv:
            print("would add", key); continue
        kf["open"].append({k: it.get(k) for k in ("property", "class", "summary", "witness", "site")})
        seen.add(key)
        print("added", key)
json.dump(kf, open(os.path.join(V, "known_findings.json"), "w"), indent=1)
