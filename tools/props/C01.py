"""C01 - GC safety: nothing a program can still reach is ever reclaimed; output never depends on the schedule.

Theorems (coq/props/C01.v over Heap/Collect/Mutator + CollectExt): collect_retains_reach, collect_closed,
collect_only_reach, collect_exact, holds_covered (modulo the open classes, exact list of uncovered pairs),
collect_terminates / schedule_independence (refuted today: `blacken` re-greys; positive variant after the fix).
Tie: (a) translator/translate_c01.py regenerates the per-type tables from the struct definitions and the
`impl GcManaged` bodies; side conditions re-decided by coqc on every run;
(b) impl == M for the collector ALGORITHM: hook H2 snapshots the real heap (root counts and what the real
mark/blacken of every box reach), the real collector runs, Collect.v must retain the same boxes;
(c) impl == S (S = never-collect run of the same program): role probes, chains of two roles, random
heap-shaped programs; collect-at-every-allocation under the quarantine (hook H1) vs gc=never;
(d) SCALE (round 7): the collector algorithm itself is read by the translator (collector_shape_gen = collector_shape_ref,
theories/CollectShape.v; depth-bounded Mechanism variants refuted in CollectShapeProofs.v) and exercised on reference chains of
1100 .. 70000 links through every traced role and on wide containers / heaps: heap built under gc=never, ONE forced collection
(hook H2), chain walked; per-collection spec evaluated in the harness on the deep heap (`force=deep`)."""
import json
import os
import re
import sys
import time

sys.path.insert(0, os.path.dirname(os.path.dirname(os.path.abspath(__file__))))
import yvlib  # noqa
from yvlib import hx, log

LEVEL = "proof"
TRUSTED = [
    "Coq 8.16.1 kernel (coqc), vm_compute; no native_compute, no extraction",
    "translator/translate_c01.py + rustlex.py (token-level reading of struct fields and GcManaged impls; its "
    "(struct, field) -> role table FIELD_ROLES; pinned_audit of theories/PinnedC01.v is a hand-justified table, each entry probed)",
    "hooks H1/H2 (memory.rs `verif`: dereference callback, policy, snapshot, force_collect, live_addrs; "
    "object.rs slot_check) and the harness `yv` (Rust; quarantining allocator), tools/*.py (Python)",
    "modelled, not verified: Rust Vec/HashMap/RefCell semantics; a dangling Gc during marking is a no-op in M",
    "collector_shape_ref (theories/CollectShape.v) mirrors Collect.v's step / mark_roots / trace_loop / sweep by reading; the translator's "
    "exact-match reading of seven function bodies of memory.rs after dropping instrumentation",
]
ASSUMPTIONS = [
    "rooting discipline of ~60 native/_impl code sites (Gc values held in Rust locals across an allocation) is "
    "observed (quarantine + collect-at-every-allocation over the probes), not proved",
    "pinned_audit (PinnedC01.v): every ObjString is rooted by the intern table, core classes by Vm.class_store / string_class, for the Vm's lifetime "
    "(no removal path in vm.rs, Vm::reset included); Chunk.constant_map keys duplicate Chunk.constants",
    "the quarantine turns a use of reclaimed memory into a deterministic event (freed memory is poisoned, never reused)",
    "snapshot correspondence observes mark/blacken CLOSURES per box (not direct edges): divergence behaviour of "
    "the real colour loop is compared only as terminate / not terminate",
]

CASE_TIMEOUT_MS = 5000

KIND_NO = {"ObjString": 0, "ObjStringIter": 1, "ObjUpvalue": 2, "ObjFunction": 3, "ObjNative": 4, "ObjClosure": 5,
           "ObjClass": 6, "ObjInstance": 7, "ObjBoundMethod<ObjClosure>": 8, "ObjBoundMethod<ObjNative>": 9,
           "ObjVec": 10, "ObjVecIter": 11, "ObjTuple": 12, "ObjTupleIter": 13, "ObjRange": 14, "ObjRangeIter": 15,
           "ObjHashMap": 16, "ObjModule": 17, "ObjFiber": 18, "Chunk": 19}

KNOWN = ()   # no class of C01 failures is a recorded open finding any more (open_upvalue_dead_fiber: repaired by 8e4673f)

# (kind, role) of the generated tables -> probe tags that exercise it (search on break)
ROLE_TAGS = {
    "RElem": "elem", "RKey": "key", "RValue": "value", "RClass": "class", "RSuperclass": "superclass",
    "RMetaclass": "metaclass", "RMethod": "method", "RMethodName": "method", "RName": "function",
    "RField": "field", "RFieldName": "field", "RReceiver": "receiver", "RBoundFn": "receiver",
    "RUpvalue": "upvalue", "RClosedValue": "upvalue", "ROpenSlot": "open", "RNext": "upvalue",
    "RFunction": "function", "RChunk": "function", "RConstant": "function", "RConstKey": "function",
    "RModule": "module", "RModulePath": "module", "RAttr": "module", "RAttrName": "module",
    "RIterable": "iter", "RStack": "stack", "RFrameClosure": "stack", "RCaller": "fiber",
    "RReturnValue": "return_value", "ROpenUpvalues": "open", "RPath": "module",
}
STRUCT_TAGS = {"ObjVec": "elem", "ObjTuple": "elem", "ObjHashMap": "value", "HashMap": "value", "ObjClass": "method",
               "ObjInstance": "field", "ObjBoundMethod": "receiver", "ObjClosure": "upvalue", "ObjUpvalue": "upvalue",
               "ObjFiber": "fiber", "ObjModule": "module", "ObjFunction": "function", "Chunk": "function",
               "Stack": "stack", "CallFrame": "stack", "Vec": "elem", "Value": "elem", "Gc": "elem", "RefCell": "elem",
               "ObjVecIter": "iter", "ObjTupleIter": "iter", "ObjStringIter": "iter", "ObjRangeIter": "iter"}


# ------------------------------------------------------------------------------------------
# probe programs

_gctr = [0]


def garb(n=6):
    """allocates garbage (vec, tuple, string per round): a collection at every allocation in the stress runs"""
    _gctr[0] += 1
    g = "g%d_" % _gctr[0]
    return '{ var %s = 0; while %s < %d { var t%s = [%s, (%s, "x${%s}")]; %s += 1; } }' % (g, g, n, g, g, g, g, g)


def evict():
    """builds 9 distinct ranges: whatever range was built before is pushed out of the VM's 8-entry range cache
    (vm.rs build_range keeps a Root per cached range), so that the cache is no longer an owner of it"""
    _gctr[0] += 1
    e = "e%d_" % _gctr[0]
    return "{ var %s = 0; while %s < 9 { var r%s = (7000 + %s)..(7100 + %s); %s += 1; } }" % (e, e, e, e, e, e)


def window(body="", pre=None):
    """the probed object is alive ONLY through the probed role between the two @@C marks; @@PREMISE makes the
    harness verify that claim on a heap snapshot (hook H2) for the object tagged with T(..).
    Secondary owners are removed first: the range cache is flushed in EVERY window (a range payload, or a range
    inside the payload, must not survive because the cache still roots it)."""
    return 'print("@@C"); %s print("@@PREMISE"); %s %s print("@@C");' % (evict() if pre is None else pre, body, garb())


# shapes of the probed object X: (name, constructor expression, expression printing it given variable x)
# (no string payloads: every ObjString is permanently rooted by the intern table, so a string is never
#  reachable ONLY through anything)
SHAPES = [
    ("vec", '[1, "two", [3]]', "{x}"),
    ("tuple", '(1, "two", (3, 4))', "{x}"),
    ("inst", 'P.new([7, 8])', "{x}.v"),
    # a range held as a VALUE (Value::ObjRange arm of Value::mark): only meaningful once the range cache is flushed
    ("range", '(3)..(9)', "{x}"),
]
# The helper class P and the tagging function T(x) (see ext_c01.rs) live in a LIBRARY module: since 342604d a closure
# traces its module, so a class defined in the probing module would tie every instance into one cycle with that module's
# globals (instance -> class -> method closure -> module -> global holding the container -> instance), and the holder test,
# which sees mark closures and not edges, could no longer tell who holds whom.  Nothing in `c01lib` points back.
LIB = ("#[constructor(new)] class P { #[constructor] fn new(self, v) { self.v = v; } fn get(self) { return self.v; } }\n"
       'fn T(x) { print(("@@TAG", x)); return x; }\n')
PRELUDE = 'import "c01lib" as L_; var P = L_.P; var T = L_.T;\n'
WRAP = 'fn run_() { import "probe_"; } run_();'
DRAIN = "var n_ = c.next(); var k_ = 0; while !n_.derives(StopIter) && k_ < 50 { print(n_); n_ = c.next(); k_ += 1; } print(k_);"


LATELOAD = ('var consts = ["s-one", 2.5, (1, 2)]; fn outer(a) { fn inner(b) { return |c| [a, b, c, "k${a}"]; } return inner; } '
            '#[constructor(new)] class LC { fn m(self) { return "m${1 + 1}"; } #[static] fn s() { return (|x| x)([1]); } } var made = outer([1])((2, 3))(LC.new());')
COMPILER_SITES = ["compiler.rs:allocate_function", "compiler.rs:function", "compiler.rs:identifier_constant", "compiler.rs:initialiser",
                  "compiler.rs:interpolation", "compiler.rs:lambda", "compiler.rs:new", "compiler.rs:string", "vm.rs:add_chunk"]
# (name, allocation sites exercised, program fragment); mkv/mkt/mkm/mks/mki build fresh unnamed operands
MID_OPS = [
    ("vec slice of a temporary vec", ["vm.rs:vec_get_item"], "print(mkv()[1..3]); print(deep(mkv()[2..4][0])); print([[1], (2, [3]), [4]][0..2]);"),
    ("vec index of a temporary vec", ["vm.rs:vec_get_item"], "print(mkv()[1]); print(deep(mkv()[2]));"),
    ("tuple slice / index of a temporary tuple", ["vm.rs:tuple_get_item"], "print(mkt()[0..2]); print(deep(mkt()[1..3][1])); print(mkt()[1]);"),
    ("string slice / index of a temporary string", ["vm.rs:string_get_item"], "print(mks()[1..4]); print(mks()[2]); print((mks() + mks())[3..9]);"),
    ("string + with temporary operands", ["vm.rs:add_impl"], 'print(mks() + ("x" + "y")); print((mks() + "-") + (mks() + "!"));'),
    ("interpolation of temporaries", ["vm.rs:format_string_impl", "vm.rs:build_string_impl"], 'print("v=${mkv()} t=${mkt()} i=${mki().v} s=${mks() + "z"} m=${mkm().len()}");'),
    ("tuple literal of temporaries", ["vm.rs:build_tuple_impl"], "print((mkv(), mkt(), [9], (mki().v, 1)));"),
    ("vec literal of temporaries", ["vm.rs:build_vec_impl"], "print([mkv(), mkt(), (1, [2]), mki().v]);"),
    ("map literal of temporaries", ["vm.rs:build_hash_map"], 'print({"a": mkv(), (1, 2): mkt(), "c": {"d": mki().v}}.get((1, 2))); print({(mkt()[0][0], (7, 8)): mkv()}.values());'),
    ("range literal while temporaries are on the operand stack", ["vm.rs:build_range"], "print([mkv(), (1 + 1)..(2 + 5), mkt()]); print(mkv()[(0 + 1)..(1 + 2)]);"),
    ("construction with temporary arguments", ["vm.rs:construct_impl"], "print(deep(P.new(mkv()))); print(P.new((mkt(), P.new([1]))).v);"),
    ("closure creation capturing temporaries", ["vm.rs:closure_impl", "vm.rs:capture_upvalue"], "print((|| { var a = mkv(); var b = mkt(); return || [a, b]; })()()); print((|a, b| || (a, b))(mkv(), mki().v)());"),
    ("class declaration while temporaries are live", ["vm.rs:declare_class_impl"],
     "fn k(a) { #[constructor(new)] class C { fn m(self) { return a; } #[static] fn s() { return [a]; } } return C; } print(k(mkv()).new().m()); print(k(mkt()).s());"),
    ("method binding on a temporary receiver", ["vm.rs:bind_method"], "print((mki().get)()); print((mkv().len)()); var b = P.new(mkv()).get; print(b());"),
    ("native error with temporary operands", ["vm.rs:call_native", "vm.rs:try_handle_error"],
     'try { mkv()[99]; } catch e { print(e.derives(IndexError)); } try { mks().find(mkv()); } catch e { print(e.derives(Error)); } try { mkm().get(mkv()); } catch e { print(e.derives(Error)); }'),
    ("throwing a temporary that is not an Error", ["vm.rs:new_error_from_value", "vm.rs:try_handle_error"], "try { throw mkv(); } catch e { print(e.derives(TypeError)); } try { throw Error.new(mkt()); } catch e { print(e.context); }"),
    ("import at run time (module object, module closure, compilation) while temporaries are live", ["vm.rs:module", "vm.rs:start_import_impl"] + COMPILER_SITES,
     'fn late(a, b) { import "lateload"; return [a, lateload.made, b, lateload.consts, lateload.LC.s()]; } print(late(mkv(), mkt()));'),
    ("String.from* on temporaries", ["core.rs:string_from", "core.rs:string_from_ascii", "core.rs:string_from_utf8", "core.rs:string_from_code_points"],
     "print(String.from(mkv()) + String.from(mkt())); print(String.from_utf8([104, 105]) + String.from_code_points([33, 8364])); print(String.from_ascii([72, 73]));"),
    ("string natives on a temporary string", ["core.rs:string_replace", "core.rs:string_split", "core.rs:string_to_bytes", "core.rs:string_to_code_points"],
     'print((mks() + "XaX").replace("X" + "", "-" + "-")); print((mks() + ",p," + mks()).split("," + "")); print((mks() + "€").to_bytes()); print(("€" + mks()).to_code_points());'),
    ("string iterator of a temporary string", ["core.rs:string_iter", "core.rs:string_iter_next"], 'print(mks().iter().next()); var n = 0; for ch in mks() + "€z" { n += 1; } print(n); var e = ("" + "").iter(); print(e.next().derives(StopIter));'),
    ("vec iterator of a temporary vec", ["core.rs:vec_iter", "core.rs:vec_iter_next"], "print(mkv().iter().next()); for e in mkv() { print(deep(e)); } print([].iter().next().derives(StopIter));"),
    ("tuple iterator of a temporary tuple", ["core.rs:tuple_iter", "core.rs:tuple_iter_next"], "print(mkt().iter().next()); for e in mkt() { print(deep(e)); } var it = (1, 2)[0..0].iter(); print(it.next().derives(StopIter));"),
    ("range iterator of a temporary range", ["core.rs:range_iter", "core.rs:range_iter_next"], "print(((1 + 1)..(2 + 3)).iter().next()); for i in (5 - 2)..(5 + 1) { print([i]); } print((1..1).iter().next().derives(StopIter));"),
    ("keys / values / items of a temporary map", ["core.rs:hash_map_keys", "core.rs:hash_map_values", "core.rs:hash_map_items"],
     "print(mkm().keys().len()); print(mkm().values().len()); for kv in mkm().items() { print(deep(kv[1])); } print({(1, 2): mkv()}.items());"),
    ("Fiber.new on a temporary closure, results and arguments are temporaries", ["core.rs:fiber_init"],
     "print(Fiber.new(|| mkv()).call()); var f = Fiber.new(|a| { var b = Fiber.yield([a, mkt()]); return (a, b); }); print(f.call(mkv())); print(f.call(mki().v));"),
    ("map / filter / reduce / collect over temporaries (core.yl)", ["vm.rs:construct_impl", "vm.rs:bind_method"],
     "print(mkv().iter().map(|e| [e, e]).collect()); print(mkv().iter().filter(|e| !e.derives(P)).collect()); print(mkt().iter().reduce(|a, e| [a, e], []));"),
]


def probes():
    """list of dicts: tag, role, shape, src, mods, known (class name or None), holders.
    holders: type-name fragments of the ONLY boxes allowed to hold the tagged object at the collection point
    (premise of the probe, verified by the harness); None = the program tags nothing (premise not checkable)"""
    out = []

    def add(tag, role, shape, src, known=None, mods=None, regrey=False, holders=None, why_no_premise=None, max_holders=1,
            holder_chain=None, pinned=False, seq=None, need_unrooted_holder=None, all_tags=False):
        # the body runs inside a function: its variables are locals (fiber stack), not module attributes, so the module
        # (which every closure and class of the program reaches) does not become a holder of everything
        body = src if seq else "fn body_() { %s } body_();" % src
        out.append({"tag": tag, "role": role, "shape": shape, "src": PRELUDE + body, "mods": mods or {},
                    "known": known, "regrey": regrey, "holders": holders, "why_no_premise": why_no_premise,
                    "max_holders": max_holders, "holder_chain": holder_chain, "pinned": pinned, "seq": seq,
                    "need_unrooted_holder": need_unrooted_holder, "all_tags": all_tags})

    UP = ["ObjUpvalue"]
    FB = ["ObjFiber"]
    # an object held by a module attribute: the module and the closures/classes defined in it form a cycle (closure -> module)
    MODH = {"holders": ["ObjModule", "ObjClosure", "ObjClass", "ObjUpvalue"], "max_holders": 12}
    # an OPEN upvalue traces the fiber owning its slot (8e4673f) and the fiber lists its open upvalues: a cycle
    # fiber <-> upvalue (<- closure); the closure-based holder test names every member of it
    OPEN = {"holders": ["ObjFiber", "ObjUpvalue", "ObjClosure"], "max_holders": 4}
    for sname, mk, show in SHAPES:
        X = "T(%s)" % mk
        pr = lambda e: "print(%s);" % show.format(x=e)
        # containers
        add("elem", "vec element", sname, "fn mk() { return [0, %s]; } var c = mk(); %s %s" % (X, window(), pr("c[1]")), holders=["ObjVec"])
        add("elem", "tuple element", sname, "fn mk() { return (0, %s); } var c = mk(); %s %s" % (X, window(), pr("c[1]")), holders=["ObjTuple"])
        add("value", "map value", sname, 'fn mk() { var m = {}; m.insert("k", %s); return m; } var c = mk(); %s %s' % (X, window(), pr('c.get("k")')), holders=["ObjHashMap"])
        add("value", "map value (literal)", sname, 'fn mk() { return {"k": %s, 2: 3}; } var c = mk(); %s %s' % (X, window(), pr('c.get("k")')), holders=["ObjHashMap"])
        add("field", "instance field", sname, "fn mk() { var i = P.new(0); i.f = %s; return i; } var c = mk(); %s %s" % (X, window(), pr("c.f")), holders=["ObjInstance"])
        # closures
        add("upvalue", "closed upvalue", sname, "fn mk() { var x = %s; fn g() { return x; } return g; } var c = mk(); %s %s" % (X, window(), pr("c()")), holders=UP)
        add("upvalue", "closed upvalue shared by two closures, written through one", sname,
            "fn mk() { var x = 0; fn s(v) { x = v; } fn g() { return x; } return (s, g); } var c = mk(); c[0](%s); %s %s" % (X, window(), pr("c[1]()")), holders=UP)
        add("open", "open upvalue (enclosing frame still active)", sname,
            "fn outer() { var x = %s; fn g() { return x; } %s return g(); } var r = outer(); %s" % (X, window(), pr("r")), **OPEN)
        add("open", "open upvalue kept only by the fiber's open list, re-captured later", sname,
            "fn outer() { var x = %s; { fn a() { return x; } } %s fn b() { return x; } return b; } var r = outer(); %s %s" % (X, window(), garb(), pr("r()")), **OPEN)
        add("upvalue", "nested closure (upvalue of an upvalue)", sname,
            "fn mk() { var x = %s; fn a() { fn b() { return x; } return b; } return a; } var c = mk(); %s var d = c(); %s %s" % (X, window(), garb(), pr("d()")), holders=UP)
        # classes
        add("method", "instance -> class -> method table -> closure -> upvalue", sname,
            "fn mk() { var x = %s; #[constructor(new)] class C { fn m(self) { return x; } } return C.new(); } var c = mk(); %s %s" % (X, window(), pr("c.m()")), holders=UP)
        add("metaclass", "class -> metaclass -> static method -> upvalue", sname,
            "fn mk() { var x = %s; class C { #[static] fn s() { return x; } } return C; } var c = mk(); %s %s" % (X, window(), pr("c.s()")), holders=UP)
        add("method", "inherited method copied into the subclass", sname,
            "fn mk() { var x = %s; class A { fn m(self) { return x; } } #[derive(A), constructor(new)] class B {} return B.new(); } var c = mk(); %s %s" % (X, window(), pr("c.m()")), holders=UP)
        add("class", "class under construction (methods defined while allocating)", sname,
            ("fn mk() { var x = %s; " + evict() + " print(\"@@PREMISE\"); #[constructor(new)] class C { fn a(self) { return x; } fn b(self) { return [x]; } #[static] fn s() { return (x, 1); } fn c(self) { return self.a(); } } return C; } %s var k = mk(); print(\"@@C\"); %s %s") % (X, 'print("@@C");', pr("k.new().c()"), pr("k.s()[0]")),
            holders=UP + FB)
        # bound methods: the probed object is the RECEIVER
        add("receiver", "bound closure method -> receiver", sname,
            "fn mk() { var i = T(P.new(%s)); return i.get; } var c = mk(); %s %s" % (mk, window(), pr("c()")), holders=["ObjBoundMethod"])
        add("receiver", "bound native method -> receiver", sname,
            "fn mk() { var v = T([%s, 5]); return v.pop; } var c = mk(); %s c(); %s" % (mk, window(), pr("c()")), holders=["ObjBoundMethod"])
        # iterators: the probed object is the ITERABLE
        add("iter", "vec iterator -> iterable (explicit .iter())", sname, "fn mk() { return T([%s, 2]).iter(); } var c = mk(); %s %s" % (mk, window(), pr("c.next()")), holders=["ObjVecIter"])
        add("iter", "tuple iterator -> iterable (explicit .iter())", sname, "fn mk() { return T((%s, 2)).iter(); } var c = mk(); %s %s" % (mk, window(), pr("c.next()")), holders=["ObjTupleIter"])
        add("iter", "vec only through the iterator of a running for loop", sname,
            "fn mk() { return T([%s, [2], [3]]); } var k = 0; for e in mk() { %s k += 1; if k == 1 { %s } else { print(e); } } print(k);" % (mk, window(), pr("e")), holders=["ObjVecIter"])
        add("iter", "tuple only through the iterator of a running for loop", sname,
            "fn mk() { return T((%s, [2], [3])); } var k = 0; for e in mk() { %s k += 1; if k == 1 { %s } else { print(e); } } print(k);" % (mk, window(), pr("e")), holders=["ObjTupleIter"])
        add("iter", "map/filter iterator chain -> iterable", sname,
            "fn mk() { return T([%s, 0]).iter().map(|e| [e]).filter(|e| true); } var c = mk(); %s %s" % (mk, window(), pr("c.next()[0]")), holders=["ObjVecIter"])
        # modules
        add("module", "module attribute", sname, 'import "m1"; %s %s' % (window(), pr("m1.data")),
            mods={"m1": PRELUDE + "var data = %s;" % X}, **MODH)
        add("module", "closure of an imported module -> its globals", sname, 'fn get() { import "m1"; return m1.f; } var c = get(); %s %s' % (window(), pr("c()")),
            mods={"m1": PRELUDE + "var hidden = %s; fn f() { return hidden; }" % X}, **MODH)
        # a module that is no longer in Vm.modules, held ONLY by a closure that escaped from it (342604d).
        # Premise: the payload has no root and is held by the module and the closures of its own cycle only; the module
        # itself has NO root (it left the registry) and is held by closures only.
        MC = {"holders": ["ObjModule", "ObjClosure"], "max_holders": 3, "holder_chain": {"ObjModule": ["ObjClosure"]}}
        add("module", "module whose load failed (closure escapes in the thrown error), reloaded: held only by the escaped closure", sname,
            'var keep = nil; try { import "m" as m; } catch e { keep = e.context; } try { import "m" as m2; } catch e2 { print("second load failed too"); } '
            '%s %s' % (window(), pr("keep()")),
            mods={"m": PRELUDE + "var secret = %s; fn get() { return secret; } throw Error.new(get);" % X},
            # (a range payload is the SAME object in both loads - the second load gets it from the range cache - so the rooted
            #  second module holds it too: no premise for that shape)
            **(MC if sname != "range" else {"why_no_premise": "both loads of the module share the cached range object"}))
        add("module", "module dropped from the registry (reload after a failed first import), held only by an escaped closure", sname,
            'import "reg" as reg; try { import "m" as m; } catch e { print("first load failed"); } import "m" as m2; %s '
            'print(reg.list.len()); %s %s' % (window(), pr("reg.list[0]()"), pr("reg.list[1]()")),
            mods={"reg": "var list = [];",
                  "m": PRELUDE + 'import "reg" as reg; var secret = %s; fn get() { return secret; } reg.list.push(get); '
                                 'if reg.list.len() == 1 { throw "first load fails"; }' % X},
            # here the dropped module imports the registry module that holds the closure: one cycle with a rooted member,
            # in which the closure-based holder test cannot tell who holds whom
            why_no_premise="dropped module and the rooted registry module lie on one reference cycle (witness program of /verif/fixes/closure_module)")
        add("module", "module dropped by Vm::reset, held only by a closure the host kept across the reset", sname,
            'import "m1"; var keep = m1.get;', mods={"m1": PRELUDE + "var secret = %s; fn get() { return secret; }" % X},
            seq=("reset", "keep", "%s %s" % (window(), pr("keep()"))),
            # snippets of a c01seq probe run in "main" (the host can only re-install a global there), so the dropped module lies on
            # one cycle with main (module -> built-in globals -> core closures -> main -> keep -> closure -> module): only the weak
            # form of the premise is checkable: the payload has no root and SOME module that holds it has no root either
            holders=["ObjModule", "ObjClosure", "ObjClass", "ObjUpvalue", "ObjInstance", "ObjFunction"], max_holders=400,
            need_unrooted_holder="ObjModule")
        # A closure that outlives a FAILED run (c01seq keep: second snippet on the same Vm).  Vm::reset_stack must close the
        # captured variables of EVERY fiber waiting for the failing one (their stacks are cleared) - depth 1..3 of waiting
        # fibers, variable captured at each level, plus the failing fiber itself and main's own frame.
        for depth in (1, 2, 3):
            for level in range(0, depth + 2):
                # level 0 = a function frame of the main fiber, 1..depth = waiting fibers, depth+1 = the failing fiber
                cap = 'var x = %s; fn g() { return x; } keep = g;' % X
                inner = '%s throw "boom";' % (cap if level == depth + 1 else "")
                code = 'var h%d = Fiber.new(|| { %s }); h%d.call();' % (depth + 1, inner, depth + 1)
                for d in range(depth, 0, -1):
                    code = 'var h%d = Fiber.new(|| { %s %s return 0; }); h%d.call();' % (d, cap if level == d else "", code, d)
                code = 'var keep = nil; fn top() { %s %s } top();' % (cap if level == 0 else "", code)
                add("upvalue", "closure outliving a FAILED run: %d waiting fiber(s), variable captured at level %d (0 = main frame, %d = failing fiber)" % (depth, level, depth + 1),
                    sname, code, seq=("keep", "keep", "%s %s" % (window(), pr("keep()"))),
                    holders=UP if sname not in ("inst",) else None,
                    why_no_premise="c01seq snippets run in main: an instance payload lies on one cycle with main's globals")
        # "value held only by an (open, then closed) upvalue whose stack slot has been discarded": a closure captures a fresh
        # payload declared in a block / loop body / try block, escapes into a vec, and the scope is left by every kind of exit;
        # the slot is then reused (`filler`), a collection runs, the payload is read through the closure.  If the exit does
        # not close the upvalue it keeps pointing ABOVE the stack top, where Stack::mark does not look.
        D = "var a_ = 0; var b_ = 0; var c_ = 0; var payload = %s; hs.push(|| payload);" % X
        EXITS = [
            ("normal end of a block", "{ %s }" % D),
            ("end of a for-loop body, three passes", "for i in [1, 2, 3] { %s }" % D),
            ("end of a while-loop body", "var n = 0; while n < 2 { %s n += 1; }" % D),
            ("break out of a for loop", "for i in [1, 2, 3] { %s if i == 2 { break; } }" % D),
            ("break out of a nested block in a while loop", "var n = 0; while true { n += 1; { %s if n == 2 { break; } } }" % D),
            ("continue in a for loop", "for i in [1, 2, 3] { %s if i < 3 { continue; } var z_ = [i]; }" % D),
            ("continue in a while loop", "var n = 0; while n < 3 { n += 1; %s if n < 3 { continue; } var z_ = [n]; }" % D),
            ("return from a nested block", "fn f(hs) { { { %s return 1; } } } f(hs);" % D),
            ("return from a loop body", "fn f(hs) { for i in [1, 2, 3] { %s if i == 2 { return i; } } return 0; } f(hs);" % D),
            ("return inside try with finally", 'fn f(hs) { try { %s return 1; } finally { var note = ["cleanup"]; hs.len(); } } f(hs);' % D),
            ("return inside try with finally inside a loop", 'fn f(hs) { for i in [1, 2] { try { %s if i == 2 { return 1; } } finally { var note = [i]; } } return 0; } f(hs);' % D),
            ("return inside try with catch", 'fn f(hs) { try { %s return 1; } catch e { return 2; } } f(hs);' % D),
            ("end of a try block with finally", 'try { %s } finally { var note = ["cleanup"]; }' % D),
            ("exception thrown in the same frame", 'try { %s throw Error.new(1); } catch e { var seen = [1]; }' % D),
            ("exception thrown one frame deeper", 'fn t1() { throw Error.new(1); } try { %s t1(); } catch e { var seen = [1]; }' % D),
            ("exception thrown two frames deeper", 'fn t1() { throw Error.new(1); } fn t2() { var l = [2]; t1(); } try { %s t2(); } catch e { var seen = [1]; }' % D),
            ("exception unwinding the capturing frame itself (one frame)", 'fn t1(hs) { %s throw Error.new(1); } try { t1(hs); } catch e { var seen = [1]; }' % D),
            ("exception unwinding two capturing frames", 'fn t1(hs) { %s throw Error.new(1); } fn t2(hs) { %s t1(hs); } try { t2(hs); } catch e { var seen = [1]; }' % (D, D.replace("payload", "payload2").replace("a_", "d_"))),
            ("exception through a finally (rethrown), caught outside", 'fn t1(hs) { try { %s throw Error.new(1); } finally { hs.len(); } } try { t1(hs); } catch e { var seen = [1]; }' % D),
            ("native error (index out of range) unwinding the block", 'try { %s [1][5]; } catch e { var seen = [1]; }' % D),
            ("fiber yields and is abandoned", 'var fb = Fiber.new(|| { %s Fiber.yield(1); return 0; }); fb.call(); fb = nil;' % D),
            ("fiber yields inside a loop body, resumed past the scope, then finishes", 'var fb = Fiber.new(|| { for i in [1, 2] { %s Fiber.yield(i); } return 0; }); fb.call(); fb.call(); fb.call();' % D),
            ("fiber body returns (fiber finished)", 'var fb = Fiber.new(|| { %s return 0; }); fb.call();' % D),
            ("exception caught inside a fiber that then yields (an error leaving a fiber ends the run: c01seq family)",
             'var fb = Fiber.new(|| { try { %s throw Error.new(1); } catch e { var seen = [1]; } Fiber.yield(1); return 0; }); fb.call();' % D),
        ]
        for ename, code in EXITS:
            add("scope", "value held only by an upvalue whose slot was discarded: %s" % ename, sname,
                "fn collect() { var hs = []; %s var filler = [0, [1], (2, 3)]; var filler2 = [4]; return hs; } var hs = collect(); var noise = [7, [8], 9]; %s "
                "var k_ = 0; while k_ < hs.len() { %s k_ += 1; } print(hs.len());" % (code, window(), pr("hs[k_]()")),
                # abandoned fiber: the upvalue stays open, and upvalue -> owner fiber -> frame closure -> captured `hs` -> closure -> upvalue
                # is a cycle, all of whose members the closure-based holder test names; range payload: every pass gets the SAME cached range object
                holders=["ObjUpvalue", "ObjFiber", "ObjClosure", "ObjVec"] if "abandoned" in ename else UP, all_tags=True,
                max_holders=8 if "abandoned" in ename else (3 if sname == "range" else 1))
        # fibers (fibers that reference each other through stack and caller form a cycle: the closure-based holder
        # test then names every fiber of the cycle, hence max_holders=3 for those)
        add("fiber", "suspended fiber's stack", sname,
            "var f = Fiber.new(|| { var x = %s; Fiber.yield(1); return x; }); f.call(); %s %s" % (X, window(), pr("f.call()")), holders=FB)
        add("fiber", "caller chain (object on a calling fiber's stack)", sname,
            "var f = Fiber.new(|| { var x = %s; var g = Fiber.new(|| { %s return 1; }); g.call(); return x; }); %s" % (X, window(), pr("f.call()")), holders=FB, max_holders=3)
        add("fiber", "value passed into a fiber on resume", sname,
            "var f = Fiber.new(|| { var got = Fiber.yield(0); %s return got; }); f.call(); %s" % (window(), pr("f.call(%s)" % X)), holders=FB, max_holders=3)
        add("open", "captured variable on a suspended fiber's stack (fiber kept)", sname,
            "var f = Fiber.new(|| { var x = %s; fn g() { return x; } Fiber.yield(g); return 0; }); var c = f.call(); %s %s" % (X, window(), pr("c()")), **OPEN)
        add("open", "captured variable on a calling fiber's stack", sname,
            "var f = Fiber.new(|| { var x = %s; fn g() { return x; } var h = Fiber.new(|| { %s return g(); }); return h.call(); }); %s" % (X, window(), pr("f.call()")), holders=OPEN["holders"], max_holders=8)
        add("upvalue", "captured variable of a finished fiber (closed on return)", sname,
            "fn mk() { var f = Fiber.new(|| { var x = %s; fn g() { return x; } return g; }); return f.call(); } var c = mk(); %s %s" % (X, window(), pr("c()")), holders=UP)
        add("open", "captured variable on a DROPPED suspended fiber's stack", sname,
            "fn mk() { var f = Fiber.new(|| { var x = %s; fn g() { return x; } Fiber.yield(g); return 0; }); return f.call(); } var c = mk(); %s %s" % (X, window(), pr("c()")), **OPEN)
        # interpreter-held values
        add("return_value", "return value held across a finally", sname,
            "fn f() { try { return %s; } finally { %s } } %s" % (X, window(), pr("f()")), holders=FB)
        add("return_value", "thrown error (payload) held across a finally, caught outside", sname,
            # (locals inside a finally entered by an exception are mis-addressed: C08's business; allocate in a callee)
            "fn w() { %s } fn f() { try { throw Error.new(%s); } finally { w(); } } try { f(); } catch e { %s }" % (window(), X, pr("e.context")), holders=["ObjInstance"])
        add("stack", "operand stack: argument evaluated before an allocating argument", sname,
            "fn two(a, b) { return a; } fn alloc() { %s return 0; } %s" % (window(), pr("two(%s, alloc())" % X)), holders=FB)
        # map keys (untraced before repair a563c74); only tuples (and strings, numbers) are hashable
        if sname == "tuple":
            add("key", "map key (only reference)", sname,
                "fn mk() { var m = {}; m.insert(%s, 1); return m; } var c = mk(); %s for k in c.keys() { %s }" % (X, window(), pr("k")), holders=["ObjHashMap"])
            add("key", "map key (only reference) inside a nested map value", sname,
                'fn mk() { var m = {}; m.insert(%s, 1); return {"in": [m]}; } var c = mk(); %s for k in c.get("in")[0].keys() { %s }' % (X, window(), pr("k")), holders=["ObjHashMap"])
    # key shape with hashing on use
    add("key", "map key (only reference), looked up by an equal key", "tuple",
        'fn mk() { var m = {}; m.insert(T((1, "ab")), 5); return m; } var c = mk(); %s print(c.get((1, "ab"))); print(c.has_key((2, "ab")));' % window(), holders=["ObjHashMap"])
    add("key", "map key in a literal", "tuple",
        'fn mk() { return {T((1, 2)): "v"}; } var c = mk(); %s print(c.items());' % window(), holders=["ObjHashMap"])
    # superclass link (untraced before repair 05235d7): the probed object is the ancestor class, a local of mk
    add("superclass", "class -> superclass (derives walks the chain)", "class",
        "fn mk() { class A {} T(A); #[derive(A), constructor(new)] class B {} return B; } var c = mk(); %s print(c.new().derives(String)); print(c.new().derives(P));" % window(), holders=["ObjClass"])
    add("superclass", "class -> superclass -> superclass", "class",
        "fn mk() { class A {} T(A); #[derive(A)] class B {} #[derive(B), constructor(new)] class C {} return C; } var c = mk(); %s print(c.new().derives(Error));" % window(), holders=["ObjClass"])
    add("superclass", "instance -> class -> superclass, super call", "class",
        "fn mk() { class A { fn m(self) { return [1]; } } T(A); #[derive(A), constructor(new)] class B { fn m(self) { return [super.m(), 2]; } } return B.new(); } var c = mk(); %s print(c.m()); print(c.derives(Error));" % window(),
        holders=["ObjClass", "ObjUpvalue"])
    # bound-method cycles (before repair ee7595b `blacken` re-greyed the receiver: endless loop / recursion)
    add("receiver", "bound-method 4-cycle (trace_references loops)", "cycle",
        "var v = []; var x = v.push; var w = []; var y = w.push; v.push(y); w.push(x); %s print(v.len()); print(w.len());" % window(), regrey=True,
        why_no_premise="the probed thing is the shape of the cycle, not a single owner")
    add("receiver", "bound method stored in a field of its receiver, receiver captured (blacken recursion)", "cycle",
        "fn make() { var r = nil; #[constructor(new)] class A { fn m(self) { return r; } } r = A.new(); r.f = r.m; return r; } var keep = make(); %s print(keep.f().derives(P));" % window(), regrey=True,
        why_no_premise="the probed thing is the shape of the cycle, not a single owner")
    add("receiver", "bound method stored in its own receiver (self-cycle terminates)", "cycle",
        "var v = []; v.push(v.len); %s print(v[0]());" % window(), regrey=True, why_no_premise="the probed thing is the shape of the cycle, not a single owner")
    # ranges.  The VM keeps a Root for each of the 8 most recently built ranges (vm.rs build_range): a range is reachable
    # only through its iterator only after 8 OTHER distinct ranges have been built (evict()).
    add("range", "range literal served from the range cache (cache is the only owner)", "range",
        "fn mk() { return 1..4; } mk(); %s for i in 1..4 { print(i); } print(mk());" % window(),
        why_no_premise="the probed owner is the cache's Root itself (num_roots > 0 by construction)")
    for name, lo, hi in (("ascending", 2, 7), ("descending", 7, 2), ("ascending from a negative bound", -3, 2)):
        add("iter", "range only through an explicit .iter(), cache evicted, then next() until StopIter", "range %s" % name,
            "fn mk() { return T((%d)..(%d)).iter(); } var c = mk(); print(c.next()); %s %s" % (lo, hi, window(pre=evict()), DRAIN), holders=["ObjRangeIter"])
        add("iter", "range only through the iterator of a running for loop, cache evicted in every pass", "range %s" % name,
            "var k = 0; for i in T((%d)..(%d)) { %s k += 1; print(i); if k > 40 { print(\"runaway loop\"); break; } } print(k);" % (lo, hi, window(pre=evict())), holders=["ObjRangeIter"])
        add("iter", "range only through an iterator held by a map/filter chain, cache evicted", "range %s" % name,
            "fn mk() { return T((%d)..(%d)).iter().map(|e| [e]).filter(|e| true); } var c = mk(); %s %s" % (lo, hi, window(pre=evict()), DRAIN), holders=["ObjRangeIter"])
    add("iter", "range iterator -> range while the range is still cached (cache not evicted)", "range",
        "fn mk() { return (2..5).iter(); } var c = mk(); %s print(c.next()); print(c.next());" % window(),
        why_no_premise="the range cache still owns the range: kept as the ordinary-use case, premise deliberately not claimed")
    add("iter", "string iterator -> string (explicit .iter())", "string", 'fn mk() { return ("a" + "bc").iter(); } var c = mk(); %s print(c.next()); print(c.next());' % window(),
        why_no_premise="every ObjString is permanently rooted by the intern table: a string is never reachable only through its iterator")
    add("iter", "string only through the iterator of a running for loop", "string", 'fn mk() { return "a" + "bc"; } for ch in mk() { %s print(ch); }' % window(),
        why_no_premise="every ObjString is permanently rooted by the intern table: a string is never reachable only through its iterator")
    # the exemptions of theories/PinnedC01.v that carry weight (held, not traced, accepted because a permanent root pins the
    # target).  Premise of these probes = the exemption's own claim: the tagged target has num_roots > 0 at the collection point.
    # An interned string is tagged by building an equal string: interning hands back the very same ObjString.
    add("pinned", "(KClass, RName): name of a class that is no global", "string",
        'fn mk() { class Zq1Name {} return Zq1Name; } var c = mk(); T("Zq1" + "Name"); %s print(c);' % window(), pinned=True)
    add("pinned", "(KClass, RName) across Vm::reset: class kept by the host", "string",
        'fn mk() { #[constructor(new)] class Zq2Name { fn m(self) { return [1]; } } return Zq2Name; } var keep = mk(); T("Zq2" + "Name");',
        seq=("reset", "keep", "%s print(keep); print(keep.new().m());" % window()), pinned=True)
    add("pinned", "(KModule, RPath): path of an imported module", "string",
        'import "mq7"; T("mq" + "7"); %s print(mq7);' % window(), mods={"mq7": "var a = 1;"}, pinned=True)
    add("pinned", "(KModule, RPath) of a module dropped by Vm::reset and held only by an escaped closure", "string",
        'import "mq8"; var keep = mq8.get; T("mq" + "8");', mods={"mq8": "fn get() { import \"mq8\" as me; return 1; } fn bad() { return nil + 1; }"},
        seq=("reset", "keep", '%s try { print(keep()); } catch e { print("caught"); }' % window()), pinned=True)
    add("pinned", "(KFunction, RModulePath): module path in the trace of an uncaught error", "string",
        'import "mq9"; T("mq" + "9"); %s mq9.bad();' % window(), mods={"mq9": "fn bad() { return nil + 1; }"}, pinned=True)
    add("pinned", "(KNative, RName): name of a native reached through a bound method", "string",
        'fn mk() { return [1, 2].push; } var c = mk(); T("pu" + "sh"); %s print(c);' % window(), pinned=True)
    add("pinned", "(KFiber, RClass): the Fiber core class", "class",
        'fn mk() { var f = Fiber.new(|| { Fiber.yield(1); return 2; }); f.call(); return f; } var c = mk(); T(Fiber); %s print(c.has_finished()); print(c.call()); print(c.derives(Fiber));' % window(), pinned=True)
    add("pinned", "(KString, RClass): the String class", "class",
        'var s = "ab" + "cd"; T(String); %s print(s.len()); print(s.derives(String));' % window(), pinned=True)
    add("pinned", "(K*Iter, RClass): iterator core classes (not nameable: Iter, their superclass, is tagged)", "class",
        'var a = [1, 2].iter(); var b = (1, 2).iter(); var c = (3..5).iter(); var d = ("x" + "y").iter(); T(Iter); %s '
        'print(a.derives(Iter)); print(b.next()); print(c.next()); print(d.next()); print(a.map(|e| e + 1).collect());' % window(), pinned=True)
    add("pinned", "(KModule, RClass): the module core class", "class",
        'import "mq6"; var m = mq6; %s print(m.derives(Error)); print(m.a);' % window(), mods={"mq6": "var a = 1;"},
        why_no_premise="the module class is not nameable from a program")
    add("function", "(KChunk, RConstKey) / RConstant: nested function objects and a tuple-free constant pool reached only through chunks", "function",
        'fn mk() { fn inner() { fn deep() { return ["const-str", 12345.5]; } return deep; } return inner; } var c = mk(); %s print(c()()());' % window(),
        why_no_premise="function objects in a constant pool are not nameable from a program")
    # "values the interpreter itself is holding mid-operation": for every VM operation / native that allocates (sites
    # listed by the translator: manifest gc_tables.alloc_sites) a program in which EVERY operand is a temporary - a call
    # result or literal with fresh heap elements (vecs, tuples, instances: not strings, which are interned and rooted),
    # referenced from nowhere else - and the result is printed deeply afterwards.
    MK = ('fn mkv() { return [[1, "one"], (2, [22]), P.new([3]), [4, "four"]]; } fn mkt() { return ([1, "one"], (2, [22]), P.new([3])); } '
          'fn mkm() { return {"a": [1, (2, 3)], (4, 5): P.new([6])}; } fn mks() { return "ab" + "cdef"; } fn mki() { return P.new([[7], (8, 9)]); } '
          'fn deep(x) { if x.derives(P) { return "P(${deep(x.v)})"; } return "${x}"; } ')
    for name, sites, body in MID_OPS:
        add("temp", "mid-operation: %s" % name, "temporaries", MK + 'print("@@C"); %s print("@@C");' % body,
            mods={"lateload": LATELOAD} if "lateload" in body else None,
            why_no_premise="the probed objects are unnamed temporaries (operand stack / Rust locals of a native)")
        out[-1]["sites"] = sites
    return out


def probe_pairs(rng, n):
    """chains of two roles: X reachable only through role A then role B (containers / closures / fibers)"""
    wrap = [
        ("vec", lambda e: "[0, %s]" % e, lambda c: "%s[1]" % c, "ObjVec"),
        ("tuple", lambda e: "(%s, 0)" % e, lambda c: "%s[0]" % c, "ObjTuple"),
        ("mapval", lambda e: '{"k": %s}' % e, lambda c: '%s.get("k")' % c, "ObjHashMap"),
        ("field", lambda e: "P.new(%s)" % e, lambda c: "%s.v" % c, "ObjInstance"),
        ("closure", lambda e: "(|| { var x = %s; return || x; })()" % e, lambda c: "%s()" % c, "ObjUpvalue"),
        ("bound", lambda e: "P.new(%s).get" % e, lambda c: "%s()" % c, "ObjInstance"),
        ("iter", lambda e: "[%s].iter()" % e, lambda c: "%s.next()" % c, "ObjVec"),
        ("fiber", lambda e: "(|| { var f = Fiber.new(|| { var x = %s; Fiber.yield(0); return x; }); f.call(); return f; })()" % e, lambda c: "%s.call()" % c, "ObjFiber"),
    ]
    out = []
    combos = [(a, b) for a in wrap for b in wrap]
    rng.shuffle(combos)
    for a, b in combos[:n]:
        sname, mk, show = SHAPES[rng.randrange(len(SHAPES))]
        src = PRELUDE + "fn body_() { fn mk() { return %s; } var c = mk(); %s print(%s); } body_();" % (
            a[1](b[1]("T(%s)" % mk)), window(), show.format(x=b[2]("(" + a[2]("c") + ")")))
        out.append({"tag": "pair", "role": "%s -> %s" % (a[0], b[0]), "shape": sname, "src": src, "mods": {},
                    "known": None, "regrey": a[0] == "bound" or b[0] == "bound", "holders": [b[3]], "why_no_premise": None})
    return out


def random_program(rng):
    """a random heap-shaped program: objects o0..on wired by random edges (depth <= 4), up to 6 fibers,
    roots dropped at random, garbage, then everything still reachable is printed"""
    n = rng.randint(3, 10)
    lines = [PRELUDE.strip(), "var keep = [];"]
    kinds = []
    nf = 0
    bound = False
    for i in range(n):
        k = rng.choice(["vec", "vec", "tuple", "map", "inst", "closure", "bound", "iter", "fiber", "str", "riter"])
        if k == "fiber" and nf >= 6:
            k = "vec"
        prev = ["o%d" % j for j in range(i)]
        ref = rng.choice(prev) if prev and rng.random() < 0.8 else str(i)
        ref2 = rng.choice(prev) if prev and rng.random() < 0.5 else '"s%d"' % i
        if k == "vec":
            lines.append("var o%d = [%s, %s];" % (i, ref, ref2))
        elif k == "tuple":
            lines.append("var o%d = (%s, %s);" % (i, ref, ref2))
        elif k == "map":
            # a tuple that is reachable only as a key
            lines.append('var o%d = {"a": %s, (%d, "k%d"): %s};' % (i, ref, i, i, ref2))
        elif k == "inst":
            lines.append("var o%d = P.new(%s); o%d.w = %s;" % (i, ref, i, ref2))
        elif k == "closure":
            lines.append("var o%d = (|| { var x = %s; var y = %s; return || [x, y]; })();" % (i, ref, ref2))
        elif k == "bound":
            bound = True
            lines.append("var o%d = %s;" % (i, rng.choice(["P.new(%s).get" % ref, "[%s].len" % ref])))
        elif k == "iter":
            lines.append("var o%d = [%s, %s].iter();" % (i, ref, ref2))
        elif k == "riter":
            # a range that only its iterator holds once the range cache has been flushed (window(pre=evict()))
            lo = rng.randint(-5, 5)
            hi = lo + rng.choice([-4, -2, 3, 5])
            lines.append("var o%d = ((%d)..(%d)).iter(); o%d.next();" % (i, lo + 100 * i, hi + 100 * i, i))
        elif k == "fiber":
            nf += 1
            lines.append("var o%d = Fiber.new(|| { var x = %s; var got = Fiber.yield(x); return (got, %s); }); o%d.call();" % (i, ref, ref2, i))
        else:
            lines.append('var o%d = "t%d" + "%s";' % (i, i, "ab"[i % 2]))
        kinds.append(k)
        # back edges (cycles) through mutable containers
        if prev and rng.random() < 0.4:
            tgt = rng.randrange(i)
            if kinds[tgt] == "vec":
                lines.append("o%d.push(o%d);" % (tgt, i))
            elif kinds[tgt] == "map":
                lines.append('o%d.insert("b%d", o%d);' % (tgt, i, i))
            elif kinds[tgt] == "inst":
                lines.append("o%d.z = o%d;" % (tgt, i))
    # keep a random subset reachable, drop the rest
    kept = [i for i in range(n) if rng.random() < 0.5] or [n - 1]
    for i in kept:
        lines.append("keep.push(o%d);" % i)
    for i in range(n):
        lines.append("o%d = nil;" % i)
    lines.append(window(pre=evict()).replace('print("@@PREMISE");', ""))

    def use(expr, kind, depth):
        if kind == "closure":
            return "print(%s());" % expr
        if kind == "bound":
            return "print(%s());" % expr
        if kind == "iter":
            return "print(%s.next());" % expr
        if kind == "riter":
            return "print(%s.next()); print(%s.next());" % (expr, expr)
        if kind == "fiber":
            return "print(%s.call(1));" % expr
        if kind == "inst":
            return "print(%s.v); print(%s.w);" % (expr, expr)
        return "print(%s);" % expr
    for j, i in enumerate(kept):
        lines.append(use("keep[%d]" % j, kinds[i], 0))
    lines.append(garb(3))
    lines.append("print(keep.len());")
    return {"tag": "random", "role": "random heap", "shape": "+".join(sorted(set(kinds))), "src": "\n".join(lines),
            "mods": {}, "known": None, "regrey": bound, "holders": None,
            "why_no_premise": "random program: no single probed object"}


# ------------------------------------------------------------------------------------------
# SCALE probes (round 7): the collector must not depend on the DEPTH or the SIZE of the object graph.
# Everything above builds shallow heaps (the deepest tracing recursion of all role probes is < 20): a recursion limit, a
# worklist capacity, a pass bound or a batch size in the collector is invisible to them.  Here the heap is a reference
# chain of `depth` links through one traced role (or a random mixture of roles), or a wide object (one container /
# one heap with tens of thousands of members), that is alive across a collection and is then walked to its end.
#   configurations: release gc=never (reference) | release gc=never,force=1 (the heap is built without any collection, then
#   ONE forced collection meets it in one piece: linear cost, so depth 3000 and 70000 are affordable) | release gc=never,
#   force=deep (the same, plus the per-collection spec evaluated inside the harness: survivors = least fixed point of the
#   one-box `mark` observations from the rooted boxes) | release gc=always and the debug build (collect at every
#   allocation: quadratic cost, depth 1100 only).

# link kinds: how one link of the chain is built from (value, rest) and how it is taken apart again.
#   cons: expression with {v} and {n};  uncons: statements that set vv_ (the value) and move nd_ to the rest
LINKS = {
    "vec":      {"cost": 1, "roles": "vec element", "cons": "[{v}, {n}]", "uncons": "vv_ = nd_[0]; nd_ = nd_[1];",
                 "append": ("[{v}, nil]", "{t}[1] = {x};")},
    "tuple":    {"cost": 1, "roles": "tuple element", "cons": "({v}, {n})", "uncons": "vv_ = nd_[0]; nd_ = nd_[1];"},
    "mapval":   {"cost": 1, "roles": "map value", "cons": '{{"v": {v}, "n": {n}}}', "uncons": 'vv_ = nd_.get("v"); nd_ = nd_.get("n");',
                 "append": ('{{"v": {v}, "n": nil}}', '{t}.insert("n", {x});')},
    "field":    {"cost": 1, "roles": "instance field", "cons": "mkn_({v}, {n})", "uncons": "vv_ = nd_.v; nd_ = nd_.nx;",
                 "append": ("mkn_({v}, nil)", "{t}.nx = {x};")},
    "closure":  {"cost": 3, "roles": "closure -> closed upvalue", "cons": "mkc_({v}, {n})", "uncons": "vv_ = nd_(0); nd_ = nd_(1);"},
    "bound":    {"cost": 2, "roles": "bound method -> receiver -> field -> tuple", "cons": "mkb_({v}, {n})", "uncons": "var p_ = nd_(); vv_ = p_[0]; nd_ = p_[1];"},
    "veciter":  {"cost": 2, "roles": "vec iterator -> iterable -> element", "cons": "[{v}, {n}].iter()", "uncons": "vv_ = nd_.next(); nd_ = nd_.next();"},
    "tupiter":  {"cost": 2, "roles": "tuple iterator -> iterable -> element", "cons": "({v}, {n}).iter()", "uncons": "vv_ = nd_.next(); nd_ = nd_.next();"},
    "shared":   {"cost": 3, "roles": "two closures sharing one closed upvalue", "cons": "mks_({v}, {n})", "uncons": "vv_ = nd_[0](); nd_ = nd_[1]();"},
    "fiber":    {"cost": 3, "roles": "suspended fiber's stack", "cons": "mkf_({v}, {n})", "uncons": "var p_ = nd_.call(0); vv_ = p_[0]; nd_ = p_[1];"},
}
SCALE_DEFS = ["fn mkn_(v, n) { var o = P.new(v); o.nx = n; return o; }",
              "fn mkc_(v, n) { fn g(k) { if k == 0 { return v; } return n; } return g; }",
              "fn mkb_(v, n) { return P.new((v, n)).get; }",
              "fn mks_(v, n) { var pair = (v, n); fn a() { return pair[0]; } fn b() { return pair[1]; } return (a, b); }",
              "fn mkf_(v, n) { var f = Fiber.new(|a| { Fiber.yield(0); return a; }); f.call((v, n)); return f; }"]
# where the head of the chain hangs: {build} is the expression building it, {use} the variable holding it
ANCHORS = {
    "local": ("var h_ = {build};", "h_"),
    "module attribute": ("G_ = {build};", "G_"),
    "closed upvalue": ("var hc_ = (|| {{ var x = {build}; return || x; }})();", "hc_()"),
    "map key (a tuple chain is hashable)": ("var hm_ = {{}}; hm_.insert({build}, 1);", "hm_.keys()[0]"),
}


def scale_probe(role, shape, src, scale):
    return {"tag": "scale", "role": role, "shape": shape, "src": src, "mods": {}, "known": None, "regrey": False, "holders": None,
            "why_no_premise": "scale probe: the probed thing is the depth / size of the graph, not a single owner", "scale": scale}


def scale_window():
    return 'print("@@C"); print("@@GC"); %s print("@@C");' % garb(4)


def chain_program(kinds, depth, order="prepend", anchor="local"):
    """a chain of `depth` links, link i of kind kinds[i % len(kinds)]; values 1..depth; walked after the collection point"""
    k = len(kinds)
    depth -= depth % k
    if order == "append":
        assert k == 1 and "append" in LINKS[kinds[0]]
        mk, setnext = LINKS[kinds[0]]["append"]
        build = ("fn build_(n) { var head = %s; var t = head; var i = 2; while i <= n { var x = %s; %s t = x; i += 1; } return head; } " % (
            mk.format(v="1"), mk.format(v="i"), setnext.format(t="t", x="x")))
    else:
        steps = " ".join("h = %s; i += 1;" % LINKS[x]["cons"].format(v="i", n="h") for x in reversed(kinds))
        build = "fn build_(n) { var h = nil; var i = 1; while i <= n { %s } return h; } " % steps
    # (each step in its own block: `var p_` of two links of the same kind must not collide)
    unc = " ".join("{ %s } s += vv_; c += 1;" % LINKS[x]["uncons"] for x in kinds)
    walk = "fn walk_(nd_) { var s = 0; var c = 0; var vv_ = 0; while nd_ != nil && c < %d { %s } return (c, s); } " % (depth + 10, unc)
    decl, use = ANCHORS[anchor]
    defs = " ".join(d for d in SCALE_DEFS if any(d.startswith("fn mk%s_" % LINKS[x]["cons"][2]) for x in kinds if LINKS[x]["cons"].startswith("mk")))
    body = "%s %s %s %s %s print(walk_(%s));" % (defs, build, walk, decl.format(build="build_(%d)" % depth), scale_window(), use)
    pre = "var G_ = nil;\n" if anchor == "module attribute" else ""
    return PRELUDE + pre + "fn body_() { %s } body_();" % body, depth


def scale_probes(rng, quick):
    """list of probe dicts (tag 'scale') with a `scale` entry {"depth": n, "cost": c}: cost 1 = one small box per link,
    2 = two or three, 3 = expensive under collect-at-every-allocation (see scale_configs)"""
    out = []

    def add(role, shape, src, n, cost, quick_extra=(), gen=None):
        out.append(scale_probe(role, shape, src, {"depth": n, "cost": cost, "quick_extra": list(quick_extra), "gen": gen}))

    D_ALL, D_BIG, D_HUGE = 1100, 3000, 70000
    singles = [k for k in LINKS]
    for kind in singles:
        cost = LINKS[kind]["cost"]
        # (a suspended fiber owns a 256 KB value stack: the fiber chain stays at 1100 links = 290 MB)
        for depth in ((D_ALL,) if kind == "fiber" else (D_ALL, D_BIG, D_HUGE)):
            anchor = "local" if depth != D_BIG else rng.choice(["local", "module attribute", "closed upvalue"])
            src, d = chain_program([kind], depth, "prepend", anchor)
            add("chain through: %s (%s, newest link is the head)" % (LINKS[kind]["roles"], anchor), "depth %d" % d, src, d, cost,
                (["debug"] if (kind, depth) == ("vec", D_ALL) else []) + (["deep"] if (kind, depth) == ("field", D_BIG) else []), gen=[[kind], "prepend", anchor])
        if "append" in LINKS[kind]:
            for depth in (D_ALL, D_BIG):
                src, d = chain_program([kind], depth, "append")
                add("chain through: %s (built by appending: oldest link is the head)" % LINKS[kind]["roles"], "depth %d" % d, src, d, cost,
                    (["debug"] if (kind, depth) == ("field", D_ALL) else []) + (["deep"] if (kind, depth) == ("vec", D_BIG) else []), gen=[[kind], "append", "local"])
    # the deep tuple chain as the KEY of a map (RKey at depth)
    for depth in (D_ALL, D_BIG):
        src, d = chain_program(["tuple"], depth, "prepend", "map key (a tuple chain is hashable)")
        add("chain through: tuple element, the head held only as a map key", "depth %d" % d, src, d, 1)
    # random mixtures of link kinds (period 2..5), one of them from the cheap kinds only (it also runs in the debug build)
    light = [k for k in LINKS if k != "fiber"]
    cheap = [k for k in LINKS if LINKS[k]["cost"] == 1]
    for j in range(5 if quick else 24):
        pool = cheap if j == 0 else light
        kinds = [rng.choice(pool) for _ in range(rng.randint(2, 5))]
        depth = D_ALL if j < 2 else rng.choice([D_ALL, D_BIG, D_BIG, 12000])
        anchor = rng.choice(["local", "module attribute", "closed upvalue"])
        src, d = chain_program(kinds, depth, "prepend", anchor)
        add("chain through a repeating mixture: %s" % " / ".join(kinds), "depth %d" % d, src, d, max(LINKS[k]["cost"] for k in kinds),
            ["debug"] if j == 0 else (["always"] if j == 1 else []), gen=[kinds, "prepend", anchor])
    return out


def special_scale_probes(rng, quick):
    out = []

    def add(role, shape, body, n, cost, what="depth", quick_extra=()):
        out.append(scale_probe(role, shape, PRELUDE + "fn body_() { %s } body_();" % body, {what: n, "cost": cost, "quick_extra": list(quick_extra)}))

    W = scale_window()
    for n in (1100, 3000):
        # superclass chain: `derives` walks it from the newest class down to the oldest
        add("chain through: class -> superclass", "depth %d" % n,
            "class A_ {} fn sub_(c) { #[derive(c), constructor(new)] class D_ {} return D_; } var h = A_; var i = 0; while i < %d { h = sub_(h); i += 1; } %s "
            "var o = h.new(); print(o.derives(A_)); print(o.derives(P)); print(h.new().derives(h));" % (n, W), n, 2, quick_extra=["always"] if n == 1100 else [])
        # open-upvalue list of one fiber (ObjUpvalue.next): `frames` active frames with `per` captured locals each, the capturing
        # closures dropped: the upvalue boxes are held by the fiber's open list only; re-capturing the lowest slot walks the whole list
        per = 100
        frames = n // per
        locs = " ".join("var a%d = [d, %d]; { fn c%d() { return a%d; } }" % (j, j, j, j) for j in range(per))
        again = " + ".join("(|| a%d[1])()" % j for j in (0, per // 2, per - 1))
        add("chain through: fiber -> open upvalue list (ObjUpvalue.next), capturing closures dropped", "depth %d" % (frames * per),
            "fn rec_(d) { %s var r = 0; if d > 1 { r = rec_(d - 1); } else { %s } return r + a0[0] + %s; } print(rec_(%d));" % (locs, W, again, frames),
            frames * per, 2, quick_extra=["always"] if n == 1100 else [])
    for n in ((300, 1100) if quick else (300, 1100, 2000)):
        # caller chain: fiber i calls fiber i+1; every fiber of the chain is reachable only through `caller` of the next one
        # (each fiber owns a 256 KB value stack: depth 1100 = 290 MB, run one at a time)
        add("chain through: fiber -> caller (every fiber is running a call of the next one)", "depth %d" % n,
            "fn level_(d) { var x = [d]; if d == 0 { %s return 0; } var r = Fiber.new(|| level_(d - 1)).call(); return r + x[0]; } print(level_(%d));" % (W, n), n, 3)
    # WIDTH / SIZE: one container with many members, a heap with more than 2^16 boxes, more than 2^16 roots (every distinct
    # string is interned and rooted), a value stack near its capacity
    # (the collection point of the wide probes lies inside a fiber created AFTER the many boxes: the running fiber is then a
    #  rooted box far down the allocation order, and its fresh locals are reachable through that late root only)
    W0 = W
    W = "print(Fiber.new(|| { var fresh = [[1], (2, [3])]; %s return fresh; }).call());" % W0
    for n in (5000, 70000):
        wc = 3 if n == 5000 else 4
        add("wide: one vec with %d fresh members (each a tuple holding a vec)" % n, "width %d" % n,
            "var v = []; var i = 0; while i < %d { v.push((i, [i])); i += 1; } %s var s = 0; i = 0; while i < v.len() { s += v[i][1][0]; i += 1; } print((v.len(), s));" % (n, W),
            n, wc, "width")
        add("wide: one map with %d entries, tuple keys and vec values" % n, "width %d" % n,
            "var m = {}; var i = 0; while i < %d { m.insert((i, \"k\"), [i]); i += 1; } %s var s = 0; i = 0; while i < %d { s += m.get((i, \"k\"))[0]; i += 1; } print((m.len(), s)); "
            "var ks = 0; for k in m.keys() { ks += k[0]; } print(ks);" % (n, W, n), n, wc, "width")
        add("wide: %d distinct interned strings (each one a rooted box) next to %d live vecs" % (n, n), "width %d" % n,
            'var v = []; var i = 0; while i < %d { v.push(["s${i}"]); i += 1; } %s var s = 0; i = 0; while i < v.len() { s += v[i][0].len(); i += 1; } print((v.len(), s));' % (n, W),
            n, wc, "width")
        if n == 5000:
            nf = 400
            add("wide: one instance with %d fields" % nf, "width %d" % nf,
                "var o = P.new(0); %s %s print(%s);" % (" ".join("o.f%d = [%d];" % (j, j) for j in range(nf)), W, " + ".join("o.f%d[0]" % j for j in range(0, nf, 7))),
                nf, 1, "width", quick_extra=["debug", "always"])
    W = W0
    # value stack near capacity: 60 frames with 250 live locals each (Stack::mark walks [0, len))
    per = 240
    locs = " ".join("var a%d = [d];" % j for j in range(per))
    tot = " + ".join("a%d[0]" % j for j in (0, 1, per // 2, per - 2, per - 1))
    add("wide: value stack of one fiber with %d live slots (58 frames x %d locals)" % (58 * per, per), "width %d" % (58 * per),
        "fn deep_(d) { %s var r = 0; if d > 1 { r = deep_(d - 1); } else { %s } return r + %s; } print(deep_(58));" % (locs, W, tot), 58 * per, 4, "width")
    return [p for p in out if p]


def scale_configs(p, quick):
    """which configurations a scale probe runs in.  The forced-once configurations are linear in the size of the heap (every probe
    runs in `forced`), `deep` is quadratic in the harness (one-box observations), `always` and `debug` collect at every allocation.
    cost class: 1 = one small box per link, 2 = two or three, 3 = expensive under collect-at-every-allocation, 4 = linear only.
    quick tier: deep for depth <= 1100 and cost <= 2, gc=always for depth <= 1100 and cost 1, plus the configurations a probe
    names itself (`quick_extra`: e.g. the debug build for three chains); thorough tier: by cost class"""
    s = p["scale"]
    n = s.get("depth", s.get("width"))
    c = s["cost"]
    wide = "width" in s
    small = n <= 1100
    cfgs = ["forced"]
    if quick:
        if small and c <= 2 and not wide:
            cfgs.append("deep")
        if small and c == 1 and not wide:
            cfgs.append("always")
    else:
        if (c <= 3 and n <= 3000) or (wide and n <= 5000):
            cfgs.append("deep")
        if small and c <= 3 and not wide:
            cfgs.append("always")
        if small and c <= 2 and not wide:
            cfgs.append("debug")
    for x in s.get("quick_extra", []):
        if x not in cfgs:
            cfgs.append(x)
    return cfgs


SCALE_TIMEOUT_MS = 90000
SCALE_CONFIGS = {
    "forced": ("release", "gc=never,force=1,stats=1", "release build, heap built without any collection, then ONE forced collection"),
    "deep": ("release", "gc=never,force=deep,stats=1", "release build, ONE forced collection checked against the fixed point of the one-box mark observations"),
    "always": ("release", "gc=always,stats=1", "release build gc=always"),
    "debug": ("debug", "stats=1,inv=1", "debug build (collects at every allocation)"),
}


def run_scale(ctx, plist, label):
    """scale probes: reference = release gc=never; each probe in the configurations scale_configs() gives it"""
    quick = ctx.quick()
    bins = {"release": ctx.harness("release"), "debug": ctx.harness("debug")}
    t0 = time.time()
    # the fiber-heavy cases (256 KB value stack per fiber) first and spread out, so that two of them rarely share a shard
    jobs = [(i, None) for i in range(len(plist))]
    for i, p in enumerate(plist):
        for c in (p.get("only_configs") or scale_configs(p, quick)):
            jobs.append((i, c))
    recs = {}
    for prof in ("release", "debug"):
        mine = [(i, c) for i, c in jobs if (SCALE_CONFIGS[c][0] if c else "release") == prof]
        lines = [line_of(plist[i], SCALE_CONFIGS[c][1] if c else "gc=never,stats=1") for i, c in mine]
        rs = yvlib.run_harness(bins[prof], lines, quarantine=True, case_timeout_ms=SCALE_TIMEOUT_MS, recycle=6)
        # a case that hit the watchdog is re-run alone before it is believed
        for k, r in enumerate(rs):
            if r.crashed == "timeout":
                rs[k] = yvlib.run_harness(bins[prof], [lines[k]], quarantine=True, case_timeout_ms=3 * SCALE_TIMEOUT_MS, shards=1)[0]
        for (i, c), r in zip(mine, rs):
            recs[(i, c)] = r
    log("[C01] %s: %d scale programs, %d runs in %.1fs" % (label, len(plist), len(jobs), time.time() - t0))
    cov = ctx.cov.setdefault("scale", {"programs": 0, "runs": 0, "by_configuration": {}, "max_depth": 0, "max_width": 0, "deep_spec_checked": 0,
                                        "deepest_single_mark_recursion_observed": 0, "largest_heap_collected": 0, "roles": []})
    nontriv = set()
    failed = 0
    for i, p in enumerate(plist):
        r0 = recs[(i, None)]
        ref = outcome(r0)
        cov["programs"] += 1
        cov["max_depth"] = max(cov["max_depth"], p["scale"].get("depth", 0))
        cov["max_width"] = max(cov["max_width"], p["scale"].get("width", 0))
        if p["role"] not in cov["roles"]:
            cov["roles"].append(p["role"])
        if r0.crashed or ref["res"] in ("panic", "err") or ref["uaf"]:
            ctx.corr_broken.append("scale probe [%s/%s]: the never-collect run is not clean (%s %s %s)" % (p["role"], p["shape"], ref["res"], ref["detail"][:120], ref["msgs"][:1]))
            continue
        runs = []
        for c in (p.get("only_configs") or scale_configs(p, quick)):
            r = recs[(i, c)]
            runs.append((SCALE_CONFIGS[c][2], r))
            cov["runs"] += 1
            cov["by_configuration"][c] = cov["by_configuration"].get(c, 0) + 1
            for g in r.tagged("G"):
                cov["largest_heap_collected"] = max(cov["largest_heap_collected"], int(g[1]))
            for d in r.tagged("D"):
                # D <boxes> <rooted> <|R|> <survivors> <lost> <extra> <largest one-box mark set> <type of the first lost box>
                nb, nroot, nr, nlive, lost, extra, widest = [int(x) for x in d[:7]]
                cov["deep_spec_checked"] += 1
                cov["deepest_single_mark_recursion_observed"] = max(cov["deepest_single_mark_recursion_observed"], widest)
                if lost > 0:
                    ctx.violation("scale [%s / %s]: ONE forced collection of a heap of %d boxes reclaimed %d boxes that the real `mark` reaches from a rooted box "
                                  "(first: %s); %d of %d reachable boxes survived" % (p["role"], p["shape"], nb, lost, type_short(d[7]) if d[7] != "-" else "?", nlive, nr),
                                  input=p["src"], modules=p["mods"], config=SCALE_CONFIGS[c][2], expected="all %d reachable boxes survive" % nr,
                                  actual="%d lost" % lost, role=p["role"], probe_tag="scale", scale=p["scale"], only_configs=[c])
                    failed += 1
                elif extra > 0:
                    ctx.corr_broken.append("scale [%s / %s]: the forced collection kept %d boxes outside the mark-reachable set (Collect.v: collect_exact keeps exactly the reachable ones)" % (
                        p["role"], p["shape"], extra))
        f, nt = judge(ctx, p, ref, runs, None)
        failed += f
        if nt and not f:
            nontriv.add((p["tag"], p["role"], p["shape"]))
    if failed and label != "replay":
        shrink_scale(ctx, plist, bins["release"])
    return nontriv, failed


def shrink_scale(ctx, plist, rel):
    """the first failing chain probe is re-run with the depth bisected (one forced collection, release build: linear cost,
    at most 14 re-runs): the smallest failing depth names the limit the collector has acquired"""
    bad = {(v.get("role"), v.get("input")) for v in ctx.violations if v.get("probe_tag") == "scale"}
    cand = [p for p in plist if (p["role"], p["src"]) in bad and p["scale"].get("gen") and p["scale"].get("depth")]
    if not cand:
        return
    p = min(cand, key=lambda q: (len(q["scale"]["gen"][0]), q["scale"]["depth"]))
    kinds, order, anchor = p["scale"]["gen"]

    def fails(d):
        src, d2 = chain_program(kinds, d, order, anchor)
        q = scale_probe(p["role"], "depth %d" % d2, src, {"depth": d2, "cost": p["scale"]["cost"]})
        rs = yvlib.run_harness(rel, [line_of(q, "gc=never,stats=1"), line_of(q, "gc=never,force=1,stats=1")], quarantine=True,
                               case_timeout_ms=SCALE_TIMEOUT_MS, shards=1)
        a, b = outcome(rs[0]), outcome(rs[1])
        ok = not rs[1].crashed and b["uaf"] == 0 and (b["res"], b["out"], b["msgs"]) == (a["res"], a["out"], a["msgs"])
        return (not ok), q, a, b
    lo, hi = len(kinds), p["scale"]["depth"]       # lo passes (assumed), hi fails
    best = None
    for _ in range(14):
        if hi - lo <= max(1, len(kinds)):
            break
        mid = (lo + hi) // 2
        f, q, a, b = fails(mid)
        if f:
            hi, best = mid, (q, a, b)
        else:
            lo = mid
    if best:
        q, a, b = best
        ctx.violations.insert(0, {"what": "scale [%s]: smallest failing depth found by bisection is %d links (depth %d passes): ONE forced collection of a heap built "
                                          "without collections, then the chain is walked" % (q["role"], q["scale"]["depth"], lo),
                                  "input": q["src"], "modules": {}, "config": SCALE_CONFIGS["forced"][2], "expected": {"out": a["out"], "res": a["res"]},
                                  "actual": {"out": b["out"], "res": b["res"], "detail": b["detail"][:300], "uaf": b["uaf"]}, "known_class": None,
                                  "role": q["role"], "probe_tag": "scale", "scale": q["scale"], "only_configs": ["forced"]})


# ------------------------------------------------------------------------------------------
# running

def line_of(p, opts):
    if p.get("seq"):
        mode, name, src2 = p["seq"]
        l = "c01seq %s %s %s %s %s" % (opts, mode, hx(name), hx(p["src"]), hx(src2))
    else:
        # The probe program runs as the top-level code of module "probe_", imported by a function of "main" that keeps no
        # reference to it.  Reason: the closures of core.yl belong to module "main", every module's built-in globals reach
        # them, and (since 342604d) a closure reaches its module: run in "main", every object would lie on one cycle with
        # main's globals and the holder test (mark closures, not edges) could not tell who holds whom.
        l = "c01run %s %s %s=%s" % (opts, hx(WRAP), hx("probe_"), hx(p["src"]))
    for k, v in p["mods"].items():
        l += " %s=%s" % (hx(k), hx(v))
    l += " %s=%s" % (hx("c01lib"), hx(LIB))
    return l


ADDR = re.compile(r"0x[0-9a-f]{6,}")


def outcome(rec):
    """what the property compares: printed lines, kind of result, error messages (addresses masked)"""
    k, v = rec.result
    if k == "ok":
        v = ""
    return {"out": [ADDR.sub("0xADDR", l) for l in rec.output], "res": k, "detail": v,
            "msgs": [ADDR.sub("0xADDR", l) for l in rec.messages] if k == "err" else [], "uaf": rec.uaf}


def window_collections(rec):
    g = rec.tagged("G")
    if len(g) >= 2:
        try:
            return int(g[-1][0]) - int(g[0][0])
        except ValueError:
            return 0
    return 0


def type_short(hexname):
    n = yvlib.unhx(hexname).decode()
    return n.replace("core::cell::RefCell<", "").replace("yarel::object::", "").replace("yarel::chunk::", "")


def premise(p, rec):
    """(verified?, reason) for a probe that tags its probed object: at every @@PREMISE point of the run the tagged
    box has num_roots = 0 and every reachable direct holder is of an expected type"""
    if not p.get("holders") and not p.get("pinned"):
        return None, p.get("why_no_premise") or "no tagged object"
    ps = [x for x in rec.tagged("P") if x and (x[0] == "0" or p.get("all_tags"))]
    if not ps:
        return False, "no premise record (the program did not reach its @@PREMISE point)"
    if p.get("pinned"):
        # probe of an exemption of the pinned table: the premise is the exemption's own claim, a permanent root
        for x in ps:
            if len(x) < 2 or x[1] == "gone" or int(x[1]) == 0:
                return False, "target claimed to be pinned has no root at the collection point"
        return True, ""
    # one level up (H records): each direct holder of a listed type must itself be unrooted and held only by the listed types
    for h in [x for x in rec.tagged("H") if x and x[0] == "0"]:
        ht = type_short(h[1])
        for want, above in (p.get("holder_chain") or {}).items():
            if ht.startswith(want):
                if int(h[2]) > 0:
                    return False, "holder %s of the probed object is rooted (num_roots %s)" % (ht, h[2])
                odd = [type_short(q) for q in h[3:] if not any(type_short(q).startswith(e) for e in above)]
                if odd:
                    return False, "holder %s of the probed object is also held by %s (expected only %s)" % (ht, sorted(set(odd)), above)
    want = p.get("need_unrooted_holder")
    if want and not any(type_short(h[1]).startswith(want) and int(h[2]) == 0 for h in rec.tagged("H") if h and h[0] == "0"):
        return False, "no holder of type %s without a root (the holder has not left the registry)" % want
    for x in ps:
        if len(x) >= 2 and x[1] == "gone":
            # the probed object is not in the heap any more at the collection point: nothing owns it at all
            continue
        roots = int(x[1])
        holders = [type_short(h) for h in x[3:]]
        if roots > 0:
            return False, "probed %s is rooted (num_roots %d): another owner besides the probed role" % (type_short(x[2]), roots)
        odd = [h for h in holders if not any(h.startswith(e) for e in p["holders"])]
        if odd:
            return False, "probed %s is also held by %s (expected only %s)" % (type_short(x[2]), sorted(set(odd)), p["holders"])
        if len(holders) > p.get("max_holders", 1):
            return False, "probed %s has %d direct holders %s (expected at most %d)" % (type_short(x[2]), len(holders), holders, p.get("max_holders", 1))
    return True, ""


def judge(ctx, p, ref, runs, fixed_state):
    """ref: outcome under gc=never; runs: [(config name, Record)].  Returns (failed, nontrivial)."""
    bad = None
    nontriv = False
    for cfg, rec in runs:
        o = outcome(rec)
        pv, _ = premise(p, rec)
        if window_collections(rec) > 0 and o["uaf"] == 0 and o["res"] == ref["res"] and o["out"] == ref["out"] and pv is not False:
            nontriv = True
        why = None
        if rec.crashed == "timeout":
            why = "collector/program did not finish (watchdog %d ms, re-run alone with %d ms)" % (CASE_TIMEOUT_MS, RETRY_TIMEOUT_MS)
        elif rec.crashed:
            why = "process crashed (%s)" % rec.crashed
        elif o["uaf"] > 0 or (o["res"] == "panic" and "VERIF-UAF" in o["detail"]):
            why = "use of a reclaimed object (U %d)" % max(o["uaf"], 1)
        elif o["res"] == "panic":
            why = "panic: %s" % o["detail"][:200]
        elif (o["res"], o["out"], o["msgs"]) != (ref["res"], ref["out"], ref["msgs"]):
            why = "output differs from the never-collect run"
        else:
            inv = rec.tagged("I")
            if inv and len(inv[-1]) >= 2 and int(inv[-1][1]) > 0:
                x = inv[-1]
                why = ("invariant broken at %s of %s instruction boundaries: an open upvalue of the running fiber points at or above the stack top "
                       "(first: pc %s opcode %s slot %s stack length %s): the captured value is no longer traced" % (
                           x[1], x[0], x[2] if len(x) > 2 else "?", x[3] if len(x) > 3 else "?", x[4] if len(x) > 4 else "?", x[5] if len(x) > 5 else "?"))
        if why and not bad:
            bad = (cfg, why, o)
    if not bad:
        return False, nontriv
    cfg, why, o = bad
    known = p["known"]
    ctx.violation("%s [%s / %s] under %s: %s" % (p["tag"], p["role"], p["shape"], cfg, why),
                  input=p["src"], modules=p["mods"], config=cfg,
                  expected={"out": ref["out"], "res": ref["res"]},
                  actual={"out": o["out"], "res": o["res"], "detail": o["detail"][:300], "uaf": o["uaf"]},
                  known_class=known, role=p["role"], probe_tag=p["tag"], seq=p.get("seq"), scale=p.get("scale"))
    return True, nontriv


RETRY_TIMEOUT_MS = 30000


def retry_timeouts(binary, lines, recs, budget=12):
    """a case that hit the 5 s watchdog is re-run alone with a long limit before it is believed: on a shared,
    oversubscribed machine a healthy debug-build case can exceed 5 s of wall time; a collector that really
    loops still does not finish.  At most `budget` cases are re-run."""
    idx = [i for i, r in enumerate(recs) if r.crashed == "timeout"][:budget]
    for i in idx:
        recs[i] = yvlib.run_harness(binary, [lines[i]], quarantine=True, case_timeout_ms=RETRY_TIMEOUT_MS, shards=1)[0]
    return len(idx)


def run_probes(ctx, plist, label):
    """every probe: release gc=never (reference), debug (collects at every allocation), release gc=always;
    all under the quarantine"""
    dbg = ctx.harness("debug")
    rel = ctx.harness("release")
    t0 = time.time()
    l_ref = [line_of(p, "gc=never,stats=1") for p in plist]
    # debug run also evaluates, at every instruction boundary (hook H4), "no open upvalue at or above the stack top"
    l_dbg = [line_of(p, "stats=1,inv=1") for p in plist]
    l_rel = [line_of(p, "gc=always,stats=1") for p in plist]
    refs = yvlib.run_harness(rel, l_ref, quarantine=True, case_timeout_ms=CASE_TIMEOUT_MS)
    r_dbg = yvlib.run_harness(dbg, l_dbg, quarantine=True, case_timeout_ms=CASE_TIMEOUT_MS, recycle=40)
    r_rel = yvlib.run_harness(rel, l_rel, quarantine=True, case_timeout_ms=CASE_TIMEOUT_MS, recycle=40)
    nretry = retry_timeouts(rel, l_ref, refs) + retry_timeouts(dbg, l_dbg, r_dbg) + retry_timeouts(rel, l_rel, r_rel)
    if nretry:
        ctx.notes.append("%s: %d cases hit the %d ms watchdog and were re-run alone with %d ms" % (label, nretry, CASE_TIMEOUT_MS, RETRY_TIMEOUT_MS))
    log("[C01] %s: %d programs x 3 configurations in %.1fs" % (label, len(plist), time.time() - t0))
    nontriv = set()
    failed = 0
    bad_ref = 0
    prem = ctx.cov.setdefault("premise", {"claimed": 0, "verified": 0, "unverified": [], "not_claimed": {}})
    invc = ctx.cov.setdefault("stack_top_invariant", {"programs": 0, "instruction_boundaries": 0, "violating_programs": 0})
    for r1 in r_dbg:
        i_ = r1.tagged("I")
        if i_:
            invc["programs"] += 1
            invc["instruction_boundaries"] += int(i_[-1][0])
            invc["violating_programs"] += 1 if int(i_[-1][1]) > 0 else 0
    for p, r0, r1, r2 in zip(plist, refs, r_dbg, r_rel):
        pv1, why1 = premise(p, r1)
        pv2, why2 = premise(p, r2)
        if pv1 is None:
            w = why1 if p["tag"] != "temp" else "Rust-side temporaries of a native"
            prem["not_claimed"][w] = prem["not_claimed"].get(w, 0) + 1
        else:
            prem["claimed"] += 1
            if pv1 and pv2:
                prem["verified"] += 1
            else:
                prem["unverified"].append("%s [%s / %s]: %s" % (p["tag"], p["role"], p["shape"], why1 or why2))
        ref = outcome(r0)
        if r0.crashed or ref["res"] == "panic" or ref["uaf"]:
            # the comparison run itself must be clean: otherwise the probe program is wrong, not the collector
            bad_ref += 1
            ctx.corr_broken.append("probe %s [%s/%s]: the never-collect run is not clean (%s %s)" % (p["tag"], p["role"], p["shape"], ref["res"], ref["detail"][:120]))
            continue
        f, nt = judge(ctx, p, ref, [("debug build (collects at every allocation)", r1), ("release build gc=always", r2)], None)
        failed += f
        if nt:
            nontriv.add((p["tag"], p["role"], p["shape"]))
    return nontriv, failed, bad_ref


# ------------------------------------------------------------------------------------------
# correspondence impl == M (collector algorithm) on heap snapshots

SNAP_PROGRAMS = [
    # cyclic structures, garbage cycles
    'var a = [1]; var b = [a]; a.push(b); var g1 = [0]; var g2 = [g1]; g1.push(g2); g1 = nil; g2 = nil; print("@@SNAP"); print(a.len());',
    # closures open and closed, class hierarchy, instances, bound methods (no cycle through a bound method)
    PRELUDE + 'fn mk() { var x = [1, 2]; fn g() { return x; } return g; } var c = mk(); class A { fn m(self) { return 1; } } #[derive(A), constructor(new)] class B { #[static] fn s() { return 2; } } '
    'var i = B.new(); var bm = i.m; var bn = [1, 2].len; fn outer() { var y = (1, 2); fn h() { return y; } print("@@SNAP"); return h(); } print(outer()); var junk = P.new([1]); junk = nil; print("@@SNAP"); print(bm() + bn());',
    # iterators of all four kinds, some dropped
    'var i1 = [1, 2].iter(); var i2 = (1, 2).iter(); var i3 = ("a" + "b").iter(); var i4 = (0..3).iter(); var d = [3].iter(); d = nil; var m = [1].iter().map(|e| e); print("@@SNAP"); print(i1.next()); print(i4.next());',
    # fibers: suspended, finished, dropped-suspended, calling (snapshot taken inside a nested fiber)
    'var s = Fiber.new(|| { var x = [1]; Fiber.yield(1); return x; }); s.call(); var fin = Fiber.new(|| { return [2]; }); fin.call(); '
    'fn drop() { var f = Fiber.new(|| { var z = [3]; Fiber.yield(0); }); f.call(); } drop(); '
    'var outer = Fiber.new(|| { var loc = (4, 5); var inner = Fiber.new(|| { print("@@SNAP"); return 1; }); inner.call(); return loc; }); print(outer.call()); print("@@SNAP"); print(s.call());',
    # maps with heap keys and values, modules
    'import "m1"; var m = {"a": [1], (1, 2): [2]}; var t = (7, 8); var m2 = {}; m2.insert(t, m); t = nil; var dead = {"x": {"y": [1]}}; dead = nil; print("@@SNAP"); print(m1.data); print(m.len());',
    # a bound method reachable from its receiver (self-cycle; terminates on every tree)
    'var v = []; v.push(v.len); var w = [v, v.pop]; print("@@SNAP"); print(w.len());',
    # finally / return value / exceptions in flight
    'fn f() { try { return [1, 2, 3]; } finally { print("@@SNAP"); } } print(f()); fn g() { try { throw [4]; } finally { print("@@SNAP"); } } try { g(); } catch e { print(e); }',
    # class under construction
    'fn mk() { var x = [1]; #[constructor(new)] class C { fn a(self) { return x; } fn b(self) { print("@@SNAP"); return x; } } return C; } print(mk().new().b());',
]
SNAP_MODS = {"m1": "var data = [1, 2, 3]; fn f() { return data; }"}
SNAP_PROGRAMS += [
    # bound-method 4-cycle (the collector looped on it before repair ee7595b)
    'var v = []; var x = v.push; var w = []; var y = w.push; v.push(y); w.push(x); print("@@SNAP"); print(v.len());',
]


def kind_no(type_name):
    n = type_name.replace("core::cell::RefCell<", "").replace("yarel::object::", "").replace("yarel::chunk::", "")
    n = n.rstrip(">")
    if n.startswith("ObjBoundMethod<"):
        n += ">"
    return KIND_NO.get(n)


def parse_snaps(rec):
    out = []
    cur = None
    for l in rec.lines:
        f = l.split(" ")
        if f[0] == "SNAP":
            cur = {"boxes": [], "live": None, "n": int(f[2])}
            out.append(cur)
        elif f[0] == "B" and cur is not None:
            cur["boxes"].append(f[1:])
        elif f[0] == "L" and cur is not None:
            cur["live"] = [x for x in f[1:] if x]
            cur = None
    return out


def parse_box(b):
    """B record fields -> (id, hexkind, roots, marks, blackens_black, blackens_grey)"""
    i = 3
    sets = []
    for _ in range(3):
        n = int(b[i])
        sets.append([int(x) for x in b[i + 1:i + 1 + n]])
        i += 1 + n
    return int(b[0]), b[1], b[2], sets[0], sets[1], sets[2]


def reduce_closures(boxes):
    """Since 342604d a closure reaches its module and the heap is close to one strongly connected component: the observed
    mark closures are quadratic in size (80 KB of wire per snapshot).  When the observation is the plain case - for every
    box blacken reached exactly what mark reached and re-greyed nothing - only REACHABILITY matters to the model
    (collect_exact), and an edge set with the same transitive closure is sent instead: boxes with equal closure-plus-self
    (= mutually reachable) are linked in a ring, and one member points to one member of each maximal group below.
    Returns None when the observation is not of the plain form (then the full closures are sent)."""
    if any(sorted(m) != sorted(bb) or bg for _, _, _, m, bb, bg in boxes):
        return None
    clo = {i: frozenset(m) for i, _, _, m, _, _ in boxes}
    for i, c in clo.items():
        for t in c:
            if t not in clo:
                return None
    groups = {}
    for i in clo:
        groups.setdefault(clo[i] | {i}, []).append(i)
    gid = {}
    for key, mem in groups.items():
        for i in mem:
            gid[i] = key
    edges = {i: [] for i in clo}
    for key, mem in groups.items():
        if len(mem) > 1:
            for a, b in zip(mem, mem[1:] + mem[:1]):
                edges[a].append(b)
        below = key - set(mem)
        # groups strictly below, keep the maximal ones: not contained in the closure of another group below
        gb = {gid[t] for t in below}
        maximal = [g for g in gb if not any(h != g and g <= h for h in gb)]
        for g in maximal:
            edges[mem[0]].append(groups[g][0])
    # self-check: the reduced edge set generates exactly the observed closures; otherwise send the full closures
    for i in clo:
        seen = set()
        todo = list(edges[i])
        while todo:
            t = todo.pop()
            if t not in seen:
                seen.add(t)
                todo.extend(edges[t])
        seen.discard(i)
        if seen != set(clo[i]) - {i}:
            return None
    return edges


def snap_wire(s, unknown_kinds):
    boxes = [parse_box(b) for b in s["boxes"]]
    red = reduce_closures(boxes)
    s["reduced"] = red is not None
    gs = []
    for (i, hk, roots, m, bb, bg), b in zip(boxes, s["boxes"]):
        k = kind_no(yvlib.unhx(hk).decode())
        if k is None:
            unknown_kinds.add(yvlib.unhx(hk).decode())
            k = 19
        if red is None:
            gs.append(" ".join([b[0], str(k)] + b[2:]))
        else:
            e = [str(t) for t in red[i]]
            gs.append(" ".join([str(i), str(k), roots, str(len(e))] + e + [str(len(e))] + e + ["0"]))
    return ";".join(gs)


def py_reference(s):
    """independent re-computation (Python) of one collection over the observed closures; also tells whether
    the heap is non-trivial: something is freed, and something survives only through a non-root"""
    boxes = s["boxes"]
    roots = set()
    marks = {}
    for b in boxes:
        i = int(b[0])
        nm = int(b[3])
        marks[i] = [int(x) for x in b[4:4 + nm]]
        if int(b[2]) > 0:
            roots.add(i)
    live = set(roots)
    for r in roots:
        live.update(marks[r])
    return roots, live


def check_snapshots(ctx, programs, tag):
    rel = ctx.harness("release")
    dbg = ctx.harness("debug")
    lines = [("c01run gc=never,snap_end=1 %s %s=%s %s=%s" % (hx(src), hx("m1"), hx(SNAP_MODS["m1"]), hx("c01lib"), hx(LIB))) for src in programs]
    recs = yvlib.run_harness(rel, lines, quarantine=True, case_timeout_ms=CASE_TIMEOUT_MS)
    retry_timeouts(rel, lines, recs, budget=6)
    dlines = [l.replace("gc=never,", "") for l in lines]
    drecs = yvlib.run_harness(dbg, dlines, quarantine=True, case_timeout_ms=CASE_TIMEOUT_MS)
    retry_timeouts(dbg, dlines, drecs, budget=6)
    recs += drecs
    allp = list(programs) + list(programs)
    snaps = []
    for src, rec in zip(allp, recs):
        ss = parse_snaps(rec)
        for s in ss:
            s["src"] = src
        if rec.crashed or rec.result[0] == "panic":
            # the real collector hung / overflowed / hit reclaimed memory on a forced collection
            last = ss[-1] if ss and ss[-1]["live"] is None else None
            ctx.violation("forced collection / snapshot program failed: %s" % str(rec.crashed or rec.result[1][:200]), input=src, modules=SNAP_MODS,
                          expected="runs", actual=str(rec.crashed or rec.result), role="collector", probe_tag="snapshot")
            ss = [s for s in ss if s is not last]
        snaps += [s for s in ss if s["live"] is not None and len(s["boxes"]) == s["n"]]
    unknown_kinds = set()
    terms = ['run_snapshot_w "%s"' % snap_wire(s, unknown_kinds) for s in snaps]
    # small shards: one slow coqc process (shared machine) must not hit coq_eval's per-shard timeout
    vals = yvlib.coq_eval(["YV:CollectRun"], terms, shard_size=max(1, min(12, (len(terms) + yvlib.NPROC - 1) // yvlib.NPROC)),
                          tag="C01" + tag, preamble="Open Scope string_scope.")
    if unknown_kinds:
        ctx.corr_broken.append("heap holds boxes of a type the model has no kind for: %s" % ", ".join(sorted(unknown_kinds)))
    nontriv = 0
    for s, v in zip(snaps, vals):
        impl = "[" + ",".join(s["live"]) + "]"
        if v is None:
            ctx.corr_broken.append("model evaluation failed on a snapshot (coq_eval)")
            continue
        roots, live = py_reference(s)
        if v != impl:
            ctx.corr_broken.append("collector algorithm: impl retains %s..., Collect.v retains %s... on a snapshot of %d boxes (program: %s)" % (
                impl[:120], v[:120], len(s["boxes"]), s["src"][:200]))
        # Spec of one collection, independent of Collect.v: exactly the mark-closure of the rooted boxes survives.
        # A survivor outside it is harmless for safety (C16's business); a missing one is a violation of C01.
        got = set(int(x) for x in s["live"] if x != "?")
        missing = sorted(live - got)
        if missing:
            ctx.violation("forced collection reclaimed %d boxes that the real `mark` reaches from a rooted box" % len(missing),
                          input=s["src"], modules=SNAP_MODS, expected="survivors include ids %s" % missing[:20], actual=impl[:400],
                          role="collector", probe_tag="snapshot")
        if len(got) < len(s["boxes"]) and len(live - roots) > 0:
            nontriv += 1
    return len(snaps), nontriv


def random_snapshot_programs(rng, n):
    out = []
    for _ in range(n):
        p = random_program(rng)
        src = p["src"].replace('print("@@C");', 'print("@@SNAP");', 1)
        out.append((src, p["regrey"]))
    return out


# ------------------------------------------------------------------------------------------

def manifest():
    try:
        with open(os.path.join(yvlib.COQ, "gen", "manifest.json")) as fh:
            return json.load(fh).get("gc_tables", {})
    except Exception:
        return {}


KINDS = ["KString", "KStringIter", "KUpvalue", "KFunction", "KNative", "KClosure", "KClass", "KInstance", "KBoundMethod",
         "KBoundNative", "KVec", "KVecIter", "KTuple", "KTupleIter", "KRange", "KRangeIter", "KHashMap", "KModule", "KFiber", "KChunk"]
ROLES = ["RElem", "RKey", "RValue", "RClass", "RSuperclass", "RMetaclass", "RMethod", "RMethodName", "RName", "RField",
         "RFieldName", "RReceiver", "RBoundFn", "RUpvalue", "RClosedValue", "ROpenSlot", "RNext", "RFunction", "RChunk",
         "RConstant", "RConstKey", "RModule", "RModulePath", "RAttr", "RAttrName", "RIterable", "RStack", "RFrameClosure",
         "RCaller", "RReturnValue", "ROpenUpvalues", "RPath"]


def table_facts():
    """decided by coqc on the regenerated tables (gen/GcTables.vo is built even when props/C01.v no longer is):
    uncovered pairs (held, not marked, not pinned), pairs traced by the reference but no longer by `mark`,
    pairs where `blacken` re-greys"""
    pl = "(fun l => show_list show_N (flat_map (fun p => [N_of_kind (fst p); N_of_role (snd p)]) l))"
    terms = ["%s (uncovered holds_gen marks_gen pinned_audit)" % pl,
             "%s (table_pairs (fun k r => marks_ref k r && negb (marks_gen k r)))" % pl,
             "%s (table_pairs blackens_mark_gen)" % pl,
             "%s (table_pairs (fun k r => (blackens_black_gen k r || blackens_mark_gen k r) && negb (marks_gen k r)))" % pl,
             # exemptions that carry weight: held, NOT traced, accepted only because of the pinned table
             "%s (table_pairs (fun k r => role_mem r (holds_gen k) && negb (marks_gen k r) && pinned_audit k r))" % pl]
    try:
        vals = yvlib.coq_eval(["YV:Show", "YV:Heap", "YV:HeapTablesRef", "YV:CollectExt", "YV:PinnedC01", "YVGen:GcTables"], terms, tag="C01tables",
                              preamble="Open Scope string_scope.\nOpen Scope bool_scope.")
    except Exception:
        vals = [None] * 5

    def dec(v):
        if v is None:
            return None
        ns = [int(x) for x in re.findall(r"\d+", v)]
        return [(KINDS[ns[i]], ROLES[ns[i + 1]]) for i in range(0, len(ns) - 1, 2)]
    return {"uncovered": dec(vals[0]), "dropped_from_mark": dec(vals[1]), "regrey": dec(vals[2]), "blacken_only": dec(vals[3]),
            "exempt_untraced_pinned": dec(vals[4])}


# theories/CollectShape.v collector_shape_ref, in the translator's manifest form (mark/blacken: skip, set, forward, guarded)
COLLECTOR_SHAPE_REF = {"unmark": "White", "mark": ["Grey", "Grey", True, False], "blacken": ["Black", "Black", True, False],
                       "roots_unmark_all": True, "root_test_positive": True, "roots_call_mark": True,
                       "trace_filter": "Grey", "trace_calls_blacken": True, "trace_until_no_grey": True,
                       "sweep_retain": "Black", "sweep_counts": "White", "phases": ["mark_roots", "trace_references", "sweep"]}


def tree_state(man):
    """which of the pending repairs the translator sees in the CURRENT sources"""
    marks = man.get("marks", {})
    return {
        "receiver_blacken": not man.get("blackens_mark"),
        "map_keys_traced": "RKey" in marks.get("KHashMap", []),
        "superclass_traced": "RSuperclass" in marks.get("KClass", []),
        "open_slot_traced": "ROpenSlot" in marks.get("KUpvalue", []),
    }


def variant_active(txt, name):
    return ("(* ---- variant %s (begin; active) ---- *)" % name) in txt


def set_variant(txt, name, active):
    """a variant of the SWITCH BLOCK is either delimited by two comment lines (active) or lies inside one comment"""
    on_b, on_e = "(* ---- variant %s (begin; active) ---- *)" % name, "(* ---- variant %s (end) ---- *)" % name
    off_b, off_e = "(* ---- variant %s (begin; inactive)" % name, "---- variant %s (end) *)" % name
    if active:
        return txt.replace(off_b, on_b).replace(off_e, on_e)
    return txt.replace(on_b, off_b).replace(on_e, off_e)


def switch_state():
    """what props/C01.v's SWITCH BLOCK currently claims"""
    with open(os.path.join(yvlib.COQ, "props", "C01.v")) as fh:
        txt = fh.read()
    m = re.search(r"Definition c01_open_pairs[^:]*:[^=]*:=\s*\[(.*?)\]\.", txt, re.S)
    pairs = re.findall(r"\((K\w+),\s*(R\w+)\)", m.group(1)) if m else []
    return {"open_pairs": pairs, "variant_repaired": variant_active(txt, "REPAIRED"),
            "variant_all_covered": variant_active(txt, "ALL-COVERED")}


def expected_open_pairs(st):
    return ([] if st["open_slot_traced"] else [("KUpvalue", "ROpenSlot")]) + \
           ([] if st["superclass_traced"] else [("KClass", "RSuperclass")]) + \
           ([] if st["map_keys_traced"] else [("KHashMap", "RKey")])


def replay(ctx):
    r = ctx.replay_only
    p = {"tag": r.get("probe_tag", "replay"), "role": r.get("role", "?"), "shape": "replay", "src": r["input"],
         "mods": r.get("modules") or {}, "known": r.get("known_class"), "regrey": False, "holders": None,
         "seq": tuple(r["seq"]) if r.get("seq") else None}
    if r.get("probe_tag") == "snapshot":
        check_snapshots(ctx, [r["input"]], "replay")
    elif r.get("scale"):
        p.update({"tag": "scale", "scale": r["scale"], "only_configs": r.get("only_configs")})
        run_scale(ctx, [p], "replay")
    else:
        run_probes(ctx, [p], "replay")
    ctx.cov.update({"evaluations": 3, "distinct_nontrivial": 0, "rule": "replay of one recorded failing program", "samples": [r["input"][-400:]]})


def run(ctx):
    if ctx.replay_only:
        return replay(ctx)
    quick = ctx.quick()
    rng = ctx.rng
    man = manifest()
    st = tree_state(man)
    sw = switch_state()
    ctx.notes.append("sources as read by the translator: %s; props/C01.v switch block: open pairs %s, variants %s / %s" % (
        st, sw["open_pairs"], "REPAIRED" if sw["variant_repaired"] else "UNREPAIRED",
        "ALL-COVERED" if sw["variant_all_covered"] else "SOME-OPEN"))
    if man.get("unknown"):
        ctx.broken.append("translator (C01_translator_complete): " + "; ".join(man["unknown"][:6]))
    want_pairs = expected_open_pairs(st)
    if not man.get("unknown") and (sorted(want_pairs) != sorted(sw["open_pairs"]) or st["receiver_blacken"] != sw["variant_repaired"]):
        ctx.notes.append("a repair has landed (or was reverted): edit the SWITCH BLOCK of coq/props/C01.v as described in notes/C01.md "
                         "(expected open pairs %s, regrey variant %s)" % (want_pairs, "REPAIRED" if st["receiver_blacken"] else "UNREPAIRED"))

    cs = man.get("collector_shape")
    if cs is not None:
        diff = {k: v for k, v in cs.items() if COLLECTOR_SHAPE_REF.get(k) != v}
        ctx.cov["collector_shape"] = {"as_read_from_memory_rs": cs, "differs_from_model": diff}
        if diff:
            ctx.broken.append("collector algorithm as read from memory.rs (GcBox::unmark/mark/blacken, Heap::collect/mark_roots/trace_references/sweep) is not the one "
                              "Collect.v models (C01_collector_shape): %s" % diff)

    facts = table_facts()
    ctx.cov["table_facts"] = facts
    if facts["uncovered"] is not None:
        extra = [p for p in facts["uncovered"] if p not in [tuple(x) for x in sw["open_pairs"]]]
        if extra or facts["dropped_from_mark"]:
            ctx.broken.append("tables regenerated from the sources: held but neither traced by `mark` nor pinned: %s; traced by the "
                              "reference transcription but no longer by `mark`: %s" % (extra, facts["dropped_from_mark"]))

    # (b) collector algorithm on snapshots
    progs = list(SNAP_PROGRAMS)
    rs = random_snapshot_programs(rng, 16 if quick else 80)
    progs += [s for s, rg in rs]
    nsnap, nsnap_nontriv = check_snapshots(ctx, progs, "snap")

    # (c) role probes, pairs, random programs
    plist = probes()
    plist += probe_pairs(rng, 16 if quick else 64)
    plist += [random_program(rng) for _ in range(200 if quick else 3000)]
    nontriv, failed, bad_ref = run_probes(ctx, plist, "probes")
    # (d) scale: depth / size of the object graph (round 7)
    slist = scale_probes(rng, quick) + special_scale_probes(rng, quick)
    nt2, f2 = run_scale(ctx, slist, "scale")
    finish(ctx, plist + slist, nontriv | nt2, failed + f2, nsnap, nsnap_nontriv)


def finish(ctx, plist, nontriv, failed, nsnap, nsnap_nontriv):
    # keep the report short: at most one witness per known class and five others
    seen = {}
    others = []
    for v in ctx.violations:
        k = v.get("known_class")
        if k:
            seen.setdefault(k, v)
        else:
            others.append(v)
    others.sort(key=lambda v: (v.get("probe_tag") in ("random", "pair", "snapshot"), len(v.get("input", ""))))
    ctx.violations[:] = list(seen.values()) + others[:5]
    roles = sorted({(p["tag"], p["role"]) for p in plist})
    sites = manifest().get("alloc_sites", {})
    runtime = sorted(k for k, v in sites.items() if v == "runtime")
    probed = set()
    for p in plist:
        probed.update(p.get("sites") or [])
    unc = [k for k in runtime if k not in probed]
    if unc:
        ctx.notes.append("allocation sites without a mid-operation probe (add one to MID_OPS): %s" % ", ".join(unc))
    ctx.cov.update({"alloc_sites_runtime": len(runtime), "alloc_sites_probed": len(runtime) - len(unc), "alloc_sites_unprobed": unc,
                    "alloc_sites_other": {c: sorted(k for k, v in sites.items() if v == c) for c in ("host-api", "hook", "vm-init", "constructor")}})
    prem = ctx.cov.get("premise", {})
    if prem.get("unverified"):
        ctx.notes.append("%d probes could not verify their premise (object reachable ONLY through the probed role) and are not counted as "
                         "non-trivial: %s" % (len(prem["unverified"]), "; ".join(prem["unverified"][:6])))
    ctx.cov.update({
        "evaluations": 3 * len([p for p in plist if p["tag"] != "scale"]) + ctx.cov.get("scale", {}).get("runs", 0) + nsnap,
        "distinct_nontrivial": len(nontriv) + nsnap_nontriv,
        "rule": "a (role, shape) probe counts when, in a stress configuration, at least one collection ran between the two marks "
                "that delimit the stretch in which the probed object is reachable only through the probed role (collections counter of hook H2), "
                "no use-after-reclaim event fired, the output (which prints the object afterwards) equals the never-collect run, and - for probes that tag their "
                "probed object (premise_claimed) - the harness verified on a heap snapshot at the collection point that the object has num_roots = 0 and no reachable "
                "direct holder other than the probed one (premise_verified); "
                "a heap snapshot counts when the forced collection freed something and retained at least one non-root box; "
                "a scale probe (chain of 300 .. 70000 links through one traced role or a mixture, or a wide container / heap) counts when in every one of its "
                "stress configurations a collection ran while the whole chain was alive, no use-after-reclaim event fired, the walk of the chain afterwards printed the "
                "same (count, sum) as the never-collect run and, in the `deep` configuration, the forced collection lost none of the boxes in the fixed point of the "
                "one-box mark observations",
        "samples": [plist[0]["src"][-300:], [p for p in plist if p["tag"] == "random"][-1]["src"][-400:] if [p for p in plist if p["tag"] == "random"] else "",
                    ([p for p in plist if p["tag"] == "scale"] or [{"src": ""}])[0]["src"][-500:]],
        "probes": len([p for p in plist if p["tag"] not in ("pair", "random", "scale")]),
        "scale_probes": len([p for p in plist if p["tag"] == "scale"]),
        "probe_roles": ["%s: %s" % r for r in roles if r[0] not in ("pair", "random", "scale")][:80],
        "pair_probes": len([p for p in plist if p["tag"] == "pair"]),
        "random_programs": len([p for p in plist if p["tag"] == "random"]),
        "random_shape_distribution": dist([p["shape"] for p in plist if p["tag"] == "random"]),
        "probes_failed": failed,
        "premise_claimed": ctx.cov.get("premise", {}).get("claimed", 0),
        "premise_verified": ctx.cov.get("premise", {}).get("verified", 0),
        "snapshots_compared_with_model": nsnap, "snapshots_nontrivial": nsnap_nontriv,
        "traces_validated_against_impl": nsnap,
        "configurations": ["release gc=never (reference)", "debug (collects at every allocation)", "release gc=always"],
        "gc_tables": {k: manifest().get(k) for k in ("marks", "blackens_mark", "unknown")},
    })


def dist(xs):
    d = {}
    for x in xs:
        for part in x.split("+"):
            d[part] = d.get(part, 0) + 1
    return d


def search(ctx):
    """an obligation broke: the failing table entry / unknown item names the role; its probes run first, in all
    shapes, then everything in thorough mode"""
    man = manifest()
    tags = set()
    texts = list(man.get("unknown", [])) + ctx.broken
    for t in texts:
        for r, tag in ROLE_TAGS.items():
            if re.search(r"\b%s\b" % r, t):
                tags.add(tag)
        for s, tag in STRUCT_TAGS.items():
            if re.search(r"\b%s\b" % s, t):
                tags.add(tag)
    # table-level: which held roles lost their tracing
    facts = ctx.cov.get("table_facts") or table_facts()
    open_pairs = set(switch_state()["open_pairs"])
    for k, r in (facts.get("uncovered") or []) + (facts.get("dropped_from_mark") or []) + (facts.get("regrey") or []):
        if (k, r) not in open_pairs:
            tags.add(ROLE_TAGS.get(r, "elem"))
            ctx.notes.append("search: table entry (%s, %s) -> probes tagged '%s' first" % (k, r, ROLE_TAGS.get(r, "elem")))
    if any("collector" in t for t in texts):
        # the collector's own code changed shape (a guard, a bound, another colour): the scale family in its thorough form first
        # (every chain also under collect-at-every-allocation), then the snapshot correspondence
        ctx.notes.append("search: the collector algorithm changed shape -> scale probes (thorough form) and snapshots first")
        old = ctx.tier
        ctx.tier = "thorough"
        try:
            run_scale(ctx, scale_probes(ctx.rng, False) + special_scale_probes(ctx.rng, False), "search-scale")
            if not [v for v in ctx.violations if not v.get("known_class")]:
                check_snapshots(ctx, list(SNAP_PROGRAMS) + [x for x, _ in random_snapshot_programs(ctx.rng, 40)], "search")
        finally:
            ctx.tier = old
        if [v for v in ctx.violations if not v.get("known_class")]:
            return
    allp = probes()
    first = [p for p in allp if p["tag"] in tags]
    if first:
        log("[C01] search: probes for %s first" % sorted(tags))
        run_probes(ctx, first, "search-first")
    if not [v for v in ctx.violations if not v.get("known_class")]:
        old = ctx.tier
        ctx.tier = "thorough"
        try:
            plist = allp + probe_pairs(ctx.rng, 64) + [random_program(ctx.rng) for _ in range(600)]
            run_probes(ctx, plist, "search-all")
        finally:
            ctx.tier = old


# ------------------------------------------------------------------------------------------
# switching props/C01.v after a repair has landed:  python3 tools/props/C01.py --switch [--print]

def switched_text(txt, st):
    """SWITCH 1: the open-pairs list; SWITCH 2 / SWITCH 3: which variant is inside a comment"""
    pairs = ["(%s, %s)" % p for p in expected_open_pairs(st)]
    txt = re.sub(r"(Definition c01_open_pairs[^:]*:[^=]*:=\s*)\[.*?\]\.", lambda m: m.group(1) + "[" + "; ".join(pairs) + "].", txt, count=1, flags=re.S)
    txt = set_variant(txt, "REPAIRED", st["receiver_blacken"])
    txt = set_variant(txt, "UNREPAIRED", not st["receiver_blacken"])
    allc = st["receiver_blacken"] and not pairs
    txt = set_variant(txt, "ALL-COVERED", allc)
    txt = set_variant(txt, "SOME-OPEN", not allc)
    return txt


if __name__ == "__main__":
    sys.path.insert(0, os.path.join(yvlib.VERIF, "translator"))
    import translate_c01
    m = {}
    translate_c01.gen_gctables(m)
    st_ = tree_state(m["gc_tables"])
    path = os.path.join(yvlib.COQ, "props", "C01.v")
    with open(path) as fh_:
        new = switched_text(fh_.read(), st_)
    if "--print" in sys.argv:
        sys.stdout.write(new)
    elif "--switch" in sys.argv:
        with open(path, "w") as fh_:
            fh_.write(new)
        print("props/C01.v switched to", st_)
    else:
        print(st_)
