"""C02 - Running a program never panics, crashes or corrupts memory.

Theorems (coq/props/C02.v): no native of core.rs panics when its receiver has the kind its class dispatches on
(NativesModel.v: guards transcribed one for one, every remaining expect/unwrap/index an explicit NPanic; string
bodies: StrFns.v); exactly 37 natives do panic on an instance receiver (derive-from-native); verified bytecode
never reaches a stuck site, at most 64 frames, value stack bounded when every frame stays within 256 slots and
REFUTED otherwise; kind-dependent VM sites are entered only from the producer of the right kind.
Tie: (t) translator: guard table of every registered native regenerated from core.rs (gen/NativesSrc.v);
(a) impl == M: every built-in called with adversarial argument tuples, outcome class / error class / message
template / result kind compared with NativesModel evaluated by vm_compute;
(b) impl == S (Ok, Err(Error) or still running - never panic/abort/signal/UAF): the same probes plus generated
ill-typed programs, dev build with quarantine, thorough: release + safe_* + debug_stress_gc;
(c) directed probes of every open known class; (d) site_preds check of compiled programs (fn_sites_ok)."""
import json
import os
import re
import time

import yvlib
from yvlib import hx, log

LEVEL = "proof"
TRUSTED = [
    "Coq 8.16.1 kernel (coqc), vm_compute; no native_compute, no extraction",
    "translator/translate_c02.py + rustlex.py (guard table of the natives read from core.rs/vm.rs at token level)",
    "the harness `yv` (Rust; catch_unwind per request, quarantining allocator, deref hook H1), tools/*.py (Python)",
    "the value pool's kind tags (checked against the implementation by harness command c02kind for kind/len/arity; "
    "fiber states and tuple hashability are by construction of the snippet)",
    "modelled, not verified: Rust std (Vec/HashMap/RefCell/String), allocation failure, host stack depth",
    "Skeleton.v is a shape abstraction: its trace conformance with the VM is C04's tie",
]
ASSUMPTIONS = [
    "the dev build (debug_assertions) turns every unchecked fast path (stack push/pop/peek, opcode fetch, active fiber) into a panic",
    "a use of reclaimed memory is observed through hook H1 under the quarantining allocator (U > 0 / VERIF-UAF)",
    "print is probed through the harness's replacement printer (core::print is private): same arity rule, other message",
    "programs that do not terminate are not generated; a timeout is a violation",
]

NAT = ["clock", "print", "type", "Object#derives", "String.from", "String.from_ascii", "String.from_utf8",
       "String.from_code_points", "String#iter", "String#len", "String#is_alpha", "String#is_digit", "String#is_hexdigit",
       "String#count_chars", "String#char_byte_index", "String#find", "String#replace", "String#split",
       "String#starts_with", "String#ends_with", "String#to_num", "String#to_bytes", "String#to_code_points",
       "StringIter#next", "Tuple#len", "Tuple#iter", "TupleIter#next", "Vec#push", "Vec#pop", "Vec#len", "Vec#iter",
       "VecIter#next", "Range#iter", "RangeIter#next", "HashMap#has_key", "HashMap#get", "HashMap#insert",
       "HashMap#remove", "HashMap#clear", "HashMap#len", "HashMap#keys", "HashMap#values", "HashMap#items",
       "Fiber.new", "Fiber#call", "Fiber.yield", "Fiber#has_finished", "Error.new", "vm:set_item"]
NIX = {n: i for i, n in enumerate(NAT)}
EXPECTED = {}      # name -> expected arg count (from the Coq table)
RECV_PANICS = {}   # name -> bool

PRELUDE = """import "pm" as pm;
#[constructor(new)] class PC { fn m(self) { return 1; } fn two(self, a, b) { return a; } }
fn named(a) { return a; }
"""
MODS = {"pm": "var x = 1; fn f() { return 2; }"}

# ------------------------------------------------------------------------------------------
# value pool: (name, setup(var) -> statements, tag5, flags)


class Val:
    def __init__(self, name, setup, tag, kind, n=0, plain=True):
        self.name, self.setup, self.tag, self.kind, self.n, self.plain = name, setup, tag, kind, n, plain

    def code(self, var):
        return self.setup.replace("$", var)


def num(name, expr, p1, neg=0, mag=0):
    return Val("num:" + name, "var $ = %s;" % expr, (2, p1, neg, mag, 0), "num")


POOL = [
    Val("nil", "var $ = nil;", (0, 0, 0, 0, 0), "nil"),
    Val("true", "var $ = true;", (1, 0, 0, 0, 0), "bool"),
    Val("false", "var $ = false;", (1, 0, 0, 0, 0), "bool"),
    num("0", "0", 4, 0, 0), num("-0", "-0", 4, 0, 0), num("1", "1", 4, 0, 1), num("-1", "-1", 4, 1, 1),
    num("0.5", "0.5", 3), num("2", "2", 4, 0, 2), num("3", "3", 4, 0, 3), num("-3", "-3", 4, 1, 3), num("4", "4", 4, 0, 4),
    num("-4", "-4", 4, 1, 4), num("2^53", "9007199254740992", 4, 0, 2 ** 53), num("2^63", "9223372036854775808", 4, 0, 2 ** 63),
    num("-2^63", "-9223372036854775808", 4, 1, 2 ** 63), num("2^64", "18446744073709551616", 4, 0, 2 ** 64), num("inf", "1/0", 1), num("-inf", "-1/0", 2),
    num("nan", "0/0", 0), num("-2.5", "-2.5", 3),
    Val("str:empty", 'var $ = "";', (3, 0, 0, 0, 0), "str", 0),
    Val("str:a", 'var $ = "a";', (3, 0, 0, 0, 0), "str", 1),
    Val("str:mixed", 'var $ = "aé€\U0001F600b";', (3, 0, 0, 0, 0), "str", 11),
    Val("str:emoji", 'var $ = "\U0001F600";', (3, 0, 0, 0, 0), "str", 4),
    Val("tuple:empty", "var $ = ();", (4, 1, 0, 0, 0), "tuple", 0),
    Val("tuple:1", "var $ = (1,);", (4, 1, 0, 0, 0), "tuple", 1),
    Val("tuple:mixed", 'var $ = (1, "a", nil, (2, 3), 0..2, Vec);', (4, 1, 0, 0, 0), "tuple", 6),
    Val("tuple:unhashable", "var $ = ([],);", (4, 0, 0, 0, 0), "tuple", 1),
    Val("tuple:nested-unhashable", "var $ = (1, (2, ({},)));", (4, 0, 0, 0, 0), "tuple", 2),
    Val("vec:empty", "var $ = [];", (5, 0, 0, 0, 0), "vec", 0),
    Val("vec:3", "var $ = [1, 2, 3];", (5, 3, 0, 0, 0), "vec", 3),
    Val("vec:self", "var $ = [1]; $.push($);", (5, 2, 0, 0, 0), "vec", 2),
    Val("vec:mixed", 'var $ = [nil, "x", [1], (1,), 0.5];', (5, 5, 0, 0, 0), "vec", 5),
    Val("range:0..3", "var $ = 0..3;", (6, 0, 0, 0, 0), "range"),
    Val("range:3..0", "var $ = 3..0;", (6, 0, 0, 0, 0), "range"),
    Val("range:empty", "var $ = 0..0;", (6, 0, 0, 0, 0), "range"),
    Val("range:neg", "var $ = -2..2;", (6, 0, 0, 0, 0), "range"),
    Val("map:empty", "var $ = {};", (7, 0, 0, 0, 0), "map", 0),
    Val("map:2", 'var $ = {1: 2, "a": nil};', (7, 0, 0, 0, 0), "map", 2),
    Val("map:self", "var $ = {}; $.insert(1, $);", (7, 0, 0, 0, 0), "map", 1),
    Val("class:Vec", "var $ = Vec;", (8, 0, 0, 0, 0), "class"),
    Val("class:Object", "var $ = Object;", (8, 0, 0, 0, 0), "class"),
    Val("class:user", "var $ = PC;", (8, 0, 0, 0, 0), "class"),
    Val("class:meta", "var $ = type(Fiber);", (8, 0, 0, 0, 0), "class"),
    Val("class:StopIter", "var $ = type([].iter().next());", (8, 0, 0, 0, 0), "class"),
    Val("inst:user", "var $ = PC.new();", (9, 0, 0, 0, 0), "instance"),
    Val("inst:error", "var $ = Error.new(1);", (9, 0, 0, 0, 0), "instance"),
    Val("inst:stopiter", "var $ = [].iter().next();", (9, 0, 0, 0, 0), "instance"),
    Val("inst:mapiter", "var $ = [1].iter().map(|x| x);", (9, 0, 0, 0, 0), "instance"),
    Val("closure:0", "var $ = || 1;", (10, 1, 0, 0, 0), "closure", 1),
    Val("closure:1", "var $ = |x| x;", (10, 2, 0, 0, 0), "closure", 2),
    Val("closure:2", "var $ = |x, y| x;", (10, 3, 0, 0, 0), "closure", 3),
    Val("closure:3", "var $ = |x, y, z| x;", (10, 4, 0, 0, 0), "closure", 4),
    Val("closure:named", "var $ = named;", (10, 2, 0, 0, 0), "closure", 2),
    Val("native:type", "var $ = type;", (11, 0, 0, 0, 0), "native"),
    Val("native:clock", "var $ = clock;", (11, 0, 0, 0, 0), "native"),
    Val("bound:native", "var $ = [1].len;", (12, 0, 0, 0, 0), "bound", 1, plain=False),
    Val("bound:closure", "var $ = PC.new().m;", (12, 0, 0, 0, 0), "bound", 0, plain=False),
    Val("bound:static", "var $ = Fiber.yield;", (12, 0, 0, 0, 0), "bound", 1, plain=False),
    # iterators: tag = (13, kind, cursor, CURRENT length of the iterated container, 0)
    Val("iter:vec", "var $ = [1, 2].iter();", (13, 2, 0, 2, 0), "iter", 2),
    Val("iter:vec-done", "var $ = [].iter(); $.next(); $.next();", (13, 2, 0, 0, 0), "iter", 2),
    Val("iter:vec-end", "var $v = [1, 2]; var $ = $v.iter(); $.next(); $.next();", (13, 2, 2, 2, 0), "iter", 2),
    Val("iter:vec-stale", "var $v = [1, 2, 3, 4]; var $ = $v.iter(); $.next(); $.next(); $.next(); $v.pop(); $v.pop();", (13, 2, 3, 2, 0), "iter", 2),
    Val("iter:vec-stale0", "var $v = [1, 2]; var $ = $v.iter(); $.next(); $.next(); $v.pop(); $v.pop();", (13, 2, 2, 0, 0), "iter", 2),
    Val("iter:vec-stale1", "var $v = [1, 2, 3]; var $ = $v.iter(); $.next(); $.next(); $.next(); $.next(); $v.pop(); $v.pop();", (13, 2, 3, 1, 0), "iter", 2),
    Val("iter:vec-grown", "var $v = [1]; var $ = $v.iter(); $.next(); $.next(); $v.push(5);", (13, 2, 1, 2, 0), "iter", 2),
    Val("iter:str", 'var $ = "aé".iter();', (13, 0, 0, 3, 0), "iter", 0),
    Val("iter:str-done", 'var $ = "".iter(); $.next();', (13, 0, 0, 0, 0), "iter", 0),
    Val("iter:tuple", "var $ = (1, 2).iter();", (13, 1, 0, 2, 0), "iter", 1),
    Val("iter:tuple-done", "var $ = ().iter(); $.next();", (13, 1, 0, 0, 0), "iter", 1),
    Val("iter:tuple-end", "var $ = (1, 2).iter(); $.next(); $.next(); $.next();", (13, 1, 2, 2, 0), "iter", 1),
    Val("iter:range", "var $ = (0..2).iter();", (13, 3, 0, 2, 0), "iter", 3),
    Val("iter:range-done", "var $ = (0..1).iter(); $.next(); $.next(); $.next();", (13, 3, 1, 1, 0), "iter", 3),
    Val("iter:range-down", "var $ = (2..-1).iter(); $.next();", (13, 3, 1, 3, 0), "iter", 3),
    Val("fiber:new0", "var $ = Fiber.new(|| 1);", (14, 1, 1, 0, 1), "fiber"),
    Val("fiber:new1", "var $ = Fiber.new(|x| x);", (14, 1, 1, 0, 2), "fiber"),
    Val("fiber:suspended0", "var $ = Fiber.new(|| { Fiber.yield(1); return 2; }); $.call();", (14, 1, 0, 0, 1), "fiber"),
    Val("fiber:suspended1", "var $ = Fiber.new(|x| { var y = Fiber.yield(x); return y; }); $.call(7);", (14, 1, 0, 0, 2), "fiber"),
    Val("fiber:suspended-deep", "var $ = Fiber.new(|| { var g = || Fiber.yield(1); g(); return 2; }); $.call();", (14, 2, 0, 0, 1), "fiber"),
    Val("fiber:finished0", "var $ = Fiber.new(|| 1); $.call();", (14, 0, 0, 0, 1), "fiber"),
    Val("fiber:finished1", "var $ = Fiber.new(|x| x); $.call(nil);", (14, 0, 0, 0, 2), "fiber"),
    Val("module", "var $ = pm;", (15, 0, 0, 0, 0), "module"),
]
BY_KIND = {}
for _v in POOL:
    BY_KIND.setdefault(_v.kind, []).append(_v)
BY_NAME = {v.name: v for v in POOL}

RECV_OF = {"String": "str", "StringIter": None, "Tuple": "tuple", "TupleIter": None, "Vec": "vec", "VecIter": None,
           "Range": "range", "RangeIter": None, "HashMap": "map", "Fiber": "fiber"}
ITER_RECV = {"StringIter": ["iter:str", "iter:str-done"], "TupleIter": ["iter:tuple", "iter:tuple-done", "iter:tuple-end"],
             "VecIter": ["iter:vec", "iter:vec-done", "iter:vec-end", "iter:vec-stale", "iter:vec-stale0", "iter:vec-stale1", "iter:vec-grown"],
             "RangeIter": ["iter:range", "iter:range-done", "iter:range-down"]}
TARGETED = {"String#find": ("str", "num"), "String#replace": ("str", "str"), "vm:set_item": ("num", "nil")}
CLASS_RECV = Val("class:static", "", (8, 0, 0, 0, 0), "class")
NATIVE_RECV = Val("native:self", "", (11, 0, 0, 0, 0), "native")

# classes deriving from every native-object class (the receiver stream)
DERIVED = {"String": "String", "StringIter": 'type("a".iter())', "Tuple": "Tuple", "TupleIter": "type((1,).iter())",
           "Vec": "Vec", "VecIter": "type([].iter())", "Range": "Range", "RangeIter": "type((0..1).iter())",
           "HashMap": "HashMap", "Fiber": "Fiber"}
DERIVE_PRELUDE = "".join("var B%s = %s; #[constructor(new), derive(B%s)] class D%s {}\n" % (k, e, k, k) for k, e in DERIVED.items())


def receivers(native):
    """pool values usable as the receiver of `native` when dispatched through its own class"""
    if "#" in native:
        cls = native.split("#")[0]
        if cls == "Object":
            return POOL
        if cls in ITER_RECV:
            return [BY_NAME[n] for n in ITER_RECV[cls]]
        return BY_KIND[RECV_OF[cls]]
    if native == "vm:set_item":
        return POOL
    if "." in native:
        return [CLASS_RECV]
    return [NATIVE_RECV]


class Probe:
    """one call of a built-in; ctx: 'top' | 'yield-in-fiber' | 'self-fresh0' | 'self-fresh1' | 'self-deep' | 'self-resumed' | 'mutual' | 'derived'"""

    def __init__(self, native, recv, args, ctx="top"):
        self.native, self.recv, self.args, self.ctx = native, recv, args, ctx

    def key(self):
        return (self.native, self.in_fiber(), self.recv_tag()) + tuple(a.tag for a in self.args)

    def in_fiber(self):
        return 0 if self.ctx in ("top", "derived") else 1

    def recv_tag(self):
        if self.ctx == "derived":
            return (9, 0, 0, 0, 0)
        if self.ctx in ("self-fresh0",):
            return (14, 1, 1, 1, 1)
        if self.ctx == "self-fresh1":
            return (14, 1, 1, 1, 2)
        if self.ctx == "self-deep":
            return (14, 2, 0, 1, 1)
        if self.ctx in ("self-resumed", "mutual"):
            return (14, 1, 0, 1, 1)
        return self.recv.tag

    def wire(self):
        nums = [self.in_fiber(), NIX[self.native]] + list(self.recv_tag())
        for a in self.args:
            nums += list(a.tag)
        return " ".join(str(x) for x in nums)

    def call_expr(self):
        argl = ", ".join("a%d" % i for i in range(len(self.args)))
        n = self.native
        if n == "vm:set_item":
            return "(r[a0] = a1)"
        if "#" in n:
            return "r.%s(%s)" % (n.split("#")[1], argl)
        if "." in n:
            return "%s(%s)" % (n, argl)
        return "%s(%s)" % (n, argl)

    def snippet(self, pid):
        """yarel statements; prints '#pid' then ok/<class T> or err/<class E>/message"""
        pre = ['print("#%d");' % pid, "{"]
        for i, a in enumerate(self.args):
            pre.append(a.code("a%d" % i))
        body = ('try { var res = %s; print("ok"); print(type(res)); %s} catch e { print("err"); print(type(e)); print(e.context); }'
                % (self.call_expr(), "print(res == r); " if self.native == "Vec#push" and self.ctx == "top" else ""))
        c = self.ctx
        if c == "top":
            if self.recv.setup:
                pre.append(self.recv.code("r"))
            pre.append(body)
        elif c == "derived":
            pre.append("var r = D%s.new();" % self.native.split("#")[0])
            pre.append(body)
        elif c == "yield-in-fiber":
            pre.append("var fb = Fiber.new(|| { %s });" % body)
            pre.append("fb.call(); if !fb.has_finished() { fb.call(); }")
        elif c == "self-fresh0":
            pre.append("var r = nil; r = Fiber.new(|| { %s }); r.call();" % body)
        elif c == "self-fresh1":
            pre.append("var r = nil; r = Fiber.new(|q| { %s }); r.call(0);" % body)
        elif c == "self-deep":
            pre.append("var r = nil; r = Fiber.new(|| { var g = || { %s }; g(); }); r.call();" % body)
        elif c == "self-resumed":
            pre.append("var r = nil; r = Fiber.new(|| { Fiber.yield(0); %s }); r.call(); r.call();" % body)
        elif c == "mutual":
            pre.append("var r = nil; var other = Fiber.new(|| { %s }); r = Fiber.new(|| { other.call(); }); r.call();" % body)
        pre.append("}")
        return "\n".join(pre)


def gen_probes(ctx, per_right, per_wrong):
    """the probe list of stream (a): every native x arities 0..3 x argument tuples"""
    rng = ctx.rng
    probes = []
    for native in NAT:
        exp = EXPECTED[native]
        recvs = receivers(native)
        for nargs in range(4):
            right = nargs == exp or native in ("clock", "Fiber#call", "Fiber.yield")
            if native == "vm:set_item" and nargs != 2:
                continue   # the SetItem instruction always has three operands
            tuples = []
            if nargs == 0:
                tuples = [()]
            elif right and nargs == 1:
                tuples = [(v,) for v in POOL]                 # every pool value once
            elif right:
                first = list(POOL)
                rng.shuffle(first)
                tuples = [(v,) + tuple(rng.choice(POOL) for _ in range(nargs - 1)) for v in first]
                tuples = tuples[:max(per_right, len(POOL))] if native in ("HashMap#insert", "vm:set_item") else tuples[:per_right]
            else:
                tuples = [tuple(rng.choice(POOL) for _ in range(nargs)) for _ in range(per_wrong)]
            if right and native in TARGETED and nargs == 2:
                k1, k2 = TARGETED[native]
                tuples = [(a, b) for a in BY_KIND[k1] for b in BY_KIND[k2]] + tuples
            for k, t in enumerate(tuples):
                if native in ("Object#derives", "vm:set_item"):
                    # receivers of every kind: rotate through the pool (each pool value at least once)
                    rs = [recvs[(k * 7 + j) % len(recvs)] for j in range(2 if native == "Object#derives" else 1)]
                    if native == "vm:set_item" and k % 3 != 0:
                        rs = [rng.choice(BY_KIND["vec"])]
                    if native == "vm:set_item" and k < len(BY_KIND["num"]) * len(POOL[:1]):
                        rs = BY_KIND["vec"]       # every vec x every number class (targeted tuples come first)
                else:
                    rs = recvs if (right and len(recvs) <= 8 and k < 12) else [recvs[k % len(recvs)]]
                for r in rs:
                    probes.append(Probe(native, r, list(t)))
    # fiber contexts
    for nargs in range(4):
        for _ in range(3 if nargs else 1):
            t = [rng.choice(POOL) for _ in range(nargs)]
            probes.append(Probe("Fiber.yield", CLASS_RECV, t, "yield-in-fiber"))
            for c in ("self-fresh0", "self-fresh1", "self-deep", "self-resumed", "mutual"):
                probes.append(Probe("Fiber#call", None, t, c))
    for c in ("self-fresh0", "self-deep", "self-resumed"):
        probes.append(Probe("Fiber#has_finished", None, [], c))
    return probes


INDEXES = ["1..2", "2..4", "0..11", "0..12", "-1..-3", "5..5", "1..-1", "-9223372036854775808..2"]
OPS2 = ["+", "-", "*", "/", "%", "&", "|", "^", "<<", ">>", "<", ">", "<=", ">=", "==", "!=", "&&", "||", ".."]
OPS1 = ["-", "!", "~"]
PROPS = ["len", "context", "nope", "call", "next", "new"]


def gen_op_snippets(ctx, n2):
    """oracle-only probes of the VM's own operators on every kind: r[i] for every receiver x every number / range
    (mid-character offsets of a 1-4-byte string included), binary and unary operators on kind pairs, property get/set, call"""
    rng = ctx.rng
    tmpl = 'try { var res = %s; print("ok"); } catch e { print("err"); print(type(e)); }'
    out = []
    idx = [v for v in POOL if v.kind in ("num", "range", "nil", "str")]
    for r in POOL:
        if r.kind in ("str", "tuple", "vec"):
            for i in idx:
                out.append((r, i, tmpl % "r[a0]"))
            for e in INDEXES:
                out.append((r, None, tmpl % ("r[%s]" % e)))
        else:
            out.append((r, rng.choice(idx), tmpl % "r[a0]"))
        for o in OPS1:
            out.append((r, None, tmpl % ("(%sr)" % o)))
        for pr in PROPS:
            out.append((r, None, tmpl % ("r.%s" % pr)))
        out.append((r, rng.choice(POOL), "try { r.fld = a0; print(\"ok\"); } catch e { print(\"err\"); print(type(e)); }"))
        out.append((r, rng.choice(POOL), tmpl % "r(a0)"))
        out.append((r, None, tmpl % "r()"))
        out.append((r, None, 'try { for q in r { print("it"); } print("ok"); } catch e { print("err"); print(type(e)); }'))
        out.append((r, None, 'try { print("<${r}>"); print("ok"); } catch e { print("err"); print(type(e)); }'))
        out.append((r, None, 'try { throw r; } catch e { print("err"); print(type(e)); }'))
    kinds = sorted(BY_KIND)
    for k1 in kinds:
        for k2 in kinds:
            for o in rng.sample(OPS2, 4 if n2 < 1000 else 12):
                out.append((rng.choice(BY_KIND[k1]), rng.choice(BY_KIND[k2]), tmpl % ("(r %s a0)" % o)))
    for _ in range(n2):
        out.append((rng.choice(POOL), rng.choice(POOL), tmpl % ("(r %s a0)" % rng.choice(OPS2))))
    snippets = []
    for r, a, body in out:
        if a is not None and a.name in ("vec:self", "map:self") and r.name == a.name and ("==" in body or "!=" in body):
            a = BY_NAME["vec:3"]     # two distinct self-containing containers under == : deep_eq_recursion, probed by the directed stream only
        pre = ["{"]
        if a is not None:
            pre.append(a.code("a0"))
        pre.append(r.code("r"))
        pre.append(body)
        pre.append("}")
        snippets.append("\n".join(pre))
    return snippets


def run_op_snippets(ctx, binary, snippets, group, what):
    """returns (#ok, #err, failures [(source, description)])"""
    reqs = [PRELUDE + "\n".join('print("#%d");\n%s' % (i + j, sn) for j, sn in enumerate(snippets[i:i + group])) for i in range(0, len(snippets), group)]
    recs = run_confirmed(ctx, binary, [mods_line(s) for s in reqs], what)
    ok = err = 0
    fails = []
    redo = []
    for k, (src, r) in enumerate(zip(reqs, recs)):
        bad = bad_record(r)
        if bad is None and r.result[0] == "ok":
            got = parse_probe_output(r.output)
            for ls in got.values():
                if "ok" in ls:
                    ok += 1
                elif "err" in ls:
                    err += 1
        else:
            redo.extend(range(k * group, min(len(snippets), (k + 1) * group)))
    if redo:
        one = [PRELUDE + snippets[i] for i in redo]
        r2 = yvlib.run_harness(binary, [mods_line(s) for s in one], quarantine=True, case_timeout_ms=30000, recycle=20)
        for s1, r in zip(one, r2):
            bad = bad_record(r)
            if bad or r.result[0] != "ok":
                fails.append((s1, bad or ("script error: %s" % r.messages[:2])))
            elif "ok" in r.output:
                ok += 1
            else:
                err += 1
    return ok, err, fails


# ------------------------------------------------------------------------------------------
# stateful iterator misuse: containers mutated while an iterator over them is live; next() far past the end


class VecSim:
    """reference semantics of a vec and of iterators over it (cursor; a cursor at or beyond the length yields the sentinel)"""

    def __init__(self, n):
        self.v = list(range(10, 10 + n))
        self.cur = 0

    def raw_next(self):
        if self.cur >= len(self.v):
            return None
        x = self.v[self.cur]
        self.cur += 1
        return x


STOP = "<StopIter"


def show_next(x):
    return STOP if x is None else str(x)


def seq_case(n, ops, adapter):
    """explicit probe: ops over N(ext) P(op) U(push) S(et v[0]) C(lear by popping all) R(eplace the variable) + 4 trailing nexts"""
    sim = VecSim(n)
    init = ", ".join(str(x) for x in sim.v)
    src = ["var v = [%s];" % init]
    if adapter == "plain":
        src.append("var it = v.iter();")
    elif adapter == "map":
        src.append("var it = v.iter().map(|x| x * 2);")
    elif adapter == "filter":
        src.append("var it = v.iter().filter(|x| x % 2 == 0);")
    else:
        src.append("var it = v.iter().filter(|x| x % 2 == 0).map(|x| x + 1);")
    exp = []
    replaced = False

    def nxt():
        if adapter == "plain":
            return sim.raw_next()
        if adapter == "map":
            x = sim.raw_next()
            return None if x is None else x * 2
        while True:
            x = sim.raw_next()
            if x is None:
                return None
            if x % 2 == 0:
                return x if adapter == "filter" else x + 1
    target = sim.v      # the list the iterator walks; after R the variable names another vec
    other = None
    for o in list(ops) + ["N", "N", "N", "N"]:
        cur = other if replaced else target
        if o == "N":
            src.append("print(it.next());")
            exp.append(show_next(nxt()))
        elif o == "P":
            src.append('try { v.pop(); } catch e { print("E"); }')
            if cur:
                cur.pop()
            else:
                exp.append("E")
        elif o == "U":
            src.append("v.push(%d);" % (20 + len(exp)))
            cur.append(20 + len(exp))
        elif o == "S":
            src.append('try { v[0] = 98; } catch e { print("E"); }')
            if cur:
                cur[0] = 98
            else:
                exp.append("E")
        elif o == "C":
            src.append("while v.len() > 0 { v.pop(); }")
            del cur[:]
        elif o == "R":
            src.append("v = [1, 2, 3];")
            other = [1, 2, 3]
            replaced = True
    return "\n".join(src), exp


def for_case(n, trigger, action):
    """for loop whose body mutates the iterated vec when it sees `trigger`"""
    sim = VecSim(n)
    acts = {"pop1": 'v.pop();', "pop2": 'v.pop(); v.pop();', "pop3": 'v.pop(); v.pop(); v.pop();', "clear": "while v.len() > 0 { v.pop(); }",
            "push": "if v.len() < 9 { v.push(50); }", "set": "v[0] = 98;", "pop-push": "v.pop(); v.pop(); v.push(51);", "replace": "v = [7, 8];"}
    src = 'var v = [%s];\nfor q in v { print(q); if q == %d { try { %s } catch e { print("E"); } } }\nprint(v.len());' % (
        ", ".join(str(x) for x in sim.v), trigger, acts[action])
    exp = []
    v = sim.v
    named = v
    guard = 0
    while guard < 100:
        guard += 1
        x = sim.raw_next()
        if x is None:
            break
        exp.append(str(x))
        if x == trigger:
            try:
                if action.startswith("pop") and action != "pop-push":
                    for _ in range(int(action[3:])):
                        if not named:
                            raise IndexError
                        named.pop()
                elif action == "clear":
                    del named[:]
                elif action == "push":
                    if len(named) < 9:
                        named.append(50)
                elif action == "set":
                    if not named:
                        raise IndexError
                    named[0] = 98
                elif action == "pop-push":
                    for _ in range(2):
                        if not named:
                            raise IndexError
                        named.pop()
                    named.append(51)
                elif action == "replace":
                    named = [7, 8]
            except IndexError:
                exp.append("E")
    exp.append(str(len(named)))
    return src, exp


def gen_iter_cases(ctx, quick):
    """[(source, expected printed lines or None)]"""
    import itertools
    rng = ctx.rng
    cases = []
    maxlen = 4 if quick else 5
    for n in range(0, 5):
        for L in range(1, maxlen + 1):
            for ops in itertools.product("NPUS", repeat=L):
                cases.append(seq_case(n, ops, "plain"))
    for _ in range(200 if quick else 3000):
        n = rng.randint(0, 6)
        ops = [rng.choice("NNNPPUSCR") for _ in range(rng.randint(3, 10))]
        cases.append(seq_case(n, ops, rng.choice(["plain", "map", "filter", "chain"])))
    for n in range(1, 7):
        for trig in range(10, 10 + n):
            for act in ("pop1", "pop2", "pop3", "clear", "push", "set", "pop-push", "replace"):
                cases.append(for_case(n, trig, act))
    # the other native iterators far past the end, adapters over them, snapshots of maps
    fixed = [
        ('var it = (1, 2, 3).iter(); var i = 0; while i < 9 { print(it.next()); i = i + 1; }', ["1", "2", "3"] + [STOP] * 6),
        ('var it = "aé€".iter(); var i = 0; while i < 9 { print(it.next()); i = i + 1; }', ["a", "é", "€"] + [STOP] * 6),
        ('var it = "".iter(); var i = 0; while i < 5 { print(it.next()); i = i + 1; }', [STOP] * 5),
        ('var it = (0..3).iter(); var i = 0; while i < 9 { print(it.next()); i = i + 1; }', ["0", "1", "2"] + [STOP] * 6),
        ('var it = (2..-2).iter(); var i = 0; while i < 9 { print(it.next()); i = i + 1; }', ["2", "1", "0", "-1"] + [STOP] * 5),
        ('var it = (5..5).iter(); var i = 0; while i < 4 { print(it.next()); i = i + 1; }', [STOP] * 4),
        ('var it = ().iter(); var i = 0; while i < 4 { print(it.next()); i = i + 1; }', [STOP] * 4),
        ('var it = (1, 2, 3, 4).iter().filter(|x| x > 2).map(|x| x * 10); var i = 0; while i < 6 { print(it.next()); i = i + 1; }', ["30", "40"] + [STOP] * 4),
        ('var it = "ab".iter().map(|c| c + c); var i = 0; while i < 5 { print(it.next()); i = i + 1; }', ["aa", "bb"] + [STOP] * 3),
        ('var m = {1: 1, 2: 2, 3: 3}; var n = 0; for k in m.keys() { m.remove(k); m.insert(k + 10, 0); n = n + 1; } print(n); print(m.len());', ["3", "3"]),
        ('var m = {1: 1, 2: 2}; var n = 0; for kv in m.items() { m.clear(); n = n + 1; } print(n); print(m.len());', ["2", "0"]),
        ('var m = {1: 1, 2: 2}; var ks = m.keys(); var it = ks.iter(); it.next(); ks.pop(); ks.pop(); print(it.next()); print(it.next()); m.clear(); print(it.next());', [STOP] * 3),
        ('var m = {1: [1, 2, 3]}; var n = 0; for x in m.get(1) { m.get(1).pop(); m.get(1).pop(); n = n + 1; } print(n);', ["1"]),
        ('var v = [1, 2, 3, 4]; var a = v.iter(); var b = v.iter(); a.next(); a.next(); a.next(); b.next(); v.pop(); v.pop(); v.pop(); print(a.next()); print(b.next()); print(a.next()); print(b.next());', [STOP] * 4),
        ('var v = [1, 2, 3, 4, 5, 6]; var n = 0; for x in v { for y in v { v.pop(); n = n + 1; } } print(n); print(v.len());', None),
        ('var v = [1, 2, 3, 4]; var n = 0; for x in v.iter().map(|q| { v.pop(); return q; }) { n = n + 1; } print(n); print(v.len());', ["2", "2"]),
        ('var v = [1, 2, 3, 4]; print(v.iter().filter(|q| { v.pop(); v.pop(); return true; }).collect());', None),
        ('var v = [3, 4, 5, 6]; print(v.iter().reduce(|a, q| { v.pop(); v.pop(); return a + q; }, 0));', None),
    ]
    cases.extend(fixed)
    return cases


# ------------------------------------------------------------------------------------------
# the SAME object offered again: a rejected argument must be rejected the same way every time

TWICE_VALUES = [
    # unhashable tuples nesting vec / map / instance / closure / fiber / iterator at depth 1-3, and hashable ones
    "([1, 2], 3)", "([],)", "(1, ([],))", "(1, (2, ({},)))", "(PC.new(),)", "((|| 1),)", "(1, (2, (3, [4])))", "(1, ({1: 2}, 3), 4)",
    "(Fiber.new(|| 1),)", "([1].iter(),)", "(1, (nil, (true, ([1].len,))))", "((1, 2), (3, (4, 5)))", "()", "(1, \"a\", nil)",
    # finished / suspended / new fibers
    "Fiber.new(|| 1); x.call()", "Fiber.new(|| { Fiber.yield(1); return 2; }); x.call()", "Fiber.new(|q| q)",
    # exhausted / stale iterators
    "[].iter(); x.next()", "\"\".iter(); x.next()", "(1,).iter(); x.next(); x.next()", "(0..1).iter(); x.next(); x.next()",
    "nil; var xv = [1, 2, 3]; x = xv.iter(); x.next(); x.next(); x.next(); xv.pop(); xv.pop()",
    # indices out of range / not integral
    "7", "-9", "0.5", "(0/0)", "(1/0)", "-9223372036854775808", "5..9", "-7..-1",
    # wrong kinds
    "nil", "\"s\"", "\"\"", "[1]", "[]", "{}", "{1: [2]}", "PC", "PC.new()", "|| 1", "|a, b| a", "[1].len", "PC.new().m", "0..3", "pm", "type", "true",
]
TWICE_USES = [
    "m.insert(x, 1)", "m.get(x)", "m.has_key(x)", "m.remove(x)", "var m2 = {x: 1}", "var m3 = {1: 2, x: 3, 4: 5}", "m.get((x,))", "var m4 = {(x, 2): 1}",
    "m.insert((1, (x,)), 2)", "[1, 2, 3][x]", "\"abc\"[x]", "(1, 2)[x]", "v[x] = 1", "x[0]", "x[0] = 1", "x[x]", "print(x == x)", "print(x == [1])", "print(x)",
    "print(\"<${x}>\")", "String.from(x)", "for q in x { print(q); }", "x.next()", "x.call()", "x.call(1)", "x()", "x(1, 2)", "x.len()", "x.iter()",
    "Fiber.new(x)", "nil.derives(x)", "x.derives(x)", "var r1 = 0..x", "var r2 = x..2", "print(-x)", "print(x + 1)", "print(x < x)", "String.from_utf8(x)",
    "String.from_code_points(x)", "\"abc\".find(x, x)", "\"abc\".find(\"b\", x)", "\"a\".split(x)", "\"abc\".char_byte_index(x)", "type(x)", "throw x",
    "x.foo = 1", "x.foo", "x.has_finished()", "x.pop()", "v.push(x); v.pop()", "Error.new(x).context", "x.map(|q| q).collect()", "x.has_key(x)",
]


def gen_twice_cases(ctx, quick):
    """every (offending value, use A) pair: A three times in a row on the SAME variable, a different use B twice, print, A once more, B once more;
    each use in its own try/catch.  Oracle: no panic / crash / UAF (a second offer of a once-rejected object must be rejected again)."""
    rng = ctx.rng
    cases = []

    def wrap(u, k):
        return 'try { %s print("ok%d"); } catch e%d { print("err%d"); }' % (u if u.endswith("; } }") or u.endswith("); }") else u + ";", k, k, k)
    for val in TWICE_VALUES:
        for a in TWICE_USES:
            for _ in range(1 if quick else 3):
                b = rng.choice([u for u in TWICE_USES if u != a])
                c = rng.choice(TWICE_USES)
                seq = [a, a, a, b, b, "print(x)", a, b, c, a]
                src = ["var x = %s;" % val, "var m = {1: 2, \"k\": 3};", "var v = [1, 2, 3];"]
                src += [wrap(u, k) for k, u in enumerate(seq)]
                cases.append(("\n".join(src), None))
    return cases


# ------------------------------------------------------------------------------------------
# aliasing: the receiver itself (or something that holds / comes from it) as an argument of its own method

ALIAS_RECV = [
    ("map", "{1: 2, \"k\": [3]}"), ("map-self", "{1: 2}; r.insert(3, r)"), ("vec", "[1, 2, 3]"), ("vec-self", "[1]; r.push(r)"),
    ("vec-tuple", "[(1, 2), 3]"), ("vec-nested", "[[1], {2: 3}]"), ("inst", "PC.new(); r.f = r; r.g = [r]"),
    ("fiber", "nil; r = Fiber.new(|a| { var q = Fiber.yield(r); return q; })"), ("tuple-vec", "nil; var inner = [1]; r = (inner, 2); inner.push(r)"),
    ("iter", "nil; var under = [1, 2, 3]; r = under.iter(); under.push(r)"),
]
ALIAS_ARGS = ["r", "[r]", "(r,)", "(1, [r])", "{1: r}", "[[r]]", "(1, (2, [r, r]))", "r[0]", "r.get(1)", "r.iter()", "r.keys().iter()", "r.len", "|| r",
              "[r].iter()", "Fiber.new(|| r)", "(r, r)"]
ALIAS_USES = ["r.insert(A, 1)", "r.insert(1, A)", "r.insert(A, A)", "r.get(A)", "r.has_key(A)", "r.remove(A)", "var lit = {(A): r}", "var lit2 = {1: A, (A): 2}",
              "r.push(A)", "r[A]", "r[0] = A", "r[A] = 1", "r[1] = A", "print(A)", "print(\"<${A}>\")", "String.from(A)", "r.call(A)", "r.next()", "r.f = A",
              "r.derives(A)", "(A).derives(r)", "for q in A { print(q); }", "r.iter().map(|q| (A)).collect()", "throw A", "Error.new(A).context", "type(A)",
              "r.pop()", "print(r == r)", "print(r == A)", "r.filter(|q| r.pop()).collect()", "r.reduce(|a, q| r, A)", "r.keys().push(A)", "r.items()[0][1]"]


def gen_alias_cases(ctx, quick):
    """receiver x argument form x use: the use, print(r), the use again, print of the argument, each in its own try/catch.  `==` is only generated
    between an object and itself or one of its own parts (never two DISTINCT self-containing containers: deep_eq_recursion)."""
    rng = ctx.rng
    cases = []
    for rname, rsetup in ALIAS_RECV:
        for a in ALIAS_ARGS:
            uses = ALIAS_USES if not quick else rng.sample(ALIAS_USES, 14) + ["r.insert(A, 1)", "r.push(A)", "print(A)"]
            for u in uses:
                if "==" in u and a not in ("r", "r[0]", "r.get(1)"):
                    continue
                src = ["var r = %s;" % rsetup]
                k = 0
                for stmt in ("var arg = nil; arg = %s" % a, u.replace("A", "arg"), "print(r)", u.replace("A", a), "print(arg)", u.replace("A", "arg"), "print(r)"):
                    k += 1
                    body = stmt if stmt.startswith("for ") else stmt + ";"
                    src.append('try { %s print("ok%d"); } catch e%d { print("err%d"); }' % (body, k, k, k))
                cases.append(("\n".join(src).replace("var arg = nil; arg =", "arg ="), None))
                cases[-1] = ("var arg = nil;\n" + cases[-1][0], None)
    return cases


# ------------------------------------------------------------------------------------------
# several runs on ONE Vm: a snippet that fails uncaught in some state, then snippets that touch everything that survived in the globals

REPL_MODS = {"bad": "var q = [1, 2]; fn g() { return q; } var esc2 = || q; throw \"boom in module\";", "good": "var z = 1; fn h() { return z; }"}
REPL_FAIL = ['throw "boom";', "[1][5];", "nil.nope();", "var zz = 1 + nil;", "rec(0);"]
REPL_DECL = "var esc = nil; var esc3 = nil; var keep = nil; var it = nil; var mi = nil; var v = [1, 2, 3, 4]; var m = {1: [2]}; fn rec(n) { return rec(n + 1) + 1; }\n"
REPL_SETUPS = [
    ("nested-calls", "fn f3() { var loc = [1, 2]; esc = || loc; FAIL } fn f2() { var l2 = [3]; esc3 = || l2; return f3(); } fn f1() { return f2(); } f1();"),
    ("in-fiber", "var fib = Fiber.new(|| { var a = [1, 2]; esc = || a; Fiber.yield(1); FAIL }); print(fib.call()); fib.call();"),
    ("in-new-fiber", "var fib = Fiber.new(|x| { var a = [x]; esc = || a; FAIL }); fib.call(7);"),
    ("fiber-in-fiber", "var inner = Fiber.new(|| { FAIL }); var outer = Fiber.new(|| { var a = [1, 2]; esc = || a; inner.call(); print(a); }); outer.call();"),
    ("fiber-in-fiber-in-fiber", "var inner = Fiber.new(|| { var c = [0]; esc3 = || c; FAIL }); var outer = Fiber.new(|| { var a = [1, 2]; esc = || a; inner.call(); print(a); }); "
                                "var outer2 = Fiber.new(|| { var b = [3]; keep = || b; outer.call(); print(b); return 9; }); outer2.call();"),
    ("fiber-resumed-chain", "var inner = Fiber.new(|| { Fiber.yield(1); FAIL }); var outer = Fiber.new(|| { var a = [1]; esc = || a; inner.call(); Fiber.yield(2); inner.call(); print(a); }); "
                            "print(outer.call()); outer.call();"),
    ("map-callback", "it = v.iter(); mi = it.map(|x| { if x == 2 { var loc = [x]; esc = || loc; FAIL } return x; }); print(mi.collect());"),
    ("filter-callback", "it = v.iter(); mi = it.filter(|x| { if x == 3 { FAIL } return true; }); for q in mi { print(q); }"),
    ("reduce-callback", "it = v.iter(); print(it.reduce(|a, x| { if x == 2 { esc = || a; FAIL } return a + x; }, 0));"),
    ("constructor", "class K { #[constructor] fn new(self, x) { self.x = [x]; keep = self; FAIL } fn get(self) { return self.x; } } var k = K.new(1);"),
    ("import", 'import "bad" as bad;'),
    ("import-in-fiber", 'var fib = Fiber.new(|| { import "bad" as bad; return 1; }); fib.call();'),
    ("try-finally", 'fn tf() { var loc = [1]; try { FAIL } finally { esc = || loc; print("fin"); } } tf();'),
    ("try-finally-in-fiber", 'var fib = Fiber.new(|| { var loc = [1]; try { Fiber.yield(1); FAIL } finally { esc = || loc; print("fin"); } }); fib.call(); fib.call();'),
    ("catch-rethrow", "fn cr() { var loc = [1]; try { FAIL } catch e { esc = || [loc, e]; throw e; } } cr();"),
    ("iterating", "it = v.iter(); for x in it { if x == 2 { var loc = [x]; esc = || loc; FAIL } }"),
    ("iterating-for-vec", "for x in v { v.push(x); if x == 2 { FAIL } }"),
    ("iterating-in-fiber", "var fib = Fiber.new(|| { it = v.iter(); for x in it { Fiber.yield(x); if x == 2 { FAIL } } }); fib.call(); fib.call(); fib.call();"),
    ("method-call", "#[constructor(new)] class M2 { fn boom(self) { var loc = [self]; esc = || loc; FAIL } } keep = M2.new(); keep.boom();"),
    ("bound-method", "#[constructor(new)] class M3 { fn boom(self, a) { esc = || a; FAIL } } keep = M3.new().boom; keep([1]);"),
    ("caller-try-around-fiber", "var fib = Fiber.new(|| { var a = [1]; esc = || a; FAIL }); try { fib.call(); } catch e { print(\"never\"); }"),
    ("class-body", "fn late() { FAIL } #[constructor(new), derive(undefined_base)] class Q { fn a(self) { return 1; } }"),
    ("interpolation", 'fn si() { var loc = [1]; esc = || loc; FAIL } print("a${si()}b");'),
    ("args-on-stack", "fn si(a) { esc = || a; FAIL } print([1, 2, [3, si([4])], {5: si([6])}]);"),
]
REPL_TOUCH = [
    # fibers again (with and without argument), twice
    "try { print(fib.call()); } catch e { print(e.context); } try { print(fib.call(1)); } catch e { print(e.context); } try { print(fib.has_finished()); } catch e { print(e.context); }",
    "try { print(outer.call()); } catch e { print(e.context); } try { print(inner.call()); } catch e { print(e.context); } try { print(outer2.call()); } catch e { print(e.context); } "
    "try { print(outer.call(2)); } catch e { print(e.context); } try { print(outer.has_finished()); print(inner.has_finished()); } catch e { print(e.context); }",
    # escaped closures
    "try { print(esc()); } catch e { print(e.context); } try { print(esc3()); } catch e { print(e.context); } try { print(keep()); } catch e { print(e.context); }",
    # iterators again
    "try { print(it.next()); for q in it { print(q); } print(it.next()); } catch e { print(e.context); } try { print(mi.next()); print(mi.collect()); } catch e { print(e.context); }",
    # everything printed; garbage pressure; printed again
    "try { print(v); print(m); print(keep); print(it); print(esc); } catch e { print(e.context); } var gi = 0; while gi < 150 { var gt = [gi, [gi]]; gi = gi + 1; } "
    "try { print(esc()); print(keep); print(v.len()); } catch e { print(e.context); }",
    # survivors of a failed import / constructor / method
    'try { print(bad); } catch e { print(e.context); } try { import "bad" as bad2; print(bad2); } catch e { print(e.context); } try { import "good" as good; print(good.h()); } catch e { print(e.context); }',
    "try { print(keep.get()); print(keep.x); } catch e { print(e.context); } try { print(k); } catch e { print(e.context); } try { keep.boom(); } catch e { print(e.context); }",
    # new fibers driving the survivors
    "try { var nf = Fiber.new(|| { print(outer.call()); return esc(); }); print(nf.call()); } catch e { print(e.context); } "
    "try { var nf2 = Fiber.new(|| { print(fib.call()); return 1; }); print(nf2.call()); } catch e { print(e.context); }",
    # a fresh, healthy program
    'fn ok1(a) { return a + 1; } print(ok1(1)); try { throw "t"; } catch e { print(e); } finally { print("f"); } for q in [1, 2] { print(q); }',
]


def gen_repl_cases(ctx, quick):
    """[list of snippets]: declarations, the failing snippet, 3-5 touching snippets (one of them may be the failing snippet again)"""
    rng = ctx.rng
    cases = []
    for name, setup in REPL_SETUPS:
        fails = REPL_FAIL if ("FAIL" in setup) else [""]
        for f in fails:
            for rep in range(1 if quick else 4):
                failing = setup.replace("FAIL", f)
                touches = list(REPL_TOUCH)
                rng.shuffle(touches)
                touches = touches[:rng.randint(3, 5)]
                if rng.random() < 0.4:
                    touches.insert(rng.randint(0, len(touches)), failing)
                # the two fiber touches always come along (in random position)
                for must in REPL_TOUCH[:2]:
                    if must not in touches:
                        touches.insert(rng.randint(0, len(touches)), must)
                cases.append((name, [REPL_DECL, failing] + touches))
    return cases


def run_repl_cases(ctx, binary, cases):
    mods = ",".join("%s=%s" % (hx(k), hx(v)) for k, v in REPL_MODS.items())
    lines = ["c02repl %s %s" % (mods, " ".join(hx(sn) for sn in snips)) for _, snips in cases]
    recs = run_confirmed(ctx, binary, lines, "debug multi-snippet")
    fails = []
    nsnip = 0
    for (name, snips), r in zip(cases, recs):
        nsnip += len(snips)
        bad = bad_record(r)
        if bad is None and not r.tagged("SNIP"):
            bad = "harness command c02repl unavailable"
        if bad:
            fails.append((name, snips, bad))
    return nsnip, fails


# ------------------------------------------------------------------------------------------
# literal sizes: constructs whose element count is an instruction operand (u8), at the edges of the operand range

LIT_SIZES = [0, 1, 2, 127, 128, 129, 254, 255, 256]


def lit_elem(i):
    """(source, Display text) of element i: every kind in turn"""
    k = i % 8
    return [(str(i), str(i)), ('"s%d"' % i, "s%d" % i), ("nil", "nil"), ("true", "true"), ("[%d]" % i, "[%d]" % i), ("(%d,)" % i, "(%d,)" % i),
            ("{%d: %d}" % (i, i), "{%d: %d}" % (i, i)), ("%d..%d" % (i, i + 1), "Range(%d, %d)" % (i, i + 1))][k]


def lit_picks(n):
    return sorted({0, n // 2, n - 1}) if n > 0 else []


def lit_wrap(decl, literal, length_expr, pick_expr, n, expected_picks, call="lit(7)", extra_expected=None):
    """the literal evaluated in a loop and once more, between locals declared before and after it"""
    picks = lit_picks(n)
    src = [decl, 'fn lit(a) { var before = "B"; var before2 = [a]; var i = 0; var acc = 0;',
           "  while i < 3 { var x = %s; acc = acc + %s; i = i + 1; }" % (literal, length_expr("x")),
           '  var y = %s; var after = "A";' % literal,
           "  print(%s);" % length_expr("y")]
    src += ["  print(%s);" % pick_expr("y", j) for j in picks]
    src += ["  print(before); print(before2); print(after); print(acc); return y; }", "var z = %s; print(%s);" % (call, length_expr("z"))]
    exp = [str(n)] + expected_picks + ["B", "[7]", "A", str(3 * n), str(n)]
    return "\n".join(src), exp


def gen_literal_cases():
    """[(family, n, source, expected lines | 'compile-error')]"""
    cases = []
    for n in LIT_SIZES:
        ex = (lambda fam, src: cases.append((fam, n, src, "compile-error"))) if n > 255 else None
        els = [lit_elem(i) for i in range(n)]
        picks = lit_picks(n)
        # map literal: numeric and string keys
        keys = [(str(i), str(i)) if i % 2 == 0 else ('"k%d"' % i, "k%d" % i) for i in range(n)]
        src, exp = lit_wrap("", "{%s}" % ", ".join("%s: %s" % (keys[i][0], els[i][0]) for i in range(n)), lambda v: "%s.len()" % v,
                            lambda v, j: "%s.get(%s)" % (v, keys[j][0]), n, [els[j][1] for j in picks])
        cases.append(("map_entries", n, src, exp if n <= 255 else "compile-error"))
        src, exp = lit_wrap("", "[%s]" % ", ".join(e[0] for e in els), lambda v: "%s.len()" % v, lambda v, j: "%s[%d]" % (v, j), n, [els[j][1] for j in picks])
        cases.append(("vec_elements", n, src, exp if n <= 255 else "compile-error"))
        tl = "()" if n == 0 else "(%s,)" % els[0][0] if n == 1 else "(%s)" % ", ".join(e[0] for e in els)
        src, exp = lit_wrap("", tl, lambda v: "%s.len()" % v, lambda v, j: "%s[%d]" % (v, j), n, [els[j][1] for j in picks])
        cases.append(("tuple_elements", n, src, exp if n <= 255 else "compile-error"))
        # call arguments / parameters: the callee returns what it received in the picked positions
        names = ["p%d" % i for i in range(n)]
        ret = "[%s]" % ", ".join(names[j] for j in picks)
        args = ", ".join(e[0] for e in els)
        shown = "[%s]" % ", ".join(els[j][1] for j in picks)
        body_exp = lambda: [str(len(picks)), shown, "B", "[7]", "A", str(3 * len(picks)), str(len(picks))]

        def call_case(fam, decl, callexpr):
            src_ = "\n".join([decl, 'fn lit(a) { var before = "B"; var before2 = [a]; var i = 0; var acc = 0;',
                               "  while i < 3 { var x = %s; acc = acc + x.len(); i = i + 1; }" % callexpr,
                               '  var y = %s; var after = "A";' % callexpr,
                               "  print(y.len()); print(y); print(before); print(before2); print(after); print(acc); return y; }", "var z = lit(7); print(z.len());"])
            cases.append((fam, n, src_, body_exp() if n <= 255 else "compile-error"))
        call_case("call_args+parameters", "fn callee(%s) { return %s; }" % (", ".join(names), ret), "callee(%s)" % args)
        call_case("invoke_args+method_parameters", "#[constructor(new)] class KL { fn m(self%s) { return %s; } }" % ("".join(", " + x for x in names), ret), "KL.new().m(%s)" % args)
        call_case("lambda_parameters", "var lam = |%s| %s;" % (", ".join(names), ret), "lam(%s)" % args)
        # interpolation parts: n expression parts, and n parts alternating with text
        for fam, parts in (("interpolation_parts", ["${%d}" % (i % 10) for i in range(n)]),
                           ("interpolation_parts_text", [("${%d}" % (i % 10)) if i % 2 == 0 else "x" for i in range(n)])):
            lit = '"%s"' % "".join(parts)
            text = "".join(str(i % 10) if p.startswith("$") else p for i, p in enumerate(parts))
            src_ = "\n".join(['fn lit(a) { var before = "B"; var before2 = [a]; var i = 0; var acc = 0;',
                               "  while i < 3 { var x = %s; acc = acc + x.len(); i = i + 1; }" % lit,
                               '  var y = %s; var after = "A";' % lit,
                               "  print(y.len()); print(y); print(before); print(before2); print(after); print(acc); return y; }", "var z = lit(7); print(z.len());"])
            cases.append((fam, n, src_, [str(len(text)), text, "B", "[7]", "A", str(3 * len(text)), str(len(text))] if n <= 255 else "compile-error"))
        # locals
        if n >= 2:
            src_ = "fn lit() { %s l%d = l0 + 1; return [l0, l%d, l%d]; }\nprint(lit());" % ("".join("var l%d = %d;" % (i, i) for i in range(n)), n - 1, n // 2, n - 1)
            cases.append(("locals", n, src_, ["[0, %d, 1]" % (n // 2 if n // 2 != n - 1 else 1)] if n <= 255 else "compile-error"))
    return cases


def run_literal_cases(ctx, binary, cases, what, limits):
    """returns (#ok, failures [(family, n, source, description, is_panic)])"""
    recs = run_confirmed(ctx, binary, ["run - " + hx(c[2]) for c in cases], what)
    ok = 0
    fails = []
    for (fam, n, src, exp), r in zip(cases, recs):
        bad = bad_record(r)
        if bad:
            fails.append((fam, n, src, bad, True))
        elif exp == "compile-error" or n > limits.get(fam, 255):
            if r.result != ("err", "CompileError"):
                fails.append((fam, n, src, "expected a compile error (count does not fit the operand), got %s %s" % (r.result[0], r.output[:3]), False))
            else:
                ok += 1
        elif r.result[0] != "ok" or r.output != exp:
            got = r.output
            k = next((i for i, (a, b) in enumerate(zip(got, exp)) if a != b), min(len(got), len(exp)))
            fails.append((fam, n, src, "result %s %s; printed line %d: got %r, expected %r" % (r.result[0], r.messages[:1], k, got[k:k + 1], exp[k:k + 1]), False))
        else:
            ok += 1
    return ok, fails


# ------------------------------------------------------------------------------------------
# scale family (round 9): the data a program builds, one dimension at a time, sizes far beyond any hidden threshold; closed-form oracle
# (generators: tools/c02_scale.py)


def scale_check(rec, exp):
    """None when the record is the expected one, else (description, is_crash)"""
    bad = bad_record(rec)
    if bad:
        return bad, True
    if rec.result[0] != "ok" or rec.output != exp:
        got = rec.output
        k = next((i for i, (a, b) in enumerate(zip(got, exp)) if a != b), min(len(got), len(exp)))
        return "result %s %s; printed line %d: got %r, expected %r" % (rec.result[0], rec.messages[:1], k, [x[:120] for x in got[k:k + 1]], [x[:120] for x in exp[k:k + 1]]), False
    return None


def run_scale_rung(ctx, rung):
    """one rung of the plan: (label, #ok, failures [(family, n, variant, source, expected, description)])"""
    label, prof, opts, quarantine, cases = rung
    bbin = ctx.harness(prof)
    lines = ["run %s %s" % (opts, hx(c[3])) for c in cases]
    recs = yvlib.run_harness(bbin, lines, quarantine=quarantine, case_timeout_ms=60000, recycle=4)
    fails = []
    ok = 0
    for c, ln, r in zip(cases, lines, recs):
        d = scale_check(r, c[4])
        if d is not None:   # repeated alone in a fresh process before it counts (loaded machine, quarantine never returns memory)
            r = yvlib.run_harness(bbin, [ln], quarantine=quarantine, case_timeout_ms=240000, shards=1, recycle=1)[0]
            d = scale_check(r, c[4])
        if d is None:
            ok += 1
        else:
            fails.append((c[0], c[1], c[2], c[3], c[4], d[0]))
    return label, prof, opts, quarantine, ok, fails


def run_iter_cases(ctx, binary, cases, what):
    """returns (#agree, #differ, failures[(source, description)], first differences)"""
    group = 24
    body = lambda i, src: 'print("#%d");\n{\n%s\n}' % (i, src)
    reqs = [PRELUDE + "\n".join(body(i + j, c[0]) for j, c in enumerate(cases[i:i + group])) for i in range(0, len(cases), group)]
    recs = run_confirmed(ctx, binary, [mods_line(s) for s in reqs], what)
    agree = differ = 0
    fails = []
    diffs = []
    redo = []

    def judge(i, lines):
        nonlocal agree, differ
        exp = cases[i][1]
        got = [STOP if l.startswith(STOP) else l for l in lines]
        if exp is None or got == exp:
            agree += 1
        else:
            differ += 1
            if len(diffs) < 5:
                diffs.append((cases[i][0], exp, got))
    for k, (src, r) in enumerate(zip(reqs, recs)):
        if bad_record(r) is None and r.result[0] == "ok":
            got = parse_probe_output(r.output)
            for i in range(k * group, min(len(cases), (k + 1) * group)):
                judge(i, got.get(i, []))
        else:
            redo.extend(range(k * group, min(len(cases), (k + 1) * group)))
    if redo:
        r2 = yvlib.run_harness(binary, [mods_line(PRELUDE + body(i, cases[i][0])) for i in redo], quarantine=True, case_timeout_ms=30000, recycle=20)
        for i, r in zip(redo, r2):
            bad = bad_record(r)
            if bad or r.result[0] != "ok":
                fails.append((PRELUDE + cases[i][0], bad or ("ends in an uncaught error: %s" % r.messages[:2])))
            else:
                judge(i, parse_probe_output(r.output).get(i, []))
    return agree, differ, fails, diffs


def gen_derived_probes(ctx, per):
    rng = ctx.rng
    probes = []
    for native in NAT:
        if "#" not in native or native.startswith("Object"):
            continue
        exp = EXPECTED[native]
        for nargs in range(4):
            n = per if nargs == exp or native == "Fiber#call" else 1
            for _ in range(n if nargs else 1):
                probes.append(Probe(native, None, [rng.choice(POOL) for _ in range(nargs)], "derived"))
    return probes


# ------------------------------------------------------------------------------------------
# running probes


def mods_line(src, opts="-"):
    return "mods %s %s %s" % (opts, hx(src), " ".join("%s=%s" % (hx(k), hx(v)) for k, v in MODS.items()))


def parse_probe_output(lines):
    """{pid: [lines]} from the printed stream"""
    res = {}
    cur = None
    for l in lines:
        if l.startswith("#") and l[1:].isdigit():
            cur = int(l[1:])
            res[cur] = []
        elif cur is not None:
            res[cur].append(l)
    return res


def bad_record(rec):
    """None when the record is an acceptable outcome for S, else a short description"""
    k, v = rec.result
    if k in ("panic", "crash", "none"):
        return "%s: %s" % (k, v[:200])
    if rec.uaf:
        return "uaf: U=%d" % rec.uaf
    return None


def run_probe_groups(binary, probes, group, quarantine=True, extra_prelude="", timeout_ms=20000):
    """runs probes `group` at a time; a failing request is re-run probe by probe.
    returns per probe: ('ok'|'err'|'panic'|'crash'|'missing', lines, detail)"""
    reqs = []
    for i in range(0, len(probes), group):
        chunk = probes[i:i + group]
        src = PRELUDE + extra_prelude + "\n".join(p.snippet(i + j) for j, p in enumerate(chunk))
        reqs.append((i, chunk, src))
    recs = yvlib.run_harness(binary, [mods_line(s) for _, _, s in reqs], quarantine=quarantine, case_timeout_ms=timeout_ms)
    out = [None] * len(probes)
    redo = []
    for (i, chunk, src), rec in zip(reqs, recs):
        bad = bad_record(rec)
        got = parse_probe_output(rec.output)
        if bad is None and rec.result[0] == "ok":
            for j in range(len(chunk)):
                out[i + j] = classify_lines(got.get(i + j))
        elif len(chunk) == 1:
            out[i] = (rec.result[0] if bad else "script-err", got.get(i, []), bad or str(rec.messages[:2]))
        else:
            redo.extend(range(i, i + len(chunk)))
    if redo:
        sub = [probes[k] for k in redo]
        r2 = run_probe_groups(binary, sub, 1, quarantine, extra_prelude, timeout_ms)
        for k, r in zip(redo, r2):
            out[k] = r
    return out


def run_confirmed(ctx, binary, lines, what):
    """runs requests; a request that crashed or timed out is run again alone in a fresh process (the quarantining allocator never
    returns memory, so a long-lived harness process under a loaded machine can be killed or starved): only a failure that
    repeats is reported; the number of unconfirmed ones goes into the notes"""
    recs = yvlib.run_harness(binary, lines, quarantine=True, case_timeout_ms=30000, recycle=40)
    again = [i for i, r in enumerate(recs) if r.crashed]
    if again:
        r2 = yvlib.run_harness(binary, [lines[i] for i in again], quarantine=True, case_timeout_ms=60000, recycle=1)
        flaky = 0
        for i, r in zip(again, r2):
            if not r.crashed:
                flaky += 1
            recs[i] = r
        if flaky:
            ctx.notes.append("%d of %d %s requests crashed or timed out inside a long-lived harness process but ran normally when repeated alone "
                             "(resource exhaustion of the test machine, not counted)" % (flaky, len(lines), what))
    return recs


def classify_lines(lines):
    """the snippet prints ok / <class T> ... or err / <class E> / message (a probe of print() prints its argument first)"""
    lines = lines or []
    for i, l in enumerate(lines):
        if l in ("ok", "err"):
            return (l, lines[i + 1:], "")
    return ("missing", lines, "")


RK_CLASS = {"Nil": "<class Nil>", "Bool": "<class Boolean>", "Num": "<class Num>", "String": "<class String>",
            "Tuple": "<class Tuple>", "Vec": "<class Vec>", "Fiber": "<class Fiber>", "StringIter": "<class StringIter>",
            "TupleIter": "<class TupleIter>", "VecIter": "<class VecIter>", "RangeIter": "<class RangeIter>",
            "instance": "<class Error>", "StopIter": "<class StopIter>"}


def compare(probe, model, impl):
    """None when impl agrees with the model's outcome; else a description"""
    kind, lines, detail = impl
    if model is None:
        return "model evaluation failed"
    if model.startswith("!wf"):
        return "generator bug: ill-formed kind tags: " + model
    if model.startswith("P:"):
        return None if kind == "panic" else "model: panic (%s); impl: %s %s" % (model[2:], kind, lines[:3])
    if kind in ("panic", "crash", "missing", "script-err", "none"):
        return "model: %s; impl: %s %s %s" % (model, kind, lines[:3], detail)
    if model.startswith("D:"):
        return None
    if model.startswith("O:"):
        if kind != "ok":
            return "model: %s; impl: %s %s" % (model, kind, lines[:3])
        rk = model[2:]
        ty = lines[0] if lines else ""
        if rk == "recv":
            return None if lines[1:2] == ["true"] or probe.ctx != "top" else "Vec#push did not return its receiver"
        if rk == "any":
            return None
        if rk == "class":
            return None if ty.endswith("Class>") or ty == "<class Type>" else "result kind: model class, impl " + ty
        return None if RK_CLASS.get(rk) == ty else "result kind: model %s, impl %s" % (rk, ty)
    if model.startswith("E:"):
        _, ek, msg = model.split(":", 2)
        if kind != "err":
            return "model: %s; impl: %s %s" % (model, kind, lines[:3])
        if lines[:1] != ["<class %s>" % ek]:
            return "error class: model %s, impl %s" % (ek, lines[:1])
        if probe.native == "print":
            return None   # the harness installs its own printer (message differs by construction)
        pat = "^" + ".*".join(re.escape(x) for x in msg.split("{}")) + "$"
        text = "\n".join(lines[1:])
        return None if re.match(pat, text, re.S) else "message: model %r, impl %r" % (msg, text[:200])
    return "unparsable model outcome " + model


def model_outcomes(probes, tag):
    wires = [p.wire() for p in probes]
    per = 400
    terms = ['run_probes_w "%s"%%string' % ";".join(wires[i:i + per]) for i in range(0, len(wires), per)]
    vals = yvlib.coq_eval(["YV:NativesModel"], terms, shard_size=4, tag="C02" + tag, preamble="Open Scope string_scope.")
    out = []
    for i, v in enumerate(vals):
        n = len(wires[i * per:(i + 1) * per])
        out.extend(v.split("|") if v is not None and v.count("|") == n - 1 else [None] * n)
    return out


def hist_key(model, impl):
    kind = impl[0]
    if kind == "err":
        return "err:" + (impl[1][0] if impl[1] else "?").replace("<class ", "").replace(">", "")
    return kind


# ------------------------------------------------------------------------------------------
# stream (b): ill-typed programs

SCALARS = ["nil", "true", "false", "0", "-0", "1", "-1", "0.5", "3", "-4", "9007199254740992", "9223372036854775808",
           "(1/0)", "(-1/0)", "(0/0)", '""', '"a"', '"aé€\U0001F600b"', '"${1}x"']
PLAIN = SCALARS + ["[]", "[1, 2, 3]", "(1, 2)", "()", "{}", '{1: 2, "k": nil}', "0..3", "3..0", "Vec", "Object", "PC", "named", "type",
                   "|| 1", "|x| x", "PC.new()", "Error.new(1)"]
VARS = ["v_nil", "v_vec", "v_cyc", "v_map", "v_mcyc", "v_str", "v_tup", "v_utup", "v_rng", "v_inst", "v_err", "v_cls", "v_fn0", "v_fn1", "v_fn2",
        "v_nat", "v_bn", "v_bc", "v_it", "v_itd", "v_sit", "v_fnew", "v_fsus", "v_fdone", "v_mod", "v_stop", "v_mi", "v_der"]
PROG_PRELUDE = PRELUDE + """#[constructor(new), derive(PC)] class PD { fn m(self) { return super.m() + 1; } fn bad(self) { return super.nope(); } fn gs(self) { return super.m; } fn gbad(self) { return super.zip; } }
#[constructor(mk), derive(Error)] class MyErr {}
class It3 { #[constructor] fn new(self) { self.i = 0; } fn iter(self) { return self; } fn next(self) { self.i = self.i + 1; if self.i > 3 { return [].iter().next(); } return self.i; } }
fn rec(n) { return rec(n + 1) + 1; }
fn thrower(x) { throw x; }
var v_nil = nil; var v_vec = [1, "two", [3], nil]; var v_cyc = [1]; v_cyc.push(v_cyc); var v_map = {1: 2, "k": [1]};
var v_mcyc = {}; v_mcyc.insert("me", v_mcyc); var v_str = "aé€\U0001F600b"; var v_tup = (1, "a", (2,)); var v_utup = ([1],);
var v_rng = 1..4; var v_inst = PC.new(); var v_err = MyErr.mk(); var v_cls = PC; var v_fn0 = || 7; var v_fn1 = |x| x; var v_fn2 = |x, y| [x, y];
var v_nat = type; var v_bn = [1, 2].len; var v_bc = PC.new().two; var v_it = [1, 2, 3].iter(); var v_itd = [].iter(); v_itd.next();
var v_sit = "aé".iter(); var v_fnew = Fiber.new(|x| x); var v_fsus = Fiber.new(|| { Fiber.yield(1); Fiber.yield(2); return 3; }); v_fsus.call();
var v_fdone = Fiber.new(|| 1); v_fdone.call(); var v_mod = pm; var v_stop = [].iter().next(); var v_mi = [1, 2].iter().map(|x| x * 2); var v_der = PD.new();
"""
METHODS = ["len", "push", "pop", "iter", "next", "has_key", "get", "insert", "remove", "clear", "keys", "values", "items", "call", "has_finished",
           "derives", "new", "yield", "map", "filter", "collect", "reduce", "m", "two", "bad", "gs", "gbad", "mk", "from", "find", "replace", "split",
           "starts_with", "to_num", "to_bytes", "char_byte_index", "count_chars", "from_utf8", "from_ascii", "from_code_points", "context", "x", "f", "nope"]
BINOPS = ["+", "-", "*", "/", "%", "&", "|", "^", "<<", ">>", "<", ">", "<=", ">=", "==", "!=", "&&", "||"]
STORE_METHODS = {"push", "insert"}


class ProgGen:
    """random ill-typed programs.  Shapes of the OPEN known classes are excluded from this bulk stream:
    values stored into containers / fields are `plain` (no bound methods, no containers that may alias the target:
    gc_bound_method_regrey, deep_eq_recursion), map keys are scalars (map_key_untraced), derive never names a
    native-object class (derive_native_receiver), closures created in fibers do not escape (open_upvalue_dead_fiber), and of C08's
    still-open exception classes: no break/continue/return out of a try that HAS a finally clause, no return inside try/catch, no locals
    in finally, no try nested in a finally, no abrupt exit from a finally.  break/continue out of try/catch (no finally) nested in loops
    ARE generated (LoopTryGen and the `looptry` statement), always followed by later failing operations."""

    def __init__(self, rng):
        self.rng = rng
        self.n = 0

    def plain(self):
        return self.rng.choice(PLAIN)

    def atom(self):
        r = self.rng.random()
        if r < 0.45:
            return self.rng.choice(VARS)
        if r < 0.8:
            return self.rng.choice(PLAIN)
        return self.rng.choice(["Fiber", "String", "HashMap", "Tuple", "Range", "Iter", "MapIter", "StopIter", "TypeError", "Type", "Num", "print", "clock", "pm.x", "pm.f", "pm"])

    def args(self, d, store=False):
        n = self.rng.choice([0, 1, 1, 1, 2, 2, 3])
        if store:
            # key (scalar) then plain values
            return ", ".join([self.rng.choice(SCALARS)] * (1 if n else 0) + [self.plain() for _ in range(max(0, n - 1))]) if self.rng.random() < 0.5 \
                else ", ".join(self.rng.choice(SCALARS) for _ in range(n))
        return ", ".join(self.expr(d + 1) for _ in range(n))

    def expr(self, d=0):
        rng = self.rng
        if d >= 3 or rng.random() < 0.22:
            return self.atom()
        k = rng.random()
        if k < 0.16:
            return "(%s %s %s)" % (self.expr(d + 1), rng.choice(BINOPS), self.expr(d + 1))
        if k < 0.22:
            return "(%s%s)" % (rng.choice(["-", "!", "~"]), self.expr(d + 1))
        if k < 0.34:
            return "%s(%s)" % (self.expr(d + 1), self.args(d))
        if k < 0.56:
            m = rng.choice(METHODS)
            return "%s.%s(%s)" % (self.expr(d + 1), m, self.args(d, store=m in STORE_METHODS))
        if k < 0.63:
            return "%s.%s" % (self.expr(d + 1), rng.choice(METHODS))
        if k < 0.73:
            return "%s[%s]" % (self.expr(d + 1), rng.choice([self.expr(d + 1), "1", "-1", "2", "0..2", "1..-1", "7", "0.5", "(0/0)", "-9223372036854775808"]))
        if k < 0.77:
            return "(%s..%s)" % (rng.choice(["0", "1", "-2", "3", self.atom()]), rng.choice(["0", "2", "5", self.atom()]))
        if k < 0.82:
            return rng.choice(["[%s]", "(%s,)", "[%s, 1]"]) % self.expr(d + 1)
        if k < 0.85:
            return "{%s: %s}" % (rng.choice(SCALARS + [self.atom()]), self.expr(d + 1))
        if k < 0.89:
            return rng.choice(['"<${%s}>"' % rng.choice(VARS), "String.from(%s)" % self.expr(d + 1)])
        if k < 0.92:
            return "type(%s)" % self.expr(d + 1)
        if k < 0.95:
            return "Fiber.new(%s)" % rng.choice(["|| %s" % self.atom(), "|x| x", self.atom()])
        if k < 0.97:
            return "(|x| (%s))(%s)" % (self.expr(d + 1), self.atom())
        return rng.choice(["rec(0)", "thrower(%s)" % self.atom(), "Fiber.yield(%s)" % self.atom(), "v_fsus.call(%s)" % self.atom(),
                           "v_fnew.call(%s)" % self.atom(), "v_der.m()", "v_der.bad()", "v_der.gs()", "v_der.gbad()", "It3.new().collect()", "v_mi.collect()"])

    def stmt(self, d=0):
        rng = self.rng
        k = rng.random()
        self.n += 1
        if k < 0.30:
            return "print(%s);" % self.expr()
        if k < 0.34 and d == 0:
            return LoopTryGen(rng, self).function(self.n) + " try { print([1][5]); } catch z%d { print(type(z%d)); }" % (self.n, self.n)
        if k < 0.42:
            return "var t%d = %s;" % (self.n, self.expr())
        if k < 0.48:
            return "%s.%s = %s;" % (rng.choice(VARS), rng.choice(["x", "f", "context", "len"]), self.plain())
        if k < 0.55:
            return "%s[%s] = %s;" % (rng.choice(VARS), rng.choice(["0", "-1", "1", "9", "0.5", "nil", '"k"', "(0/0)", self.atom()]), self.plain())
        if k < 0.60:
            return "throw %s;" % self.expr()
        if k < 0.67:
            return "for q%d in %s { print(q%d); }" % (self.n, rng.choice([self.atom(), self.atom(), "It3.new()", "v_mi", "v_it.filter(|x| x)", "v_it.map(v_fn0)"]), self.n)
        if k < 0.72:
            return "if %s { %s } else { %s }" % (self.expr(), self.stmt(d + 1) if d < 2 else "", self.stmt(d + 1) if d < 2 else "")
        if k < 0.77 and d < 2:
            return "try { %s %s } catch e%d { print(type(e%d)); %s } finally { print(\"fin\"); }" % (self.stmt(d + 1), self.stmt(d + 1), self.n, self.n, self.stmt(d + 1) if rng.random() < 0.3 else "")
        if k < 0.82 and d < 2:
            return "try { %s } finally { print(\"f2\"); }" % self.stmt(d + 1)
        if k < 0.86:
            sup = rng.choice(["PC", "PD", "Object", "Error", "Iter", "MyErr", "v_nil", "v_vec", "v_inst", "v_fn0", "undefined_name"])
            c = "K%d" % self.n
            return ("#[constructor(new), derive(%s)] class %s { fn m(self) { return super.m(); } fn g(self) { return super.%s; } #[static] fn s(a) { return a; } } "
                    "print(%s.new().m()); print(%s.new().g()); print(%s.s(%s));" % (sup, c, rng.choice(METHODS), c, c, c, self.atom()))
        if k < 0.90:
            body = rng.choice(["Fiber.yield(%s); return 1;" % self.atom(), "return %s;" % self.expr(), "throw %s;" % self.atom(), "print(%s); Fiber.yield(); Fiber.yield(2);" % self.expr()])
            f = "fb%d" % self.n
            return "var %s = Fiber.new(|| { %s }); print(%s.call()); print(%s.call(%s)); print(%s.has_finished()); print(%s.call());" % (f, body, f, f, self.atom(), f, f)
        if k < 0.93:
            return "var w%d = 0; while w%d < 3 { w%d = w%d + 1; %s }" % (self.n, self.n, self.n, self.n, self.stmt(d + 1) if d < 2 else "")
        if k < 0.96:
            return "fn fn%d(a, b) { %s return a; } print(fn%d(%s));" % (self.n, self.stmt(d + 1) if d < 2 else "", self.n, self.args(0))
        return "print(\"${%s} and ${%s}\");" % (rng.choice(VARS), rng.choice(VARS))

    def program(self, size):
        lines = [PROG_PRELUDE]
        for _ in range(size):
            self.n += 1
            lines.append("try { %s } catch x%d { print(type(x%d)); }" % (self.stmt(), self.n, self.n))
        return "\n".join(lines)


class LoopTryGen:
    """functions (and top-level code) with loops whose bodies hold try/catch statements (no finally on the crossed tries) that are left by
    break / continue from the try block, from the catch block, from nested tries and nested loops - every exit must pop exactly the handlers
    it crosses.  A leaked handler is invisible until a LATER error is raised, so each program goes on with failing operations at outer
    levels: caught and uncaught, at top level, inside another function, inside a fiber; the run must end in the expected uncaught error."""

    ITEMS = ["1", "-2", "3", "0", "-1", "7", "nil", '"s"', "[1]", "2.5", "4"]

    def __init__(self, rng, pg=None):
        self.rng = rng
        self.pg = pg
        self.k = 0

    def cond(self, var):
        return self.rng.choice(["%s < 0" % var, "%s == 3" % var, "%s > 2" % var, "%s == nil" % var, "true", "%s != 1" % var])

    def fail_op(self, var):
        return self.rng.choice(["[1][%s];" % var, "%s.nope();" % var, "throw %s;" % var, "total = total + %s;" % var, "nil();", "var u = -%s;" % var,
                                "thrower(%s);" % var if self.pg else "throw [%s];" % var])

    def exit_stmt(self):
        return self.rng.choice(["continue;", "continue;", "break;"])

    def try_block(self, var, depth):
        """try/catch around: optional failing op, conditional exit, optional nested try or nested loop, accumulation"""
        rng = self.rng
        self.k += 1
        e = "e%d_%d" % (depth, self.k)
        body = []
        if rng.random() < 0.5:
            body.append("if %s { %s }" % (self.cond(var), self.fail_op(var)))
        if rng.random() < 0.8:
            body.append("if %s { %s }" % (self.cond(var), self.exit_stmt()))
        if depth < 2 and rng.random() < 0.45:
            body.append(self.try_block(var, depth + 1))
        if depth < 2 and rng.random() < 0.25:
            self.k += 1
            iv = "j%d" % self.k
            body.append("for %s in [0, 1, 2] { %s if %s { %s } }" % (iv, self.try_block(iv, depth + 1) if rng.random() < 0.6 else "", self.cond(iv), self.exit_stmt()))
        if rng.random() < 0.7:
            body.append("total = total + %s;" % var)
        if rng.random() < 0.3:
            body.append("if %s { %s }" % (self.cond(var), self.exit_stmt()))
        rng.shuffle(body)
        catch = ["total = total - 1000;"]
        if rng.random() < 0.5:
            catch.append("if %s { %s }" % (self.cond(var), self.exit_stmt()))
        if rng.random() < 0.2:
            catch.append("if %s { throw %s; }" % (self.cond(var), e))
        return "try { %s } catch %s { %s }" % (" ".join(body), e, " ".join(catch))

    def loop(self, items):
        rng = self.rng
        self.k += 1
        if rng.random() < 0.6:
            return "for item%d in %s { %s }" % (self.k, items, self.try_block("item%d" % self.k, 1))
        k = self.k
        return ("var i%d = 0; var xs%d = %s; while i%d < xs%d.len() { i%d = i%d + 1; var item%d = xs%d[i%d - 1]; %s }"
                % (k, k, items, k, k, k, k, k, k, k, self.try_block("item%d" % k, 1)))

    def items(self):
        return "[%s]" % ", ".join(self.rng.choice(self.ITEMS) for _ in range(self.rng.randint(1, 6)))

    def function(self, n):
        """a function holding one or two such loops (optionally all inside a try/finally that nothing crosses), and a call of it"""
        rng = self.rng
        loops = " ".join(self.loop("items") for _ in range(rng.choice([1, 1, 2])))
        if rng.random() < 0.25:
            loops = 'try { %s } finally { print("lf"); }' % loops
        call = "lt%d(%s)" % (n, self.items())
        return ("fn lt%d(items) { var total = 0; %s return total; } try { print(%s); } catch y%d { print(type(y%d)); }" % (n, loops, call, n, n))

    LATER = [
        ('try { print([1][5]); } catch l# { print(type(l#)); }', None),
        ('fn later#() { var w = [1]; return w[9]; } try { print(later#()); } catch l# { print(type(l#)); }', None),
        ('try { nil.nope(); } catch l# { print(type(l#)); }', None),
        ('try { throw "t#"; } catch l# { print(l#); }', None),
        ('print(Fiber.new(|| { try { return [1][4]; } catch l# { return 5; } }).call());', None),
        ('try { print(rec(0)); } catch l# { print(type(l#)); }', None),
    ]
    FINAL = [("var vend = [1]; print(vend[5]);", "IndexError"), ('throw "end";', "RuntimeError"), ("nil.nope();", "AttributeError"),
             ("fn endf() { return 1 + nil; } print(endf());", "TypeError"), ("print(Fiber.new(|| [1][7]).call());", "IndexError"),
             ("print(undefined_global_name);", "NameError"), ('print({}.get([]));', "ValueError")]

    def program(self):
        """(source, expected ErrorKind of the run)"""
        rng = self.rng
        lines = [PRELUDE + "fn rec(n) { return rec(n + 1) + 1; }\nfn thrower(x) { throw x; }"]
        self.pg = True
        for i in range(rng.randint(1, 3)):
            self.k += 1
            if rng.random() < 0.3:
                # top-level loop (the script frame itself)
                lines.append("var total = 0; try { %s } catch yt%d { print(type(yt%d)); } print(total);" % (self.loop(self.items()), self.k, self.k)
                             if i == 0 else self.function(self.k))
            else:
                lines.append(self.function(self.k))
            for _ in range(rng.randint(0, 2)):
                self.k += 1
                lines.append(rng.choice(self.LATER)[0].replace("#", str(self.k)))
        for _ in range(rng.randint(1, 3)):
            self.k += 1
            lines.append(rng.choice(self.LATER)[0].replace("#", str(self.k)))
        fin, kind = rng.choice(self.FINAL)
        lines.append(fin)
        return "\n".join(lines), kind


# ------------------------------------------------------------------------------------------
# stream (c): directed probes of the known classes

ZEROS = ", ".join(["0"] * 250)
KNOWN = [
    ("deep_eq_recursion", "unbounded host recursion in == / Display / has_hash / Hash / mark: == of two distinct self-containing vecs or maps aborts the process (host stack); so do Display at depth 1e5 and ==, hashing, marking at depth 1e6 on an 8 MiB stack",
     "var a = [1]; a.push(a); var b = [1]; b.push(b); try { print(a == b); } catch e { print(type(e)); }", "value.rs impl PartialEq for Value / object.rs ObjVec::eq"),
    ("deep_eq_recursion", "two distinct self-containing maps compared with ==",
     "var a = {}; a.insert(1, a); var b = {}; b.insert(1, b); try { print(a == b); } catch e { print(type(e)); }", "object.rs ObjHashMap::eq"),
    ("wide_frame_stack_overflow", "a frame wider than 256 slots recursing < 64 deep overruns the 16384-slot value stack: panic 'Stack overflow.' (dev) instead of the IndexError",
     "fn r(n) { if n == 0 { return 0; } return [%s, [%s, r(n - 1)]].len(); }\ntry { print(r(62)); } catch e { print(type(e)); print(e.context); }" % (ZEROS, ZEROS),
     "stack.rs Stack::push; vm.rs call_closure checks only frames.len()"),
    ("derive_native_receiver", "a class deriving from a native-object class reaches the native with an instance receiver: expect panic",
     "#[constructor(new), derive(Vec)] class M {} try { print(M.new().len()); } catch e { print(type(e)); }", "core.rs vec_len .expect(\"Expected ObjVec\"); vm.rs inherit_impl copies native methods"),
    ("gc_bound_method_regrey", "collector never terminates on a cycle through a bound method",
     "var v = []; var x = v.push; var w = []; var y = w.push; v.push(y); w.push(x); print(\"built\"); var z = [1, 2, 3]; print(z.len());",
     "object.rs ObjBoundMethod::blacken marks instead of blackening the receiver"),
    ("map_key_untraced", "a tuple referenced only as a HashMap key is reclaimed (use after free)",
     'var m = {}; m.insert((1, "a" + "b"), 5); var i = 0; while i < 300 { var t = [i, i, i]; i = i + 1; } print(m.keys()); print(m.has_key((1, "ab")));',
     "memory.rs impl GcManaged for HashMap marks values only"),
    ("open_upvalue_dead_fiber", "a closure that captured a local of a fiber reads the fiber's value stack after the fiber was reclaimed",
     "var g = nil; var f = Fiber.new(|| { var x = 1; g = || x; Fiber.yield(0); }); f.call(); f = nil; var i = 0; while i < 100 { var t = [i, i]; i = i + 1; } try { print(g()); } catch e { print(type(e)); }",
     "object.rs ObjUpvalueState::Open(*mut Value) into ObjFiber.stack; fibers do not close their upvalues when dropped"),
]
DEEP = [  # thorough only: depth-sized inputs (release build; the dev build marks at every allocation)
    ("deep_eq_recursion", "Display of a %d-deep vec", "var t = [1]; var i = 0; while i < %d { t = [t]; i = i + 1; } print(1); print(String.from(t).len());"),
    ("deep_eq_recursion", "== of two %d-deep vecs", "var t = [1]; var u = [1]; var i = 0; while i < %d { t = [t]; u = [u]; i = i + 1; } print(t == u);"),
    ("deep_eq_recursion", "has_hash/Hash of a %d-deep tuple", "var t = (1,); var i = 0; while i < %d { t = (t,); i = i + 1; } var m = {}; print(m.has_key(t));"),
    ("deep_eq_recursion", "mark of a %d-deep vec (collection)", "var t = [1]; var i = 0; while i < %d { t = [t]; i = i + 1; } var j = 0; var k = []; while j < 20000 { k = [j, j]; j = j + 1; } print(2);"),
]


def known_entry(cls, summary, witness, site):
    return {"property": "C02", "class": cls, "summary": summary, "witness": witness, "site": site}


# ------------------------------------------------------------------------------------------
# stream (d): kind-dependent VM sites on compiled programs


def parse_tree(lines):
    fns = {}
    for l in lines:
        f = l.split(" ")
        if f[0] == "F":
            fns[int(f[1])] = {"arity": int(f[2]), "upv": int(f[3]), "code": "" if f[5] == "-" else f[5], "consts": []}
        elif f[0] == "C":
            fns[int(f[1])]["consts"] = [c for c in f[2:] if c]
    return fns


def wire_of_tree(fns):
    """VerifierRun.parse_program wire: BFS numbering from the script (index 0)"""
    order = [0]
    seen = {0: 0}
    q = [0]
    while q:
        cur = q.pop(0)
        for c in fns[cur]["consts"]:
            if c[0] == "f":
                j = int(c[1:])
                if j not in seen:
                    seen[j] = len(order)
                    order.append(j)
                    q.append(j)
    parts = []
    for i in order:
        f = fns[i]
        cs = "".join(("f%d." % seen[int(c[1:])]) if c[0] == "f" else c[0] if c[0] in "sno" else "o" for c in f["consts"])
        parts.append("%d,%d:%s:%s" % (f["arity"], f["upv"], f["code"], cs))
    return "|".join(parts)


SITES_PREAMBLE = """From Coq Require Import Bool.
From YV Require Import VerifierRun NativesModel Verifier Show.
Open Scope string_scope.
Open Scope bool_scope.
Definition c02_sites (w : string) : string :=
  match parse_program w with
  | None => "PARSE-ERROR"%string
  | Some p => show_sep ","%string (fun f => match verify_fn true p f with
                                   | FOk a => ((if site_preds_ok true p f a && entry_not_site p f then "T" else "F") ++ show_nat (count_sites p f a))%string
                                   | FReject _ _ => "R"%string end) p
  end.
"""


def check_sites(ctx, binary, sources, tag):
    """compiles sources with the real compiler and evaluates the predecessor check on every function"""
    recs = yvlib.run_harness(binary, ["compile " + hx(s) for s in sources])
    wires = []
    for s, r in zip(sources, recs):
        if r.tagged("R") and r.tagged("R")[-1][0] == "ok":
            try:
                wires.append((s, wire_of_tree(parse_tree(r.lines))))
            except Exception:
                pass
    if not os.path.exists(os.path.join(yvlib.COQ, "theories", "VerifierRun.vo")):
        ctx.notes.append("site_preds check skipped: theories/VerifierRun.vo (C04's run interface) is not built")
        return 0, 0, 0
    vals = yvlib.coq_eval([], ['c02_sites "%s"%%string' % w for _, w in wires], shard_size=40, tag="C02" + tag, preamble=SITES_PREAMBLE)
    fns = sites = rejected = 0
    for (s, w), v in zip(wires, vals):
        if v is None or v == "PARSE-ERROR":
            ctx.corr_broken.append("site_preds: could not evaluate a compiled program (%s)" % v)
            continue
        for item in v.split(","):
            fns += 1
            if item == "R":
                rejected += 1
            elif item.startswith("F"):
                ctx.corr_broken.append("a kind-dependent VM site (Method/BuildString/GetSuper/SuperInvoke/FinishImport) is reachable from an "
                                       "instruction that does not produce the required kind; source: " + s[:300])
            else:
                sites += int(item[1:])
    return fns, sites, rejected


# ------------------------------------------------------------------------------------------


def load_table(ctx):
    vals = yvlib.coq_eval(["YV:NativesModel"], ["native_table"], tag="C02tab", preamble="Open Scope string_scope.")
    if not vals or vals[0] is None:
        ctx.broken.append("NativesModel.native_table could not be evaluated")
        return False
    rows = [r.rsplit(":", 2) for r in vals[0].split("|")]
    names = [r[0] for r in rows]
    if names != NAT:
        ctx.broken.append("plug-in native list differs from NativesModel.all_natives")
        return False
    for r in rows:
        EXPECTED[r[0]] = int(r[1])
        RECV_PANICS[r[0]] = r[2] == "T"
    return True


def check_pool_tags(ctx, binary):
    """the kind tags fed to the model are computed by the implementation (harness c02kind)"""
    # c02kind has no module loader argument: the module value is checked through the probe outputs instead
    usable = [v for v in POOL if v.kind != "module"]
    rec = yvlib.run_harness(binary, ["c02kind " + " ".join(hx(PRELUDE.replace('import "pm" as pm;', "") + v.code("v")) for v in usable)], shards=1)[0]
    got = {int(k[0]): k[1:] for k in rec.tagged("K")}
    if len(got) != len(usable):
        ctx.notes.append("c02kind unavailable (%s): pool tags not cross-checked" % str(rec.result)[:80])
        return 0
    bad = []
    for i, v in enumerate(usable):
        g = got[i]
        want = {"nil": "nil", "bool": "bool", "num": "num", "str": "str", "tuple": "tuple", "vec": "vec", "range": "range", "map": "map",
                "class": "class", "instance": "instance", "closure": "closure", "native": "native", "bound": "bound", "iter": "iter", "fiber": "fiber"}[v.kind]
        if g[0] != want:
            bad.append("%s: kind %s, impl %s" % (v.name, want, g))
        elif v.kind in ("vec", "tuple", "closure", "iter", "str", "map") and int(g[1]) != v.n:
            bad.append("%s: n %d, impl %s" % (v.name, v.n, g[1]))
        elif v.kind == "vec" and v.tag[1] != int(g[1]):
            bad.append("%s: tag len %d, impl %s" % (v.name, v.tag[1], g[1]))
        elif v.kind == "closure" and v.tag[1] != int(g[1]):
            bad.append("%s: tag arity %d, impl %s" % (v.name, v.tag[1], g[1]))
    for b in bad:
        ctx.broken.append("value pool tag does not describe the implementation's value: " + b)
    return len(usable)


def run(ctx):
    quick = ctx.quick()
    rng = ctx.rng
    if not load_table(ctx):
        return
    binary = ctx.harness("debug")
    if ctx.replay_only:
        rp = ctx.replay_only
        if rp.get("snippets"):
            _n, fails = run_repl_cases(ctx, binary, [("replay", rp["snippets"])])
            for name, snips, bad in fails:
                ctx.violation(rp.get("what", "replay"), input=rp.get("input"), snippets=snips, expected="every run: Ok or Err(Error)", actual=bad)
            ctx.cov.update({"evaluations": 1, "distinct_nontrivial": 1, "rule": "replay of one recorded snippet sequence", "samples": [rp["snippets"][1][:300]]})
            return
        if rp.get("scale_rung"):
            prof, opts, quar = rp["scale_rung"]
            r = yvlib.run_harness(ctx.harness(prof), ["run %s %s" % (opts, hx(rp["input"]))], quarantine=quar, case_timeout_ms=240000, shards=1)[0]
            d = scale_check(r, rp["expected_lines"])
            if d is not None:
                ctx.violation(rp.get("what", "replay"), input=rp["input"], expected=rp.get("expected"), actual=d[0], scale_rung=rp["scale_rung"], expected_lines=rp["expected_lines"])
            ctx.cov.update({"evaluations": 1, "distinct_nontrivial": 1, "rule": "replay of one recorded scale case", "samples": [rp["input"][:300]]})
            return
        if rp.get("family") is not None and rp.get("size") is not None:
            one = [c for c in gen_literal_cases() if c[0] == rp["family"] and c[1] == rp["size"]]
            bbin = ctx.harness("release") if rp.get("build") == "release" else binary
            _ok, l_fails = run_literal_cases(ctx, bbin, one, "replay", {"locals": 255})
            for fam, n_, src_, bad, is_panic in l_fails:
                ctx.violation(rp.get("what", "replay"), input=src_, expected=rp.get("expected"), actual=bad, build=rp.get("build"), family=fam, size=n_)
            ctx.cov.update({"evaluations": 1, "distinct_nontrivial": 1, "rule": "replay of one recorded literal-size case", "samples": [rp["family"], rp["size"]]})
            return
        src = rp.get("input", "")
        rec = yvlib.run_harness(binary, [mods_line(src)], quarantine=True)[0]
        bad = bad_record(rec)
        if bad:
            ctx.violation(rp.get("what", "replay"), input=src, expected="Ok or Err(Error)", actual=bad, known_class=rp.get("known_class"))
        ctx.cov.update({"evaluations": 1, "distinct_nontrivial": 1, "rule": "replay of one recorded program", "samples": [src[:300]]})
        return
    t0 = time.time()
    pool_checked = check_pool_tags(ctx, binary)

    # ---- (a) native pool correspondence impl == M, and oracle impl == S on the same probes ----
    probes = gen_probes(ctx, per_right=120 if quick else 600, per_wrong=10 if quick else 60)
    model = model_outcomes(probes, "a")
    impl = run_probe_groups(binary, probes, 24)
    hist = {}
    combos = set()
    nontrivial = set()
    mism = 0
    mism_by = {}
    viol_s = 0
    for p, m, r in zip(probes, model, impl):
        combos.add(p.key())
        hk = hist_key(m, r)
        hist[hk] = hist.get(hk, 0) + 1
        arity_err = r[0] == "err" and len(r[1]) > 1 and re.match(r"Expected (\d+|at most 1|one) (parameter|argument)", r[1][1] or "")
        if not arity_err and r[0] in ("ok", "err"):
            nontrivial.add(p.key())
        d = compare(p, m, r)
        if r[0] in ("panic", "crash", "missing", "script-err", "none"):
            viol_s += 1
            if viol_s <= 3:
                ctx.violation("built-in %s: the call does not end in a value or a reported error" % p.native, input=PRELUDE + p.snippet(0),
                              expected="Ok or Err(Error); model: %s" % m, actual="%s %s" % (r[0], r[2]), native=p.native, kinds=p.wire())
        if d is not None:
            mism += 1
            mism_by[p.native] = mism_by.get(p.native, 0) + 1
            if mism <= 8:
                ctx.corr_broken.append("impl != M (NativesModel.v) on %s [%s] ctx=%s: %s | snippet: %s" % (p.native, p.wire(), p.ctx, d, p.snippet(0)[:400]))

    log('[C02] native probes: %d in %.1fs' % (len(probes), time.time() - t0))
    t0 = time.time()
    # ---- receiver stream: instance receivers of classes deriving from native-object classes ----
    dprobes = gen_derived_probes(ctx, 2 if quick else 12)
    dmodel = model_outcomes(dprobes, "d")
    dimpl = run_probe_groups(binary, dprobes, 1, extra_prelude=DERIVE_PRELUDE)
    dpanics = []
    for p, m, r in zip(dprobes, dmodel, dimpl):
        combos.add(p.key())
        hk = "derived:" + hist_key(m, r)
        hist[hk] = hist.get(hk, 0) + 1
        d = compare(p, m, r)
        if d is not None:
            mism += 1
            if mism <= 8:
                ctx.corr_broken.append("impl != M on derived receiver %s [%s]: %s" % (p.native, p.wire(), d))
        if r[0] in ("panic", "crash"):
            dpanics.append((p, r))
    if dpanics:
        names = sorted({p.native for p, _ in dpanics})
        p0 = dpanics[0][0]
        ctx.violation("natives reached with an instance receiver (user class derives from a native-object class) panic: %d natives: %s" % (len(names), ", ".join(names)),
                      input=PRELUDE + DERIVE_PRELUDE + p0.snippet(0), expected="Ok or Err(Error)", actual="panic " + dpanics[0][1][2], known_class="derive_native_receiver",
                      natives=names)
    model_panics = sorted(n for n in NAT if RECV_PANICS[n])
    seen_panics = sorted({p.native for p, _ in dpanics})
    if seen_panics != model_panics:
        ctx.corr_broken.append("receiver_kind_refuted lists %d natives, the implementation panics on %d: model-only %s impl-only %s" % (
            len(model_panics), len(seen_panics), sorted(set(model_panics) - set(seen_panics)), sorted(set(seen_panics) - set(model_panics))))

    log('[C02] derived-receiver probes: %d in %.1fs' % (len(dprobes), time.time() - t0))
    t0 = time.time()
    # ---- VM operators on every kind (oracle only; indexing bodies are StrFns.v's) ----
    ops = gen_op_snippets(ctx, 300 if quick else 6000)
    op_ok, op_err, op_fails = run_op_snippets(ctx, binary, ops, 24, "debug operator")
    for s1, bad in op_fails[:3]:
        ctx.violation("a VM operator applied to adversarial operands does not end in a value or a reported error: %s" % bad, input=s1,
                      expected="Ok or Err(Error)", actual=bad)
    hist["op:ok"] = op_ok
    hist["op:err"] = op_err
    hist["op:fail"] = len(op_fails)
    log('[C02] operator probes: %d in %.1fs' % (len(ops), time.time() - t0))
    t0 = time.time()
    # ---- stateful iterator misuse (oracle impl == S, and the printed values against the reference cursor semantics) ----
    icases = gen_iter_cases(ctx, quick)
    it_agree, it_differ, it_fails, it_diffs = run_iter_cases(ctx, binary, icases, "debug iterator")
    for s1, bad in it_fails[:3]:
        ctx.violation("a container mutated under a live iterator / an iterator advanced past its end does not end in a value or a reported error: %s" % bad,
                      input=s1, expected="Ok or Err(Error)", actual=bad)
    for src_, exp_, got_ in it_diffs[:3]:
        ctx.corr_broken.append("iterator reference semantics (cursor >= length -> StopIter sentinel) differ from the implementation: expected %s, got %s | %s" % (exp_, got_, src_[:300]))
    hist["iter:agree"] = it_agree
    hist["iter:differ"] = it_differ
    hist["iter:fail"] = len(it_fails)
    log('[C02] iterator-misuse cases: %d in %.1fs' % (len(icases), time.time() - t0))
    t0 = time.time()
    # ---- the same (rejected) object offered again and again ----
    tcases = gen_twice_cases(ctx, quick)
    tw_agree, _tw_differ, tw_fails, _ = run_iter_cases(ctx, binary, tcases, "debug same-object")
    for s1, bad in tw_fails[:3]:
        ctx.violation("the same object offered repeatedly to built-ins / VM operations that reject it does not end in a value or a reported error: %s" % bad,
                      input=s1, expected="Ok or Err(Error)", actual=bad)
    hist["twice:ok"] = tw_agree
    hist["twice:fail"] = len(tw_fails)
    log('[C02] same-object cases: %d in %.1fs' % (len(tcases), time.time() - t0))
    t0 = time.time()
    # ---- literal sizes at the edges of the u8 count operands, dev and release builds, values known by construction ----
    lcases = gen_literal_cases()
    lit_limits = {"locals": 255}
    lit_hist = {}
    for bname, bbin in (("debug", binary), ("release", ctx.harness("release"))):
        l_ok, l_fails = run_literal_cases(ctx, bbin, lcases, bname + " literal-size", lit_limits)
        hist["literal:%s:ok" % bname] = l_ok
        hist["literal:%s:fail" % bname] = len(l_fails)
        for fam, n_, src_, bad, is_panic in l_fails[:3]:
            ctx.violation("%s with %d elements (%s build): %s" % (fam, n_, bname, ("does not end in a value or a reported error: " if is_panic else "wrong result: ") + bad),
                          input=src_, expected="the values known by construction" if n_ <= 255 else "CompileError", actual=bad, build=bname, family=fam, size=n_)
    log('[C02] literal-size cases: %d x 2 builds in %.1fs' % (len(lcases), time.time() - t0))
    t0 = time.time()
    # ---- scale family: chains / wide containers / trees / strings / histories of the data a program builds; closed-form results ----
    import c02_scale
    from concurrent.futures import ThreadPoolExecutor
    splan = c02_scale.plan(quick)
    for _l, prof_, _o, _q, _c in splan:
        ctx.harness(prof_)
    with ThreadPoolExecutor(max_workers=len(splan)) as ex_:
        sres = list(ex_.map(lambda rung: run_scale_rung(ctx, rung), splan))
    scale_cases = sum(len(r[4]) for r in splan)
    scale_fams = {}
    scale_bad = 0
    for label, prof_, opts_, quar_, s_ok, s_fails in sres:
        hist["scale:%s%s:ok" % (prof_, "" if opts_ == "-" else ":" + opts_)] = s_ok
        hist["scale:%s%s:fail" % (prof_, "" if opts_ == "-" else ":" + opts_)] = len(s_fails)
        for fam, n_, var_, src_, exp_, bad in sorted(s_fails, key=lambda f: f[1]):
            scale_bad += 1
            if scale_bad <= 4:
                ctx.violation("scale family %s at size %d (roots in %s; %s): the program does not print the values known in closed form: %s" % (fam, n_, var_, label, bad),
                              input=src_, expected="Ok, printed lines " + str([x[:60] for x in exp_[:6]]), actual=bad, scale_rung=[prof_, opts_, quar_], expected_lines=exp_, family=fam, size=n_)
    for _l, _p, _o, _q, cs_ in splan:
        for c_ in cs_:
            scale_fams.setdefault(c_[0], set()).add(c_[1])
    log('[C02] scale cases: %d in %.1fs' % (scale_cases, time.time() - t0))
    t0 = time.time()
    # ---- aliasing: the receiver (or a holder / part / iterator of it) as its own argument ----
    acases = gen_alias_cases(ctx, quick)
    al_ok, _al_differ, al_fails, _ = run_iter_cases(ctx, binary, acases, "debug aliasing")
    for s1, bad in al_fails[:3]:
        ctx.violation("a container passed (directly or inside another value) to its own method / VM operation does not end in a value or a reported error: %s" % bad,
                      input=s1, expected="Ok or Err(Error)", actual=bad)
    hist["alias:ok"] = al_ok
    hist["alias:fail"] = len(al_fails)
    log('[C02] aliasing cases: %d in %.1fs' % (len(acases), time.time() - t0))
    t0 = time.time()
    # ---- several runs on one Vm: an uncaught failure in some state, then everything that survived is used again ----
    rcases = gen_repl_cases(ctx, quick)
    repl_snips, repl_fails = run_repl_cases(ctx, binary, rcases)
    for name, snips, bad in repl_fails[:3]:
        ctx.violation("after a run that failed uncaught (%s), a later run on the same Vm that touches the surviving globals does not end in Ok or Err(Error): %s" % (name, bad),
                      input="\n//--- next run on the same Vm ---\n".join(snips), snippets=snips, expected="every run: Ok or Err(Error)", actual=bad)
    hist["repl:ok"] = len(rcases) - len(repl_fails)
    hist["repl:fail"] = len(repl_fails)
    log('[C02] multi-snippet cases: %d (%d snippets) in %.1fs' % (len(rcases), repl_snips, time.time() - t0))
    t0 = time.time()
    # ---- (b) ill-typed programs: oracle impl == S ----
    nprog = 400 if quick else 3000
    gen = ProgGen(rng)
    progs = [gen.program(rng.randint(8, 30)) for _ in range(nprog)]
    precs = run_confirmed(ctx, binary, [mods_line(s) for s in progs], "debug")
    pres = {}
    errk = {}
    pviol = []
    for s, r in zip(progs, precs):
        k = r.result[0] if r.result[0] != "err" else "err:" + r.result[1]
        pres[k] = pres.get(k, 0) + 1
        for o in r.output:
            if o.startswith("<class ") and o.endswith("Error>"):
                errk[o[7:-1]] = errk.get(o[7:-1], 0) + 1
        bad = bad_record(r)
        if bad:
            pviol.append((s, bad, "debug"))
    builds = ["debug+quarantine"]
    if not quick:
        feats = ("safe_active_fiber", "safe_class_lookup", "safe_stack", "safe_vm_opcodes", "debug_stress_gc")
        rbin = ctx.harness("release", features=feats)
        builds.append("release+" + "+".join(feats))
        rrecs = run_confirmed(ctx, rbin, [mods_line(s) for s in progs], "release+safe")
        for s, r, d in zip(progs, rrecs, precs):
            bad = bad_record(r)
            if bad:
                pviol.append((s, bad, "release+safe"))
            elif r.output != d.output and "0x" not in "".join(r.output + d.output) and "clock" not in s:
                ctx.notes.append("dev and release+safe builds print different lines for one generated program (C10's concern)")
        rimpl = run_probe_groups(rbin, probes, 24)
        for p, m, r in zip(probes, model, rimpl):
            if r[0] in ("panic", "crash", "missing", "none"):
                pviol.append((PRELUDE + p.snippet(0), "%s %s" % (r[0], r[2]), "release+safe"))
            elif compare(p, m, r) is not None:
                mism += 1
                if mism <= 8:
                    ctx.corr_broken.append("impl(release+safe) != M on %s [%s]: %s" % (p.native, p.wire(), compare(p, m, r)))
    if pviol:
        s0, bad0, where = pviol[0]
        small = shrink_program(binary if where == "debug" else rbin, s0)
        ctx.violation("a compilable program does not end in Ok or Err(Error) (%s build): %s" % (where, bad0), input=small, expected="Ok or Err(Error)", actual=bad0,
                      failing_programs=len(pviol))
        for s, bad, where in pviol[1:4]:
            ctx.violation("a compilable program does not end in Ok or Err(Error) (%s build): %s" % (where, bad), input=s, expected="Ok or Err(Error)", actual=bad)

    # ---- (b2) loops x try/catch x break/continue, followed by later failing operations ----
    ltg = LoopTryGen(rng)
    lts = [ltg.program() for _ in range(300 if quick else 3000)]
    ltrecs = run_confirmed(ctx, binary, [mods_line(s_) for s_, _ in lts], "debug loop-try")
    lt_bad = lt_wrong = 0
    for (s_, kind), r in zip(lts, ltrecs):
        bad = bad_record(r)
        hk = "looptry:" + ("bad" if bad else r.result[0] + (":" + r.result[1] if r.result[0] == "err" else ""))
        hist[hk] = hist.get(hk, 0) + 1
        if bad:
            lt_bad += 1
            if lt_bad <= 3:
                ctx.violation("break/continue out of try/catch in a loop, then a later error: the run does not end in Ok or Err(Error): %s" % bad,
                              input=s_, expected="Err(%s)" % kind, actual=bad)
        elif r.result != ("err", kind):
            lt_wrong += 1
            if lt_wrong <= 2:
                ctx.violation("break/continue out of try/catch in a loop, then a later UNCAUGHT error: the run does not stop with that error as its reported "
                              "error value (delivered to a handler that should no longer be registered?)", input=s_, expected="Err(%s)" % kind,
                              actual="%s %s; last lines %s" % (r.result[0], r.result[1][:60], r.output[-3:]))
    log('[C02] programs: %d x %d builds + %d loop-try programs in %.1fs' % (len(progs), len(builds), len(lts), time.time() - t0))
    t0 = time.time()
    # ---- (c) directed probes of the known classes ----
    findings = []
    krecs = yvlib.run_harness(binary, ["run - " + hx(w) for _, _, w, _ in KNOWN], quarantine=True, case_timeout_ms=8000)
    seen_known = {}
    for (cls, summary, w, site), r in zip(KNOWN, krecs):
        bad = bad_record(r)
        if bad:
            seen_known.setdefault(cls, []).append(bad)
            findings.append(known_entry(cls, summary, w, site))
            ctx.violation("%s: %s" % (cls, summary), input=w, expected="Ok or Err(Error)", actual=bad, known_class=cls)
    if not quick:
        rbin = ctx.harness("release")
        for depth in (1000, 100000, 1000000):
            drecs = yvlib.run_harness(rbin, ["c02stack 8192 " + hx(w % depth) for _, _, w in DEEP], quarantine=False, case_timeout_ms=120000)
            for (cls, summary, w), r in zip(DEEP, drecs):
                bad = bad_record(r)
                hist["deep:%d:%s" % (depth, "bad" if bad else "ok")] = hist.get("deep:%d:%s" % (depth, "bad" if bad else "ok"), 0) + 1
                if bad:
                    ctx.violation("%s: %s: %s" % (cls, summary % depth, bad), input=w % depth, expected="Ok or Err(Error)", actual=bad, known_class=cls, build="release")
    if dpanics:
        findings.append(known_entry("derive_native_receiver", "%d natives panic (expect) when a user class derives from their native-object class: %s" % (
            len(seen_panics), ", ".join(seen_panics)), "#[constructor(new), derive(Vec)] class M {} M.new().len();", "core.rs: every try_as_obj_*().expect on the receiver; vm.rs inherit_impl"))

    log('[C02] directed probes in %.1fs' % (time.time() - t0))
    t0 = time.time()
    # ---- (d) kind-dependent VM sites of compiled code ----
    site_srcs = progs[:60 if quick else 600] + [PRELUDE + DERIVE_PRELUDE, PROG_PRELUDE]
    tdir = os.path.join(yvlib.REPO, "yarel", "tests", "scripts")
    scripts = []
    for root, dirs, files in sorted(os.walk(tdir)):
        dirs.sort()
        for f in sorted(files):
            if f.endswith(".yl"):
                scripts.append(os.path.join(root, f))
    for f in scripts[:None if not quick else 200]:
        with open(f) as fh:
            site_srcs.append(fh.read())
    fns, sites, rejected = check_sites(ctx, binary, site_srcs, "sites")

    log('[C02] site check: %d functions in %.1fs' % (fns, time.time() - t0))
    ncalls = len(probes) + len(dprobes)
    ctx.cov.update({
        "operator_probes": len(ops), "iterator_misuse_cases": len(icases), "same_object_cases": len(tcases), "literal_size_cases": len(lcases) * 2, "scale_cases": scale_cases, "scale_sizes_by_family": {k: sorted(v) for k, v in sorted(scale_fams.items())}, "aliasing_cases": len(acases), "multi_snippet_cases": len(rcases), "multi_snippet_snippets": repl_snips,
        "evaluations": ncalls + len(ops) + len(icases) + len(tcases) + 2 * len(lcases) + scale_cases + len(acases) + len(rcases) + len(lts) + len(progs) * len(builds) + len(KNOWN) + (len(probes) if not quick else 0),
        "distinct_nontrivial": len(nontrivial),
        "rule": "native calls: distinct (native, fiber context, receiver kind, argument-kind vector) combinations whose outcome is NOT an arity error "
                "(the call got past check_num_args / the at-most-1 test); kinds as in NativesModel.akind (number class, vec length, tuple hashability, "
                "closure arity, iterator kind, fiber frames/at_start/has_caller/arity)",
        "native_calls": ncalls, "distinct_combinations": len(combos), "outcome_histogram": dict(sorted(hist.items())),
        "impl_vs_model_mismatches": mism, "mismatches_by_native": mism_by, "pool_values": len(POOL), "pool_values_kind_checked_by_impl": pool_checked,
        "natives": len(NAT), "derived_receiver_panics": seen_panics,
        "programs": len(progs), "loop_try_programs": len(lts), "program_results": pres, "program_caught_error_classes": dict(sorted(errk.items())), "builds": builds,
        "known_classes_probed": sorted({k[0] for k in KNOWN}), "known_classes_reproduced": {k: v[0][:80] for k, v in seen_known.items()},
        "site_check_functions": fns, "site_check_sites": sites, "site_check_rejected_by_verifier": rejected,
        "samples": [probes[len(probes) // 3].snippet(0), dprobes[0].snippet(0) if dprobes else "", progs[0][len(PROG_PRELUDE):][:600]],
        "input_distribution": {"probes_per_native": {n: sum(1 for p in probes if p.native == n) for n in NAT},
                               "arg_kinds": {k: sum(1 for p in probes for a in p.args if a.kind == k) for k in BY_KIND}},
    })
    # BcVM tie (coordinator, round 7): the complete Gallina bytecode VM (coq/theories/BcVM.v; theorems in props/C02_bcvm.v)
    # executes the REAL compiler's output and must agree with the real VM - outcome and per-instruction H4 trace - on a
    # deterministic slice of the repository scripts and on the directed corner cases of vm.rs; a mismatch is a broken
    # correspondence (impl != M) and starts the search.
    try:
        import bcvm_corr
        tb = time.time()
        bcvm_corr.bcvm_check(ctx, 60 if quick else 300)
        log('[C02] BcVM tie in %.1fs' % (time.time() - tb))
    except yvlib.BuildError:
        raise
    except Exception as e:   # the tie itself failing to run is an obligation that no longer checks, not a silent skip
        ctx.broken.append("BcVM tie could not run: %s" % (str(e)[-300:],))
    if fns and rejected:
        ctx.notes.append("%d of %d compiled functions are rejected by the (lenient) verifier, so site_preds says nothing about them: C04's known classes" % (rejected, fns))
    # findings file for the maintainer of known_findings.json
    fpath = os.path.join(yvlib.VERIF, "notes", "C02-findings.json")
    seenc = set()
    uniq = []
    for f in findings:
        if f["class"] not in seenc:
            seenc.add(f["class"])
            uniq.append(f)
    if uniq:
        old = []
        if os.path.exists(fpath):
            try:
                with open(fpath) as fh:
                    old = json.load(fh)
            except Exception:
                old = []
        probed = {k[0] for k in KNOWN} | {"derive_native_receiver"}
        keep = [o for o in old if o.get("class") not in seenc and o.get("class") not in probed]   # a probed class that no longer reproduces is dropped
        yvlib.write_json(fpath, keep + uniq)


def shrink_program(binary, src):
    """drops top-level try-statements of a failing generated program while it keeps failing (<= 30 re-runs)"""
    if not src.startswith(PROG_PRELUDE):
        return src
    stmts = src[len(PROG_PRELUDE):].split("\n")
    stmts = [s for s in stmts if s]
    budget = [30]

    def fails(ss):
        if budget[0] <= 0:
            return False
        budget[0] -= 1
        r = yvlib.run_harness(binary, [mods_line(PROG_PRELUDE + "\n".join(ss))], quarantine=True, shards=1, case_timeout_ms=30000)[0]
        return bad_record(r) is not None
    n = 2
    cur = stmts
    while len(cur) >= 2 and budget[0] > 0:
        size = max(1, len(cur) // n)
        reduced = False
        for i in range(0, len(cur), size):
            cand = cur[:i] + cur[i + size:]
            if cand and fails(cand):
                cur = cand
                n = max(n - 1, 2)
                reduced = True
                break
        if not reduced:
            if size == 1:
                break
            n = min(n * 2, len(cur))
    return PROG_PRELUDE + "\n".join(cur)


def search(ctx):
    """obligations or correspondences broken: look for a failing input with the thorough pool"""
    old = ctx.tier
    ctx.tier = "thorough"
    try:
        run(ctx)
    finally:
        ctx.tier = old
